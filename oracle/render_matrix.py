"""Native oracle for C17 (bounded): render_basic through real applications -- endpoints with no / one-line /
multi-line docstrings, tabular mappings and sequences, text values, over the format parameter and Accept
headers with q-values: never raises, 200, and the format the statement asks for (format parameter wins; else the
client's preference between JSON and HTML; JSON by default)."""
import json, sys, warnings
warnings.simplefilter('ignore')


def run(case):
    from clastic import Application, Response
    from clastic.render import render_basic
    from werkzeug.test import Client
    problems = []

    def nodoc():
        return {'a': 1, 'b': 'two'}

    def onedoc():
        "a one-line docstring"
        return {'a': 1, 'b': 'two'}

    def multidoc():
        """first line

        more lines
        """
        return [{'a': 1}, {'a': 2}]

    def seq():
        return [1, 2, 3]

    def proxy():
        import types
        return types.MappingProxyType({'name': 'world', 'count': 3})

    def nested_proxy():
        import collections
        return {'inner': collections.ChainMap({'k': 1}), 'tags': frozenset(['a'])}
    def mixed_set():
        # members that cannot be ordered against each other
        return {'tags': set([1, 'a', None]), 'frozen': frozenset([(1, 2), 'x'])}
    texts = {'jobj': '{"a": 1}', 'jarr': '[1, 2, {"n": "x"}]', 'mixed1': "[INFO] reloaded {'debug': True}", 'mixed2': '{x]',
             'html': '<!doctype html><html><body>x</body></html>', 'plain': 'just text', 'empty': '', 'bytesarr': b'[1,2]'}
    routes = [('/nodoc', nodoc, render_basic), ('/onedoc', onedoc, render_basic), ('/multidoc', multidoc, render_basic),
              ('/seq', seq, render_basic), ('/proxy', proxy, render_basic), ('/nested', nested_proxy, render_basic),
              ('/mixedset', mixed_set, render_basic)]
    for k, v in texts.items():
        routes.append(('/t/' + k, (lambda v=v: v), render_basic))
    app = Application(routes)
    cl = Client(app, Response)
    want_text = {'jobj': 'application/json', 'jarr': 'application/json', 'mixed1': 'text/plain', 'mixed2': 'text/plain',
                 'html': 'text/html', 'plain': 'text/plain', 'empty': 'text/plain', 'bytesarr': 'application/json'}
    for k, want in want_text.items():
        r = cl.get('/t/' + k)
        if r.status_code != 200 or r.mimetype != want:
            problems.append('text %r: %s %s, expected 200 %s' % (texts[k], r.status_code, r.mimetype, want))
    for path, want in (('/proxy', {'name': 'world', 'count': 3}), ('/nested', {'inner': {'k': 1}, 'tags': ['a']})):
        r = cl.get(path)
        try:
            got = json.loads(r.get_data(as_text=True)) if r.status_code == 200 else '<status %s>' % r.status_code
        except ValueError:
            got = '<not JSON>'
        if got != want:
            problems.append('%s: a string-keyed mapping that is not a dict serialised as %r, expected %r' % (path, got, want))
    r = cl.get('/mixedset')
    try:
        got = json.loads(r.get_data(as_text=True)) if r.status_code == 200 else '<status %s>' % r.status_code
        ok = sorted(map(repr, got['tags'])) == sorted(map(repr, [1, 'a', None])) and \
            sorted(map(repr, got['frozen'])) == sorted(map(repr, [[1, 2], 'x']))
    except Exception:
        got, ok = '<status %s, not the JSON of the value>' % r.status_code, False
    if not ok:
        problems.append('/mixedset: sets of mutually unorderable members serialised as %r' % (got,))
    accepts = [(None, 'application/json'), ('application/json', 'application/json'), ('text/html', 'text/html'),
               ('application/json, text/html;q=0.1', 'application/json'), ('text/html, application/json;q=0.1', 'text/html'),
               ('application/json, text/plain, */*;q=0.01', 'application/json'), ('text/html;q=0.2, application/json;q=0.9', 'application/json')]
    for path in ('/nodoc', '/onedoc', '/multidoc', '/seq'):
        for fmt, fwant in ((None, None), ('json', 'application/json'), ('html', 'text/html')):
            for acc, awant in accepts:
                url = path + ('?format=%s' % fmt if fmt else '')
                try:
                    r = cl.get(url, headers={'Accept': acc} if acc else {})
                except Exception as e:
                    problems.append('%s Accept=%s: %s escaped' % (url, acc, type(e).__name__))
                    continue
                want = fwant or awant
                if r.status_code != 200 or r.mimetype != want:
                    problems.append('%s Accept=%s: %s %s, expected 200 %s' % (url, acc, r.status_code, r.mimetype, want))
                elif want == 'application/json':
                    try:
                        json.loads(r.get_data(as_text=True))
                    except ValueError:
                        problems.append('%s: body is not valid JSON' % url)
    return {'fails': bool(problems), 'why': '; '.join(problems[:4]), 'count': len(problems)}


if __name__ == '__main__':
    case = json.load(sys.stdin)
    try:
        out = run(case)
    except Exception:
        import traceback
        out = {'fails': False, 'harness_error': traceback.format_exc()[-1500:]}
    print(json.dumps(out))
