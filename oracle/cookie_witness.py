"""Ground witnesses for the assumed contract on secure_cookie (A-sc)."""
import json, sys, warnings
warnings.simplefilter('ignore')
from secure_cookie.cookie import SecureCookie
detail = []
ok = True
for raw in ('a?b', 'abc?k=v'):
    try:
        SecureCookie.unserialize(raw, b'k')
        detail.append('%r: no exception' % raw)
        ok = False
    except ValueError as e:
        detail.append('%r -> %s' % (raw, type(e).__name__))
    except Exception as e:
        detail.append('%r -> %s (not a ValueError)' % (raw, type(e).__name__))
        ok = False
c = SecureCookie.unserialize('garbage', b'k')
ok = ok and len(c) == 0
print(json.dumps({'ok': ok, 'detail': '; '.join(detail)}))
