"""Native oracle for C10: a tree of applications (depth <= 3) against an independently flattened
declaration; responses (status, body, Location) of the C06-style request catalogue are compared.
case = {"seed": n, "trees": k}  (random trees drawn from a fixed catalogue) or {"tree": {...}} explicit."""
import json, random, sys, warnings
warnings.simplefilter('ignore')

LEAF_ROUTES = [('/', 'root'), ('/a', 'a'), ('/b/', 'b'), ('/n/<x>', 'x'), ('/i/<y:int>/', 'y'), ('/boom', 'boom'),
               ('/nf', 'nf'), ('/tmpl', 'tmpl')]
PREFIXES = ['/p', '/q/', '/', '/deep/er']
MODES = ['redirect', 'strict', 'rewrite']


def mw_class(name, unique=True):
    from clastic.middleware import Middleware

    def request(self, next, request):
        tr = request.environ.setdefault('c10.trace', [])
        tr.append(self.tag)
        return next()
    return type(name, (Middleware,), {'request': request, 'unique': unique})


_MW = {}


def mk_mw(clsname, tag, unique=True):
    if clsname not in _MW:
        _MW[clsname] = mw_class(clsname, unique)
    m = _MW[clsname]()
    m.tag = tag
    return m


def handler(tag):
    from clastic.errors import ErrorHandler

    class H(ErrorHandler):
        def render_error(self, request, _error):
            from clastic import Response
            return Response('handler:%s code:%s' % (tag, _error.code), status=_error.code)
    H.__name__ = 'H_' + tag
    return H()


def factory(tag):
    def render_factory(arg):
        def render(context, request):
            from clastic import Response
            return Response('factory:%s arg:%s ctx:%s trace:%s' % (tag, arg, sorted(context.items()),
                                                                    ','.join(request.environ.get('c10.trace', []))))
        return render
    return render_factory


def endpoints():
    from clastic import Response
    from clastic.errors import NotFound

    def text(label):
        def ep(request, ra, rb, **kw):
            return Response('%s ra=%s rb=%s trace=%s' % (label, ra, rb, ','.join(request.environ.get('c10.trace', []))))
        return ep

    def root(request, ra, rb):
        return text('root')(request, ra, rb)

    def a(request, ra, rb):
        return text('a')(request, ra, rb)

    def b(request, ra, rb):
        return text('b')(request, ra, rb)

    def x(request, ra, rb, x):
        return text('x:%s' % x)(request, ra, rb)

    def y(request, ra, rb, y):
        return text('y:%r' % y)(request, ra, rb)

    def boom(ra):
        raise ValueError('boom')

    def nf():
        raise NotFound()

    def tmpl(ra, rb):
        return {'ra': ra, 'rb': rb}
    return {'root': root, 'a': a, 'b': b, 'x': x, 'y': y, 'boom': boom, 'nf': nf, 'tmpl': tmpl}


def rand_level(rng, depth, name):
    lvl = {'name': name, 'mode': rng.choice(MODES), 'handler': rng.choice([None, name]),
           'factory': rng.choice([None, name]) if depth > 0 else name,
           'mws': [], 'resources': {}, 'child': None}
    for cls in rng.sample(['MA', 'MB', 'MC'], rng.randint(0, 2)):
        lvl['mws'].append([cls, '%s.%s' % (name, cls)])
    if rng.random() < 0.5:
        lvl['resources']['ra'] = '%s-ra' % name
    return lvl


def rand_tree(rng):
    depth = rng.randint(1, 3)
    names = ['outer', 'mid', 'inner'][:depth]
    if depth < 3:
        names = ['outer', 'inner'][:depth] if depth == 2 else ['outer']
    levels = [rand_level(rng, i, n) for i, n in enumerate(names)]
    leaf = levels[-1]
    leaf['routes'] = rng.sample(LEAF_ROUTES, rng.randint(3, len(LEAF_ROUTES)))
    # an inner application without a render factory of its own takes the embedding one's (spec decision,
    # documented in DESIGN.md): the leaf always has one here
    leaf['factory'] = leaf['name']
    leaf['resources'].setdefault('ra', '%s-ra' % leaf['name'])
    leaf['resources']['rb'] = '%s-rb' % leaf['name']
    # a name defined only by two inner levels has no documented precedence: the mid level never defines rb
    levels[0]['resources']['ra'] = levels[0]['resources'].get('ra', 'outer-ra') if rng.random() < 0.7 else levels[0]['resources'].get('ra')
    if levels[0]['resources'].get('ra') is None:
        levels[0]['resources'].pop('ra', None)
    for i in range(len(levels) - 1):
        levels[i]['child'] = {'prefix': rng.choice(PREFIXES), 'inherit_slashes': rng.random() < 0.7,
                              'rebind_render': rng.random() < 0.3, 'as_tuple': rng.random() < 0.5}
    return {'levels': levels}


def build_nested(tree):
    from clastic import Application, Route, SubApplication
    eps = endpoints()
    levels = tree['levels']
    app = None
    for i in range(len(levels) - 1, -1, -1):
        lv = levels[i]
        kw = {'resources': dict(lv['resources']), 'middlewares': [mk_mw(c, t) for c, t in lv['mws']],
              'slash_mode': lv['mode']}
        if lv['handler']:
            kw['error_handler'] = handler(lv['handler'])
        if lv['factory']:
            kw['render_factory'] = factory(lv['factory'])
        if app is None:
            routes = [Route(p, eps[e], 'T-' + e if e == 'tmpl' else None) for p, e in lv['routes']]
        else:
            ch = lv['child']
            if ch.get('as_tuple'):
                # the documented shorthand: (prefix, application[, rebind_render[, inherit_slashes]])
                routes = [(ch['prefix'], app, ch['rebind_render'], ch['inherit_slashes'])]
            else:
                routes = [SubApplication(ch['prefix'], app, rebind_render=ch['rebind_render'], inherit_slashes=ch['inherit_slashes'])]
        app = Application(routes, **kw)
    return app


def build_flat(tree):
    """the flat declaration, computed from the statement (not from BoundRoute)"""
    from clastic import Application, Route
    eps = endpoints()
    levels = tree['levels']
    leaf = levels[-1]
    prefix = ''
    for lv in levels[:-1]:
        prefix += lv['child']['prefix'].rstrip('/')
    # middlewares: outer then inner, a type kept once at its outermost position (all types here are unique)
    mws, seen = [], set()
    for lv in levels:
        for c, t in lv['mws']:
            if c not in seen:
                seen.add(c)
                mws.append(mk_mw(c, t))
    # resources: all levels, the outermost application's value wins for a name it defines; below it the more
    # deeply declared value is the route's own (route's resources win over the binding application's at bind time)
    res = {}
    for lv in levels:                 # outer -> inner: inner overrides at bind time ...
        res.update(lv['resources'])
    res.update(levels[0]['resources'])     # ... and the serving application overrides at request time
    # slash mode: the outer application's unless opted out on the way
    mode = leaf['mode']
    for i in range(len(levels) - 2, -1, -1):
        if levels[i]['child']['inherit_slashes']:
            mode = levels[i]['mode']
    # renderer: the inner routes' own unless re-binding was requested (then the outermost requesting level's
    # application that has a factory, looking from the outside in)
    fac = leaf['factory']
    for i in range(len(levels) - 2, -1, -1):
        if levels[i]['child']['rebind_render']:
            cands = [lv['factory'] for lv in levels[i:] if lv['factory']]
            fac = cands[0] if cands else fac
    routes = []
    for p, e in leaf['routes']:
        render = factory(fac)('T-' + e) if e == 'tmpl' else None
        routes.append(Route(prefix + p, eps[e], render))
    kw = {'resources': res, 'middlewares': mws, 'slash_mode': mode}
    h = levels[0]['handler']
    if h:
        kw['error_handler'] = handler(h)
    return Application(routes, **kw)


def requests_for(tree):
    levels = tree['levels']
    prefix = ''
    for lv in levels[:-1]:
        prefix += lv['child']['prefix'].rstrip('/')
    paths = []
    for p in ['/', '/a', '/a/', '/b', '/b/', '/n/v', '/n/v/', '/i/7', '/i/7/', '/i/x/', '/boom', '/nf', '/tmpl', '/zzz', '//a', '/b//']:
        paths.append(prefix + p)
    paths += ['/outside', '/', prefix or '/x']
    out = []
    for p in paths:
        out.append((p, 'GET'))
    out.append((prefix + '/a', 'POST'))
    return out


def send(app, path, method):
    from werkzeug.test import EnvironBuilder
    env = EnvironBuilder(path='/', method=method).get_environ()
    env['PATH_INFO'] = path
    got = {}

    def sr(status, headers, exc_info=None):
        got['status'] = status.split()[0]
        got['location'] = dict(headers).get('Location')
    try:
        got['body'] = b''.join(app(env, sr)).decode('utf8', 'replace')[:400]
    except Exception as e:
        got['escaped'] = '%s: %s' % (type(e).__name__, e)
    if got.get('status') == '500' or 'escaped' in got:
        got['body'] = got.get('body', '')[:40]       # tracebacks name different frames
    return got


def check_tree(tree):
    try:
        nested = build_nested(tree)
    except Exception as e:
        return ['nested construction failed: %s: %s' % (type(e).__name__, e)] if tree.get('must_build') else []
    flat = build_flat(tree)
    problems = []
    for path, method in requests_for(tree):
        a, b = send(nested, path, method), send(flat, path, method)
        if a != b:
            problems.append('%s %s: nested %r, flat %r' % (method, path, a, b))
    return problems


def run(case):
    problems = []
    n = 0
    if 'tree' in case:
        trees = [case['tree']]
    else:
        rng = random.Random(case.get('seed', 0))
        trees = [rand_tree(rng) for _ in range(case.get('trees', 40))]
    first = None
    for t in trees:
        n += 1
        p = check_tree(t)
        if p and first is None:
            first = t
        problems += p[:3]
    return {'fails': bool(problems), 'why': '; '.join(problems[:3]), 'count': len(problems), 'trees': n,
            'first_failing_tree': first}


if __name__ == '__main__':
    case = json.load(sys.stdin)
    try:
        out = run(case)
    except Exception:
        import traceback
        out = {'fails': False, 'harness_error': traceback.format_exc()[-2000:]}
    print(json.dumps(out))
