"""Native checks for C09 (T obligations by evaluation + replay): every exported error class has
the standard status code; each format's Content-Type agrees with the body; JSON parses with the
four keys; HTML/XML are well formed and dynamic fields are escaped."""
import http, json, sys, warnings
import xml.dom.minidom
warnings.simplefilter('ignore')

NASTY = ['<script>alert(1)</script>', '"quoted" & <b>', "it's </p><p>", '{code} {message} {{', 'plain', 'é é &amp;']


def run(case):
    import clastic.errors as ce
    problems = []
    std = dict((s.value, s.phrase) for s in http.HTTPStatus)
    n = 0
    for name in ce.__all__:
        cls = getattr(ce, name)
        if cls.code not in std:
            problems.append('%s: code %s is not a registered HTTP status' % (name, cls.code))
        if ce.ERROR_CODE_MAP.get(cls.code) is not cls:
            problems.append('%s: ERROR_CODE_MAP[%s] is %r' % (name, cls.code, ce.ERROR_CODE_MAP.get(cls.code)))
        for detail in case.get('details', NASTY):
            for mt, fmt in list(ce.MIME_SUPPORT_MAP.items()) + [('image/png', 'text'), (None, 'text')]:
                n += 1
                try:
                    e = cls(detail, error_type=detail)
                    e.adapt(mt)
                except Exception as ex:
                    problems.append('%s(%r).adapt(%s) raised %r' % (name, detail, mt, ex))
                    continue
                if e.status_code != cls.code:
                    problems.append('%s: status %s' % (name, e.status_code))
                want_mt = mt if mt in ce.MIME_SUPPORT_MAP else 'text/plain'
                if not e.headers['Content-Type'].startswith(want_mt):
                    problems.append('%s/%s: Content-Type %s' % (name, mt, e.headers['Content-Type']))
                body = e.get_data(as_text=True)
                if fmt == 'json':
                    try:
                        d = json.loads(body)
                        if not {'code', 'message', 'detail', 'error_type'} <= set(d):
                            problems.append('%s: JSON keys %s' % (name, sorted(d)))
                    except ValueError as ex:
                        problems.append('%s: JSON body does not parse: %s' % (name, ex))
                elif fmt in ('html', 'xml'):
                    if '<script>' in body or '<b>' in body:
                        problems.append('%s/%s: unescaped markup from detail %r' % (name, fmt, detail))
                    if fmt == 'xml':
                        try:
                            xml.dom.minidom.parseString(body.encode('utf8'))
                        except Exception as ex:
                            problems.append('%s: XML not well formed: %s' % (name, ex))
    return {'fails': bool(problems), 'why': '; '.join(problems[:5]), 'cases': n, 'classes': len(ce.__all__)}


if __name__ == '__main__':
    case = json.load(sys.stdin)
    try:
        out = run(case)
    except Exception:
        import traceback
        out = {'fails': False, 'harness_error': traceback.format_exc()[-1500:]}
    print(json.dumps(out))
