"""Native checks for C09 (T obligations by evaluation + replay): every exported error class has
the standard status code; each format's Content-Type agrees with the body; JSON parses with the
four keys; HTML/XML are well formed and dynamic fields are escaped."""
import http, json, sys, warnings
import xml.dom.minidom
warnings.simplefilter('ignore')

NASTY = ['<script>alert(1)</script>', '"quoted" & <b>', "it's </p><p>", '{code} {message} {{', 'plain', 'é é &amp;']


def run(case):
    import clastic.errors as ce
    problems = []
    std = dict((s.value, s.phrase) for s in http.HTTPStatus)
    n = 0
    for name in ce.__all__:
        cls = getattr(ce, name)
        if cls.code not in std:
            problems.append('%s: code %s is not a registered HTTP status' % (name, cls.code))
        if ce.ERROR_CODE_MAP.get(cls.code) is not cls:
            problems.append('%s: ERROR_CODE_MAP[%s] is %r' % (name, cls.code, ce.ERROR_CODE_MAP.get(cls.code)))
        for detail in case.get('details', NASTY):
            for mt, fmt in list(ce.MIME_SUPPORT_MAP.items()) + [('image/png', 'text'), (None, 'text')]:
                n += 1
                try:
                    e = cls(detail, error_type=detail)
                    e.adapt(mt)
                except Exception as ex:
                    problems.append('%s(%r).adapt(%s) raised %r' % (name, detail, mt, ex))
                    continue
                if e.status_code != cls.code:
                    problems.append('%s: status %s' % (name, e.status_code))
                want_mt = mt if mt in ce.MIME_SUPPORT_MAP else 'text/plain'
                if not e.headers['Content-Type'].startswith(want_mt):
                    problems.append('%s/%s: Content-Type %s' % (name, mt, e.headers['Content-Type']))
                body = e.get_data(as_text=True)
                if fmt == 'json':
                    try:
                        d = json.loads(body)
                        if not {'code', 'message', 'detail', 'error_type'} <= set(d):
                            problems.append('%s: JSON keys %s' % (name, sorted(d)))
                    except ValueError as ex:
                        problems.append('%s: JSON body does not parse: %s' % (name, ex))
                elif fmt in ('html', 'xml'):
                    if '<script>' in body or '<b>' in body:
                        problems.append('%s/%s: unescaped markup from detail %r' % (name, fmt, detail))
                    if fmt == 'xml':
                        try:
                            xml.dom.minidom.parseString(body.encode('utf8'))
                        except Exception as ex:
                            problems.append('%s: XML not well formed: %s' % (name, ex))
    problems += end_to_end()
    return {'fails': bool(problems), 'why': '; '.join(problems[:5]), 'cases': n, 'classes': len(ce.__all__)}


def end_to_end():
    """through real applications (default and debug error handlers): negotiated format for Accept lists with q-values
    and wildcards (also on the fallback renderer), details with braces, and request-controlled text in the
    debug page never reaching the page as markup"""
    from html.parser import HTMLParser
    from clastic import Application, Route, Response
    from clastic.errors import BadRequest
    from werkzeug.test import Client
    problems = []
    nasty = '</textarea><script>alert("x")</script> {name} {message} %s'

    def bad():
        raise BadRequest(nasty)

    def boom():
        raise LookupError(nasty)

    class Scripts(HTMLParser):
        def __init__(self):
            HTMLParser.__init__(self)
            self.bad = []

        def handle_starttag(self, tag, attrs):
            if tag == 'script' and any('alert' in (v or '') for _, v in attrs):
                self.bad.append(tag)

        def handle_data(self, data):
            if self.lasttag == 'script' and 'alert("x")' in data:
                self.bad.append('script:' + data[:20])
    for debug in (False, True):
        for rebind in (True, False):
            app = Application([Route('/bad', bad), Route('/boom', boom)], debug=debug)
            if not rebind:
                app = Application([], debug=debug)
                app.add(Route('/bad', bad), rebind_render_error=False)
                app.add(Route('/boom', boom), rebind_render_error=False)
            cl = Client(app, Response)
            for path, code in (('/bad', 400), ('/boom', 500)):
                for accept, want in (('text/html', 'text/html'), ('application/json', 'application/json'),
                                     ('image/webp, application/json;q=0.9', 'application/json'),
                                     ('application/xhtml+xml, application/xml;q=0.9', 'application/xml'),
                                     ('image/png', 'text/plain'), (None, None)):
                    try:
                        r = cl.get(path, headers={'Accept': accept} if accept else {})
                    except Exception as e:
                        problems.append('%s debug=%s Accept=%s: %s escaped' % (path, debug, accept, type(e).__name__))
                        continue
                    if r.status_code != code:
                        problems.append('%s debug=%s Accept=%s: status %s' % (path, debug, accept, r.status_code))
                    ct = (r.headers.get('Content-Type') or '').split(';')[0]
                    if want and not (debug and code == 500) and ct != want:
                        problems.append('%s debug=%s rebind=%s Accept=%s: answered %s, expected %s' % (path, debug, rebind, accept, ct, want))
                    if ct == 'text/html':
                        p = Scripts()
                        p.feed(r.get_data(as_text=True))
                        if p.bad:
                            problems.append('%s debug=%s Accept=%s: error text reached the page as markup (%s)' % (path, debug, accept, p.bad[:1]))
    return problems


if __name__ == '__main__':
    case = json.load(sys.stdin)
    try:
        out = run(case)
    except Exception:
        import traceback
        out = {'fails': False, 'harness_error': traceback.format_exc()[-1500:]}
    print(json.dumps(out))
