"""Native replay for C05: a pattern, a slash mode and a path; the real matcher is compared
with a declarative matcher written from the statement (segments assigned, in order, to the
pattern's elements; each a valid literal of the binding's type; conversions checked)."""
import json, re, sys, warnings
warnings.simplefilter('ignore')

BIND = re.compile(r'^<([A-Za-z_]\w*)(\W*)(\w*)>$')
CONV = {'': str, 'str': str, 'unicode': str, 'int': int, 'float': float}


def valid(ty, seg):
    try:
        CONV[ty](seg)
        return True
    except (ValueError, TypeError):
        return False


def declarative(pattern, mode, path):
    """None (no match) or dict of converted bindings."""
    elems = []
    body = pattern[1:]
    trailing = body.endswith('/') or body == ''
    for part in [p for p in body.split('/') if p != '']:
        m = BIND.match(part)
        if m:
            name, op, ty = m.group(1), m.group(2), m.group(3)
            elems.append(('bind', name, '' if op == ':' else op, ty))
        else:
            elems.append(('lit', part))
    if mode == 'strict':
        if not path.startswith('/'):
            return None
        rest = path[1:]
        if trailing and elems:
            if not rest.endswith('/'):
                return None
            rest = rest[:-1]
        elif trailing and not elems:
            return {} if path == '/' else None
        segs = rest.split('/') if rest != '' or elems else []
        if rest == '' and elems:
            segs = []
        if any(s == '' for s in segs):
            return None
    else:
        if not path.startswith('/') and path != '':
            return None
        segs = [s for s in path.split('/') if s != '']

    def assign(ei, si, acc):
        if ei == len(elems):
            return dict(acc) if si == len(segs) else None
        e = elems[ei]
        if e[0] == 'lit':
            if si < len(segs) and segs[si] == e[1]:
                return assign(ei + 1, si + 1, acc)
            return None
        _, name, op, ty = e
        lo, hi = {'': (1, 1), '?': (0, 1), '*': (0, None), '+': (1, None)}[op]
        # greedy first (what a backtracking regex prefers), then fewer
        mx = len(segs) - si if hi is None else min(hi, len(segs) - si)
        for k in range(mx, lo - 1, -1):
            take = segs[si:si + k]
            if not all(valid(ty, s) for s in take):
                continue
            if op in ('', '?'):
                val = CONV[ty](take[0]) if take else None
            else:
                val = [CONV[ty](s) for s in take]
            r = assign(ei + 1, si + k, acc + [(name, val)])
            if r is not None:
                return r
        return None
    return assign(0, 0, [])


def real(pattern, mode, path):
    from clastic import Application, Route, Response
    app = Application([Route(pattern, lambda: Response('x'))], slash_mode=mode)
    return app.routes[0].match_path(path)


def run(case):
    if 'batch' in case:
        n = 0
        for c in case['batch']:
            out = run(c)
            n += len(c['paths'])
            if out['fails']:
                return {'fails': True, 'why': out['why'], 'failing_case': c, 'cases': n}
        return {'fails': False, 'why': '', 'cases': n}
    problems = []
    for path in case['paths']:
        want = declarative(case['pattern'], case['mode'], path)
        try:
            got = real(case['pattern'], case['mode'], path)
        except Exception as e:
            problems.append('%r: matcher raised %r' % (path, e))
            continue
        if (want is None) != (got is None):
            problems.append('%s [%s] on %r: real %s, statement %s' % (case['pattern'], case['mode'], path,
                                                                      'matches' if got is not None else 'does not match',
                                                                      'matches' if want is not None else 'does not match'))
        elif want is not None and want != got:
            problems.append('%s [%s] on %r: bindings %r, statement %r' % (case['pattern'], case['mode'], path, got, want))
    return {'fails': bool(problems), 'why': '; '.join(problems[:4])}


if __name__ == '__main__':
    case = json.load(sys.stdin)
    try:
        out = run(case)
    except Exception:
        import traceback
        out = {'fails': False, 'harness_error': traceback.format_exc()[-1500:]}
    print(json.dumps(out))
