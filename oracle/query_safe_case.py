"""C07 (T, by evaluation on the real code): every character that may legally occur in a query
string (RFC 3986: pchar / "/" / "?", with pct-encoded triplets) survives the quoting dispatch()
applies when it copies the query string into a slash redirect; raw non-ASCII bytes and blanks are
escaped.  Also sends real requests through a redirecting application."""
import json, sys, warnings
warnings.simplefilter('ignore')


def run(case):
    import clastic.application as A
    from werkzeug.urls import url_quote
    safe = getattr(A, '_QUERY_SAFE', None)
    problems = []
    legal = ("abcdefghijklmnopqrstuvwxyzABCDEFGHIJKLMNOPQRSTUVWXYZ0123456789-._~" "!$&'()*+,;=" ":@/?")
    samples = [c for c in legal] + ['%41', '%2F', '%c3%a9', 'q=a%26b&n=%41', 'a=1&b=2;c=3', 'x=%25', 'k=v+w']
    if safe is None:
        problems.append('_QUERY_SAFE is gone')
    else:
        for s_ in samples:
            if url_quote(s_, safe=safe) != s_:
                problems.append('%r is rewritten to %r' % (s_, url_quote(s_, safe=safe)))
    # end to end
    from clastic import Application, Response
    app = Application([('/b/', lambda: Response('x'))])
    from werkzeug.test import EnvironBuilder
    for q in ['q=a%26b&n=%41', 'a=1&b=2', 'x=%25&y=~.-_', "k=!$'()*+,;=:@/?"]:
        env = EnvironBuilder(path='/b', method='GET').get_environ()
        env['QUERY_STRING'] = q
        got = {}
        app(env, lambda st, h, e=None: got.update(status=st, headers=dict(h)))
        loc = got.get('headers', {}).get('Location', '')
        if not got.get('status', '').startswith('30') or not loc.endswith('?' + q):
            problems.append('redirect for query %r has Location %r' % (q, loc))
    return {'fails': bool(problems), 'why': '; '.join(problems[:5]), 'count': len(problems)}


if __name__ == '__main__':
    case = json.load(sys.stdin)
    try:
        out = run(case)
    except Exception:
        import traceback
        out = {'fails': False, 'harness_error': traceback.format_exc()[-1500:]}
    print(json.dumps(out))
