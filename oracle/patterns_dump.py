"""Dumps, for every pattern shape up to N elements x trailing slash x slash mode, the regex the
real _compile_path_pattern produces.  Input {"n": 2}.  Output JSON list."""
import itertools, json, sys, warnings
warnings.simplefilter('ignore')


def shapes(n):
    elems = [('lit', None, None)]
    for op in ('', '?', '*', '+'):
        for ty in ('', 'str', 'int', 'float'):
            elems.append(('bind', op, ty))
    for k in range(0, n + 1):
        for combo in itertools.product(elems, repeat=k):
            for trailing in (False, True):
                if k == 0 and not trailing:
                    continue
                yield combo, trailing


def text(combo, trailing):
    parts = []
    for i, (kind, op, ty) in enumerate(combo):
        if kind == 'lit':
            parts.append('lit%d' % i)
        else:
            o = op
            if ty and not op:
                o = ':'
            parts.append('<b%d%s%s>' % (i, o, ty))
    return '/' + '/'.join(parts) + ('/' if trailing and parts else '')


def main():
    from clastic.route import _compile_path_pattern, _INT_PATTERN, _FLOAT_PATTERN, _STR_PATTERN
    req = json.load(sys.stdin)
    out = []
    for combo, trailing in shapes(req.get('n', 2)):
        pat = text(combo, trailing)
        for mode in ('strict', 'redirect', 'rewrite'):
            try:
                rx, conv = _compile_path_pattern(pat, mode)
                out.append({'pattern': pat, 'mode': mode, 'regex': rx.pattern, 'elems': combo, 'trailing': trailing,
                            'converters': sorted(conv)})
            except Exception as e:
                out.append({'pattern': pat, 'mode': mode, 'error': repr(e), 'elems': combo, 'trailing': trailing})
    print(json.dumps({'items': out, 'lex': {'int': _INT_PATTERN, 'float': _FLOAT_PATTERN, 'str': _STR_PATTERN}}))


if __name__ == '__main__':
    main()
