"""Bounded stand-in (never counted as proved): exhaustive enumeration, to a
stated bound, of (1) the signature reflection used by get_fb over the callable
kinds of C01's quantifier, (2) the text produced by the real build_chain_str,
parsed with ast and compared node by node with the abstract tree the contracts
assume, (3) the text produced by _create_request_inner."""
import ast, itertools, json, sys, warnings
warnings.simplefilter('ignore')


def mk_sig(req, dflt, kwreq, kwdflt, posonly):
    parts = []
    for p in posonly:
        parts.append(p)
    if posonly:
        parts.append('/')
    parts += list(req) + ['%s=None' % d for d in dflt]
    if kwreq or kwdflt:
        parts.append('*')
        parts += list(kwreq) + ['%s=None' % d for d in kwdflt]
    return ', '.join(parts)


def signatures(alpha, maxn):
    """All signatures over the alphabet with up to maxn parameters, each in one of
    five roles (positional-only, required, defaulted, kw-only required, kw-only defaulted)."""
    out = []
    for n in range(0, maxn + 1):
        for names in itertools.permutations(alpha, n):
            if list(names) != sorted(names):
                continue
            for roles in itertools.product('PRDKL', repeat=n):
                g = dict((r, [x for x, y in zip(names, roles) if y == r]) for r in 'PRDKL')
                out.append((g['P'], g['R'], g['D'], g['K'], g['L']))
    return out


def kinds(sigtext, has_self_variants=True):
    from clastic.decorators import clastic_decorator
    ns = {}
    src = []
    src.append('def plain(%s): pass' % sigtext)
    src.append('lam = lambda %s: None' % sigtext)
    selfsig = 'self' + (', ' + sigtext if sigtext else '')
    if sigtext.startswith('/') or ', /' in sigtext or sigtext.endswith('/'):
        # self must stay positional-only as well
        pass
    src.append('class C(object):\n    def meth(%s): pass\n    def __call__(%s): pass\n'
               '    @staticmethod\n    def st(%s): pass\n    @classmethod\n    def cm(%s): pass\n'
               % (selfsig, selfsig, sigtext, 'cls' + (', ' + sigtext if sigtext else '')))
    exec('\n'.join(src), ns)
    c = ns['C']()

    @clastic_decorator
    def deco(f):
        def wrapper(*a, **kw):
            return f(*a, **kw)
        return wrapper
    out = {'function': ns['plain'], 'lambda': ns['lam'], 'bound method': c.meth, 'callable object': c,
           'staticmethod': ns['C'].st, 'classmethod': ns['C'].cm, 'clastic_decorator': deco(ns['plain'])}
    return out


def check_fb(bound):
    from clastic.sinter import get_fb
    alpha = ['a', 'b', 'c', 'next'][:bound['alpha']]
    n = 0
    bad = []
    for (P, R, D, K, L) in signatures(alpha, bound['maxparams']):
        st = mk_sig(R, D, K, L, P)
        try:
            ks = kinds(st)
        except SyntaxError:
            continue
        for kind, fobj in ks.items():
            n += 1
            fb = get_fb(fobj)
            exp_args = list(P) + list(R) + list(D)
            exp_kw = list(K) + list(L)
            got = (list(fb.args), list(fb.kwonlyargs), sorted(fb.get_defaults_dict().keys()),
                   list(fb.get_arg_names()), list(fb.get_arg_names(only_required=True)))
            want = (exp_args, exp_kw, sorted(D + L), exp_args + exp_kw,
                    [x for x in exp_args + exp_kw if x not in D + L])
            if got != want:
                bad.append({'kind': kind, 'sig': st, 'got': got, 'want': want})
    return n, bad


def parse_chain(text, inner_name):
    """Abstract tree of the generated chain text: list of levels
    (params, level index used, sorted keyword names, all keywords are name=name)."""
    tree = ast.parse(text)
    levels = []
    body = tree.body
    while True:
        if len(body) != 1 or not isinstance(body[0], ast.FunctionDef):
            return None
        fd = body[0]
        if fd.name != inner_name or fd.decorator_list or fd.args.vararg or fd.args.kwarg or fd.args.kwonlyargs \
                or fd.args.defaults or fd.args.posonlyargs:
            return None
        params = [a.arg for a in fd.args.args]
        stmts = list(fd.body)
        inner = None
        if isinstance(stmts[0], ast.FunctionDef):
            inner = stmts.pop(0)
        if len(stmts) != 2:
            return None
        asg, ret = stmts
        if not (isinstance(asg, ast.Assign) and len(asg.targets) == 1 and isinstance(asg.targets[0], ast.Name)
                and asg.targets[0].id == '__traceback_hide__'):
            return None
        if not (isinstance(ret, ast.Return) and isinstance(ret.value, ast.Call)):
            return None
        call = ret.value
        fn = call.func
        if not (isinstance(fn, ast.Subscript) and isinstance(fn.value, ast.Name) and fn.value.id == 'funcs'
                and isinstance(fn.slice, ast.Constant)):
            return None
        if call.args:
            return None
        kws = []
        for kwd in call.keywords:
            if kwd.arg is None or not (isinstance(kwd.value, ast.Name) and kwd.value.id == kwd.arg):
                return None
            kws.append(kwd.arg)
        levels.append((params, fn.slice.value, sorted(kws)))
        if inner is None:
            break
        body = [inner]
    return levels


def check_chain(bound):
    from clastic.sinter import build_chain_str, get_fb
    alpha = ['a', 'b', 'c'][:bound['alpha']]
    sigs = []
    for (P, R, D, K, L) in signatures(alpha, bound['maxparams_chain']):
        st = mk_sig(R, D, K, L, P)
        try:
            ns = {}
            exec('def f(%s): pass' % st, ns)
        except SyntaxError:
            continue
        sigs.append((ns['f'], list(P) + list(R) + list(D), list(K) + list(L)))
    # provides tuples in every order (a def line that re-orders them cross-wires positional next(...) calls)
    subsets = [list(p) for r in range(len(alpha) + 1) for c in itertools.combinations(alpha, r)
               for p in itertools.permutations(c)]
    subsets.sort(key=lambda x: (len(x), x != sorted(x), x))
    n = 0
    modes = {'args': True, 'argnames': True}
    bad = []
    # sampling grid: every stack of `depth` functions would be |sigs|^depth; take the full product for depth <= 2
    # and, for deeper stacks, every stack whose functions come from a reduced signature catalogue
    small = [s for s in sigs if len(s[1]) + len(s[2]) <= 1] + sigs[-3:]
    for depth in range(1, bound['depth'] + 1):
        cat = sigs if depth <= bound['full_depth'] else small
        psets = subsets if depth <= bound['full_depth'] else [subsets[0], subsets[1], subsets[-1], subsets[-2]]
        total = (len(cat) ** depth) * (len(psets) ** depth)
        stride = max(1, total // bound['budget_per_depth'])
        combos = itertools.product(itertools.product(cat, repeat=depth), itertools.product(psets, repeat=depth))
        for fstack, params in itertools.islice(combos, bound.get('seed', 0) % stride, None, stride):
            if True:
                n += 1
                funcs = [f[0] for f in fstack]
                text = build_chain_str(funcs, [list(p) for p in params], 'next')
                lv = parse_chain(text, 'next')
                if lv is None or len(lv) != depth:
                    bad.append({'text': text, 'why': 'shape'})
                    continue
                scope = set(['next'])
                ok = {'args': True, 'argnames': True}
                for k in range(depth):
                    scope |= set(params[k])
                    prm, idx, kws = lv[k]
                    if prm != list(params[k]) or idx != k:
                        ok = {'args': False, 'argnames': False}
                        bad.append({'text': text, 'why': 'level %d header' % k})
                        break
                    a_args = sorted(x for x in fstack[k][1] if x in scope)
                    a_names = sorted(x for x in fstack[k][1] + fstack[k][2] if x in scope)
                    if kws != a_args:
                        ok['args'] = False
                    if kws != a_names:
                        ok['argnames'] = False
                for mk in modes:
                    modes[mk] = modes[mk] and ok[mk]
                if not ok['args'] and not ok['argnames'] and len(bad) < 5:
                    bad.append({'text': text, 'why': 'keyword set matches neither fb.args nor get_arg_names()'})
    return n, modes, bad


def check_inner(bound):
    from clastic.middleware.core import _create_request_inner
    import clastic.middleware.core as core
    alpha = ['a', 'b', 'context'][:3]
    subsets = [list(c) for r in range(len(alpha) + 1) for c in itertools.combinations(alpha, r)]
    n = 0
    bad = []
    captured = {}
    real_compile = core.compile_code

    def spy(code_str, name, env=None, verbose=False):
        captured['text'] = code_str
        captured['env'] = sorted(env.keys())
        return real_compile(code_str, name, env=env)
    core.compile_code = spy
    try:
        for ep in subsets:
            for rn in subsets:
                allargs = sorted((set(ep) | set(rn)) - {'context'})
                n += 1
                _create_request_inner(lambda **k: None, lambda **k: None, allargs, ep, rn)
                tree = ast.parse(captured['text'])
                want = ('def process_request(%s):\n    __traceback_hide__ = True\n    context = endpoint(%s)\n'
                        '    if isinstance(context, BaseResponse):\n        resp = context\n    else:\n'
                        '        resp = render(%s)\n    return resp\n'
                        % (','.join(allargs), ', '.join('%s=%s' % (a, a) for a in ep),
                           ', '.join('%s=%s' % (a, a) for a in rn)))
                if ast.dump(tree) != ast.dump(ast.parse(want)) or captured['env'] != ['BaseResponse', 'endpoint', 'render']:
                    bad.append({'text': captured['text'], 'want': want})
    finally:
        core.compile_code = real_compile
    return n, bad


if __name__ == '__main__':
    bound = json.load(sys.stdin)
    out = {}
    try:
        n1, bad1 = check_fb(bound)
        n2, modes, bad2 = check_chain(bound)
        n3, bad3 = check_inner(bound)
        out = {'fb_cases': n1, 'fb_bad': bad1[:5], 'chain_cases': n2, 'chain_modes': modes, 'chain_bad': bad2[:5],
               'inner_cases': n3, 'inner_bad': bad3[:5]}
    except Exception:
        import traceback
        out = {'error': traceback.format_exc()[-2000:]}
    print(json.dumps(out, default=str))
