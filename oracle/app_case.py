"""Native scenario harness for the request path (C06, C07, C08): builds a real
Application from a routing table description, sends one raw WSGI request and
checks the response against oracles written from the property statements.

case = {"routes": [{"pattern": "/a/", "methods": ["GET"]|null, "behavior": "ok|raise|raise_http|return_http|
                    nonbreaking_raise|nonbreaking_return|nonresponse|reroute", "slash_mode": null|"redirect"|...}],
        "slash_mode": "redirect", "handler": "default|debug|reraise|broken_render",
        "request": {"path": "/a", "method": "GET", "query_latin1": "x=1"},
        "check": ["c08", "c07", "c06"]}
"""
import json
import sys
import warnings
warnings.simplefilter('ignore')


def build(case):
    from clastic import Application, Route, Response
    from clastic.errors import (ErrorHandler, ContextualErrorHandler, BadRequest, NotFound, Forbidden,
                                InternalServerError)
    from clastic.application import RerouteWSGI

    def mk(i, beh, message=None):
        def ok():
            return Response('route%d' % i)

        def raise_():
            raise ValueError(message if message is not None else 'boom <b>%d</b>' % i)

        def raise_http():
            raise BadRequest('bad %d' % i)

        def raise_http_odd():
            # an error carrying a value the JSON encoder cannot serialise natively
            raise BadRequest('odd %d' % i, error_type=ValueError)

        def ok_base():
            from werkzeug.wrappers import BaseResponse
            return BaseResponse('base%d' % i)

        def return_http():
            return InternalServerError('ise %d' % i)

        def nb_raise():
            raise NotFound('nb %d' % i, is_breaking=False)

        def nb_return():
            return Forbidden('nbf %d' % i, is_breaking=False)

        def nonresponse():
            return {'not': 'a response'}

        def reroute():
            def wsgi(environ, start_response):
                start_response('200 OK', [('Content-Type', 'text/plain')])
                return [b'rerouted%d' % i]
            raise RerouteWSGI(wsgi)
        return {'ok': ok, 'ok_base': ok_base, 'raise_http_odd': raise_http_odd, 'raise': raise_, 'raise_http': raise_http, 'return_http': return_http,
                'nonbreaking_raise': nb_raise, 'nonbreaking_return': nb_return, 'nonresponse': nonresponse,
                'reroute': reroute}[beh]

    routes = []
    for i, r in enumerate(case['routes']):
        kw = {}
        if r.get('methods'):
            kw['methods'] = r['methods']
        if r.get('slash_mode'):
            kw['slash_mode'] = r['slash_mode']
        routes.append(Route(r['pattern'], mk(i, r.get('behavior', 'ok'), r.get('message')), **kw))
    h = case.get('handler', 'default')
    if h == 'debug':
        eh = ContextualErrorHandler()
    elif h == 'reraise':
        eh = ErrorHandler(reraise_uncaught=True)
    elif h == 'broken_render':
        class Broken(ErrorHandler):
            def render_error(self, request, _error):
                raise RuntimeError('render_error is broken')
        eh = Broken()
    else:
        eh = ErrorHandler()
    app = Application(routes, error_handler=eh, slash_mode=case.get('slash_mode', 'redirect'))
    return app


def send(app, req):
    from werkzeug.test import EnvironBuilder
    env = EnvironBuilder(path='/', method=req.get('method', 'GET')).get_environ()
    env['PATH_INFO'] = req['path'].encode('utf8').decode('latin-1')
    env['QUERY_STRING'] = req.get('query_latin1', '')
    env['REQUEST_METHOD'] = req.get('method', 'GET')
    if req.get('accept') is not None:
        env['HTTP_ACCEPT'] = req['accept']
    if req.get('script_name'):
        env['SCRIPT_NAME'] = req['script_name']        # the application mounted under a prefix
    got = {}

    def start_response(status, headers, exc_info=None):
        got['status'] = status
        got['headers'] = headers
    try:
        body = b''.join(app(env, start_response))
        got['body'] = body.decode('latin-1')[:300]
    except Exception as e:
        got['escaped'] = '%s: %s' % (type(e).__name__, e)
        got['escaped_type'] = type(e).__name__
    return got


def run(case):
    app = build(case)
    checks = case.get('check', ['c08'])
    probes = [{'path': '/__no_such_path__'}, {'path': case['request']['path'], 'method': 'PATCH'}, dict(case['request'])]
    # what an untouched application answers, taken BEFORE the request under test (state leaking
    # through module- or class-level objects would otherwise taint the reference as well)
    reference = [send(build(case), p) for p in probes] if 'c08' in checks else []
    got = send(app, case['request'])
    problems = []
    if 'c08' in checks:
        if 'escaped' in got:
            beh = [r.get('behavior') for r in case['routes']]
            ok = case.get('handler') == 'reraise' and (('raise' in beh and got['escaped_type'] == 'ValueError') or
                                                       ('nonresponse' in beh and got['escaped_type'] == 'TypeError'))
            if not ok:
                problems.append('exception escaped to the WSGI server: %s' % got['escaped'])
        elif 'status' not in got:
            problems.append('start_response never called')
        else:
            # a single route, reached: the response has the status its behaviour asks for
            rs = case['routes']
            if len(rs) == 1 and case['request']['path'] == rs[0]['pattern'] and not rs[0].get('methods') \
                    and case.get('handler', 'default') in ('default', 'debug'):
                want = {'ok': '200', 'ok_base': '200', 'raise_http': '400', 'raise_http_odd': '400', 'return_http': '500',
                        'raise': '500', 'nonresponse': '500'}.get(rs[0].get('behavior', 'ok'))
                if want and not got['status'].startswith(want):
                    problems.append('behaviour %s answered %s, expected %s' % (rs[0].get('behavior', 'ok'), got['status'], want))
        # a (failed) request leaves the application able to serve the next one unchanged
        for probe, fresh in zip(probes, reference):
            after = send(app, probe)
            if fresh.get('status') != after.get('status') or ('escaped' in fresh) != ('escaped' in after):
                problems.append('after this request the application answers %r with %s (a fresh application: %s)'
                                % (probe, after.get('status', after.get('escaped')), fresh.get('status', fresh.get('escaped'))))
                break
    if 'c07' in checks and 'escaped' not in got and got.get('status', '').startswith('30'):
        from werkzeug.urls import url_parse, url_unquote
        loc = dict(got['headers']).get('Location', '')
        u = url_parse(loc)
        # the canonical path per the statement (computed here, not with the code under test): empty segments
        # dropped, nothing else touched, one trailing slash
        path = '/' + case['request']['path'].lstrip('/')
        segs = [s_ for s_ in path.split('/') if s_ != '']
        want = '/' + '/'.join(segs) + ('/' if segs else '')
        mount = case['request'].get('script_name') or ''
        if not loc.startswith('http://localhost' + mount + '/'):
            problems.append('Location %r does not stay under the application root %r' % (loc, 'http://localhost' + mount + '/'))
        if mount and u.path.startswith(mount):
            u = u.replace(path=u.path[len(mount):])
        if url_unquote(u.path) != want:
            problems.append('Location path %r does not decode to the canonical path %r' % (u.path, want))
        q = case['request'].get('query_latin1', '')
        if q.isascii() and u.query != q:
            problems.append('query string changed: %r -> %r' % (q, u.query))
        # one hop: the canonical path is not redirected again
        got2 = send(app, {'path': url_unquote(u.path), 'method': case['request'].get('method', 'GET'),
                          'query_latin1': u.query, 'script_name': mount})
        if got2.get('status', '').startswith('30'):
            problems.append('following the redirect yields another redirect')
    if 'c06' in checks:
        problems += c06_oracle(case, app, got)
    return {'fails': bool(problems), 'why': '; '.join(problems), 'observed': got}


def c06_oracle(case, app, got):
    """Expected outcome per the statement of C06, computed independently of dispatch():
    first route in order whose pattern matches and whose methods admit the request method,
    unless it yields a non-breaking error; then last non-breaking error / 405 + Allow / 404."""
    from clastic.route import normalize_path
    req = case['request']
    path, method = req['path'], req.get('method', 'GET')
    path = '/' + path.lstrip('/')      # werkzeug's request.path drops repeated leading slashes
    allowed = set()
    last_nb = None
    expect = None
    for i, r in enumerate(case['routes']):
        br = app.routes[i]
        if br.match_path(path) is None:
            continue
        ms = set(m.upper() for m in (r.get('methods') or []))
        if 'GET' in ms:
            ms.add('HEAD')
        if ms and method.upper() not in ms:
            allowed |= ms
            continue
        # routes added to an application inherit its slash mode (inherit_slashes defaults to True)
        mode = case.get('slash_mode', 'redirect')
        if r['pattern'].endswith('/') and normalize_path(path, True) != path:
            if mode == 'redirect':
                expect = ('redirect', i)
                break
            if mode == 'strict':
                last_nb = 404
                continue
        beh = r.get('behavior', 'ok')
        if beh == 'ok':
            expect = ('status', 200, 'route%d' % i)
        elif beh == 'ok_base':
            expect = ('status', 200, 'base%d' % i)
        elif beh == 'raise_http_odd':
            expect = ('status', 400, None)
        elif beh == 'raise':
            expect = ('escaped',) if case.get('handler') == 'reraise' else ('status', 500, None)
        elif beh == 'raise_http':
            expect = ('status', 400, None)
        elif beh == 'return_http':
            expect = ('status', 500, None)
        elif beh == 'nonresponse':
            expect = ('escaped',) if case.get('handler') == 'reraise' else ('status', 500, None)
        elif beh == 'reroute':
            expect = ('status', 200, 'rerouted%d' % i)
        elif beh == 'nonbreaking_raise':
            last_nb = 404
            continue
        elif beh == 'nonbreaking_return':
            last_nb = 403
            continue
        break
    if expect is None:
        if last_nb is not None:
            expect = ('status', last_nb, None)
        elif allowed:
            expect = ('status', 405, None, allowed)
        else:
            expect = ('status', 404, None)
    out = []
    if expect[0] == 'escaped':
        if 'escaped' not in got:
            out.append('expected the original exception to escape (re-raising handler), got %s' % got.get('status'))
        return out
    if 'escaped' in got:
        return ['c06: exception escaped: %s' % got['escaped']]
    code = int(got['status'].split()[0])
    if expect[0] == 'redirect':
        if code not in (301, 302, 303, 307, 308):
            out.append('expected a slash redirect from route %d, got %s' % (expect[1], got['status']))
        return out
    if code != expect[1]:
        out.append('expected status %s, got %s' % (expect[1], got['status']))
    elif expect[2] is not None and method.upper() != 'HEAD' and expect[2] not in got.get('body', ''):
        out.append('expected body marker %r, got %r' % (expect[2], got.get('body', '')[:60]))
    if len(expect) > 3 and code == 405:
        hdr = dict(got['headers']).get('Allow')
        names = set(x.strip() for x in hdr.split(',')) if hdr else None
        if names != expect[3]:
            out.append('405 Allow header %r does not name exactly %s' % (hdr, sorted(expect[3])))
    return out


if __name__ == '__main__':
    case = json.load(sys.stdin)
    try:
        out = run(case)
    except Exception:
        import traceback
        out = {'fails': False, 'harness_error': traceback.format_exc()[-1500:]}
    print(json.dumps(out, default=str))
