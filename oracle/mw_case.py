"""Native replay for C15 / C19: the same scenario application with and without
a built-in middleware; status and decoded body must be equal; for the stats
middleware every request that reached a route is counted once under its status.
case = {"mw": "stats|gzip|cache|profile|cookie|ctx|getparam|postdata|scriptroot",
        "requests": [{"path": "/ok", "method": "GET", "accept_encoding": "gzip"}...]}"""
import gzip, io, json, sys, warnings
warnings.simplefilter('ignore')



def accepts_gzip(header):
    """RFC 7231 5.3.4: gzip is acceptable iff its quality (or, when it is not listed, that of '*') is > 0"""
    if not header:
        return False
    from werkzeug.http import parse_accept_header
    acc = parse_accept_header(header)
    listed = dict((k.lower(), q) for k, q in acc)
    if 'gzip' in listed:
        return listed['gzip'] > 0
    return listed.get('*', 0) > 0


def make_mw(name):
    from clastic.middleware import (GzipMiddleware, HTTPCacheMiddleware, SimpleProfileMiddleware,
                                    SimpleContextProcessor, GetParamMiddleware)
    from clastic.middleware.stats import StatsMiddleware
    from clastic.middleware.cookie import SignedCookieMiddleware
    from clastic.middleware.form import PostDataMiddleware
    from clastic.middleware.url import ScriptRootMiddleware
    return {'stats': StatsMiddleware, 'gzip': GzipMiddleware, 'cache': HTTPCacheMiddleware,
            'profile': SimpleProfileMiddleware, 'cookie': lambda: SignedCookieMiddleware(secret_key='k'),
            'ctx': lambda: SimpleContextProcessor(), 'getparam': lambda: GetParamMiddleware(['gp']),
            'postdata': lambda: PostDataMiddleware(['pd']), 'scriptroot': ScriptRootMiddleware}[name]()


def build(mw):
    from clastic import Application, Route, Response, GET, redirect
    from clastic.errors import BadRequest, NotFound, Forbidden, InternalServerError
    from clastic.render import render_basic

    def ok():
        return Response('hello ' * 200)

    def small():
        return Response('x')

    def binary():
        return Response(bytes(range(256)) * 4, mimetype='application/octet-stream')

    def ctx():
        return {'a': 1}

    def redir():
        return redirect('/ok')

    def raise_http():
        raise BadRequest('bad')

    def return_http():
        return Forbidden('nope')

    def nb():
        raise NotFound(is_breaking=False)

    def boom():
        raise ValueError('boom')

    def return_big_http():
        return BadRequest('large detail ' * 500)

    def no_content_type():
        r = Response('no content type')
        del r.headers['Content-Type']
        return r

    def big_no_content_type():
        r = Response('compressible ' * 400)
        del r.headers['Content-Type']
        return r

    def raise_no_content_type():
        e = BadRequest('no content type')
        del e.headers['Content-Type']
        raise e

    routes = [('/return_big_http', return_big_http), ('/noct', no_content_type), ('/bignoct', big_no_content_type),
              ('/raise_noct', raise_no_content_type), ('/ok', ok), ('/small', small), ('/bin', binary), ('/ctx', ctx, render_basic), ('/redir', redir),
              ('/raise_http', raise_http), ('/return_http', return_http), ('/nb', nb), ('/boom', boom),
              GET('/getonly', ok)]
    return Application(routes, middlewares=[mw] if mw is not None else [])


def send(app, req):
    from werkzeug.test import Client
    from clastic import Response
    cl = Client(app, Response)
    headers = {}
    if req.get('accept_encoding') is not None:
        headers['Accept-Encoding'] = req['accept_encoding']
    if req.get('user_agent') is not None:
        headers['User-Agent'] = req['user_agent']
    if req.get('cookie') is not None:
        cl = Client(app, Response, use_cookies=False)
        headers['Cookie'] = req['cookie']
    resp = cl.open(req['path'], method=req.get('method', 'GET'), headers=headers, query_string=req.get('query'))
    body = resp.get_data()
    enc = resp.headers.get('Content-Encoding')
    if enc == 'gzip':
        sent = len(body)
        body = gzip.GzipFile(fileobj=io.BytesIO(body)).read()
        extra = {'gzip': True, 'content_length_ok': resp.headers.get('Content-Length') == str(sent),
                 'vary': resp.headers.get('Vary')}
    else:
        extra = {'gzip': False}
    return resp.status_code, body, extra


def run(case):
    mw = make_mw(case['mw'])
    app_mw = build(mw)
    app_plain = build(None)
    problems = []
    expected_counts = {}
    for req in case['requests']:
        try:
            s1, b1, x1 = send(app_mw, req)
        except Exception as e:
            problems.append('%s %s: exception with the middleware: %r' % (req.get('method', 'GET'), req['path'], e))
            continue
        s0, b0, x0 = send(app_plain, req)
        if s1 != s0:
            problems.append('%s %s: status %s with %s, %s without' % (req.get('method', 'GET'), req['path'], s1, case['mw'], s0))
        elif b1 != b0 and s0 != 500:
            problems.append('%s %s: body differs (%d vs %d bytes)' % (req.get('method', 'GET'), req['path'], len(b1), len(b0)))
        if x1.get('gzip') and req.get('method', 'GET') != 'HEAD' and (not x1['content_length_ok'] or 'Accept-Encoding' not in (x1.get('vary') or '')):
            problems.append('%s: gzip response with wrong Content-Length or Vary' % req['path'])
        if x1.get('gzip') and not accepts_gzip(req.get('accept_encoding')):
            problems.append('%s: gzip although the client did not accept it' % req['path'])
    if case['mw'] == 'stats' and not problems:
        # every request is counted once, under its status (per pattern)
        from clastic.middleware.stats import get_stats_dict
        want = {}
        for req in case['requests']:
            s0, _, _ = send(app_plain, req)
            known = any(req['path'] == r.pattern for r in app_plain.routes)
            admitted = not (req['path'] == '/getonly' and req.get('method', 'GET') not in ('GET', 'HEAD'))
            pats = [req['path']] if (known and admitted) else ['/<_ignored*>']
            if req['path'] == '/nb':
                pats.append('/<_ignored*>')      # the non-breaking error falls through to the catch-all route
            for pat in pats:
                key = "'ValueError'" if (s0 == 500 and req['path'] == '/boom') else repr(s0)
                want.setdefault(pat, {}).setdefault(key, 0)
                want[pat][key] += 1
        got = {}
        for rt, by_status in mw.route_hits.items():
            for st, resv in by_status.items():
                got.setdefault(rt.pattern, {})[st] = resv.total_count
        if got != want:
            problems.append('stats counts %r, expected %r' % (got, want))
        # what the stats endpoint REPORTS is the number of requests, also once the bounded sample store is
        # smaller than that number (sample stores shrunk to 2 entries, then more traffic)
        from clastic.middleware.stats import get_stats_dict
        for by_status in mw.route_hits.values():
            for resv in by_status.values():
                resv.resize(2)
        extra = 5
        for _ in range(extra):
            send(app_mw, {'path': '/ok'})
        rep = get_stats_dict(app_mw)['route_stats']
        for pat, by_status in want.items():
            for key, n in by_status.items():
                exp = n + (extra if (pat == '/ok' and key == '200') else 0)
                shown = rep.get(pat, {}).get(key, {}).get('count')
                if shown != exp:
                    problems.append('stats report shows count %r for %s %s, %d requests were served' % (shown, pat, key, exp))
        for by_status in mw.route_hits.values():
            for resv in by_status.values():
                if len(list(resv)) > 2:
                    problems.append('sample store holds %d entries after resize(2)' % len(list(resv)))
        # the reset endpoint: returns the totals so far, counting restarts from zero -- and the request that
        # triggers the reset reached a route too, so it is counted (in the new period)
        from clastic import Application, Response
        from clastic.middleware.stats import StatsMiddleware, create_stats_app
        from werkzeug.test import Client
        mw2 = StatsMiddleware()
        app2 = Application([('/ok', lambda: Response('ok')), ('/stats', create_stats_app())], middlewares=[mw2])
        cl2 = Client(app2, Response)
        for _ in range(3):
            cl2.get('/ok')
        r = cl2.post('/stats/reset', headers={'Accept': 'application/json'})
        import json as _json
        try:
            before = _json.loads(r.get_data(as_text=True))['route_stats']
        except Exception as e:
            before = None
            problems.append('reset endpoint answered %s (%r)' % (r.status_code, e))
        if before is not None and before.get('/ok', {}).get('200', {}).get('count') != 3:
            problems.append('reset returned %r for /ok, 3 requests were served' % (before.get('/ok'),))
        cl2.get('/ok')
        rep = get_stats_dict(app2)['route_stats']
        got2 = dict((pat, dict((st, d.get('count')) for st, d in by.items())) for pat, by in rep.items())
        want2 = {'/ok': {'200': 1}, '/stats/reset': {'200': 1}}
        if got2 != want2:
            problems.append('after a reset and one more request the report shows %r, expected %r' % (got2, want2))
    return {'fails': bool(problems), 'why': '; '.join(problems[:4])}


if __name__ == '__main__':
    case = json.load(sys.stdin)
    try:
        out = run(case)
    except Exception:
        import traceback
        out = {'fails': False, 'harness_error': traceback.format_exc()[-1500:]}
    print(json.dumps(out))
