"""Runs under /venv/bin/python (the interpreter the repo's tests use).
Reflects facts out of the real, imported code: module namespaces, simple
constants, class MROs and attribute tables.  Output: JSON on stdout."""
import sys, json, importlib, inspect, builtins, pkgutil, warnings
warnings.simplefilter('ignore')


def enc(v, depth=0):
    if depth > 6:
        return None
    if v is None or isinstance(v, (bool, int, str)):
        return {'t': type(v).__name__, 'v': v}
    if isinstance(v, float):
        return {'t': 'float', 'v': repr(v)}
    if isinstance(v, bytes):
        return {'t': 'bytes', 'v': v.decode('latin-1')}
    if isinstance(v, (tuple, list, set, frozenset)):
        items = [enc(i, depth + 1) for i in (sorted(v, key=repr) if isinstance(v, (set, frozenset)) else v)]
        if any(i is None for i in items):
            return None
        return {'t': type(v).__name__, 'v': items}
    if isinstance(v, dict):
        items = []
        for k, x in v.items():
            ek, ex = enc(k, depth + 1), enc(x, depth + 1)
            if ek is None:
                return None
            items.append([ek, ex if ex is not None else {'t': 'opaque', 'v': clsname(type(x)) if not isinstance(x, type) else 'type:' + clsname(x)}])
        return {'t': 'dict', 'v': items}
    return None


def clsname(c):
    return '%s.%s' % (c.__module__, c.__qualname__)


def main():
    import clastic
    mods = {}
    names = ['clastic']
    for m in pkgutil.walk_packages(clastic.__path__, 'clastic.'):
        if '.tests' in m.name:
            continue
        names.append(m.name)
    classes = {}

    def add_class(c):
        key = clsname(c)
        if key in classes:
            return
        classes[key] = {'mro': [clsname(b) for b in c.__mro__],
                        'attrs': sorted(a for a in dir(c)),
                        'name': c.__name__}
        for b in c.__mro__[1:]:
            add_class(b)

    errors = {}
    for n in names:
        try:
            mod = importlib.import_module(n)
        except Exception as e:
            errors[n] = repr(e)
            continue
        consts = {}
        kinds = {}
        for k, v in vars(mod).items():
            if k.startswith('__'):
                continue
            e = enc(v)
            if e is not None:
                consts[k] = e
            if isinstance(v, type):
                kinds[k] = 'class:' + clsname(v)
                add_class(v)
            elif inspect.ismodule(v):
                kinds[k] = 'module:' + v.__name__
            elif callable(v):
                kinds[k] = 'callable:%s.%s' % (getattr(v, '__module__', '?'), getattr(v, '__qualname__', getattr(v, '__name__', '?')))
        mods[n] = {'names': sorted(vars(mod).keys()), 'consts': consts, 'kinds': kinds}
    import werkzeug.wrappers as ww
    for c in (ww.BaseResponse, ww.Response, ww.Request, ww.BaseRequest):
        add_class(c)
    for k, v in vars(builtins).items():
        if isinstance(v, type):
            add_class(v)
    # instance attributes of responses (set in __init__) are not in dir(class)
    inst_attrs = {}
    try:
        inst_attrs['werkzeug.wrappers.base_response.BaseResponse'] = sorted(set(dir(ww.BaseResponse('x'))))
        inst_attrs['werkzeug.wrappers.response.Response'] = sorted(set(dir(ww.Response('x'))))
        from clastic.errors import HTTPException, NotFound
        inst_attrs['clastic.errors.HTTPException'] = sorted(set(dir(HTTPException())))
    except Exception as e:
        errors['inst_attrs'] = repr(e)
    json.dump({'modules': mods, 'classes': classes, 'builtins': sorted(dir(builtins)),
               'inst_attrs': inst_attrs, 'errors': errors, 'python': sys.version}, sys.stdout)


if __name__ == '__main__':
    main()
