"""Native replay for C01/C02/C04: builds a real Application from an abstract
configuration (signatures + provides + resources + URL bindings), compares
accept/reject with the declarative oracle written from the property
statement, and on acceptance sends a request and checks that no function is
called with a missing or unexpected argument and that each argument carries the
value of its source.  JSON case on stdin, JSON verdict on stdout."""
import json
import sys
import warnings
warnings.simplefilter('ignore')

BUILTINS = {'request', '_application', '_route', '_dispatch_state'}
RESERVED = BUILTINS | {'next', 'context'}


def sig_text(sig):
    pos = list(sig.get('pos', []))
    posonly = [p for p in pos if p in sig.get('posonly', [])]
    rest = [p for p in pos if p not in posonly]
    defaults = set(sig.get('defaults', []))
    parts = []
    seen_default = False

    def one(p):
        return '%s=DEFAULT(%r)' % (p, p) if p in defaults else p
    # parameters with defaults must trail: reorder inside each group
    posonly = [p for p in posonly if p not in defaults] + [p for p in posonly if p in defaults]
    rest_nd = [p for p in rest if p not in defaults]
    rest_d = [p for p in rest if p in defaults]
    if any(p in defaults for p in posonly):
        rest_nd, rest_d = [], rest_nd + rest_d   # python requires defaults after a defaulted posonly
        defaults = defaults | set(rest_d)
    for p in posonly:
        parts.append(one(p))
    if posonly:
        parts.append('/')
    for p in rest_nd + rest_d:
        parts.append(one(p))
    kw = sig.get('kwonly', [])
    if kw:
        parts.append('*')
        kwd = set(sig.get('kwdefaults', []))
        for p in kw:
            parts.append('%s=DEFAULT(%r)' % (p, p) if p in kwd else p)
    return ', '.join(parts)


def all_names(sig):
    return list(sig.get('pos', [])) + list(sig.get('kwonly', []))


def required(sig):
    d = set(sig.get('defaults', [])) | set(sig.get('kwdefaults', []))
    return [n for n in all_names(sig) if n not in d]


class Default(object):
    def __init__(self, name):
        self.name = name

    def __repr__(self):
        return 'Default(%s)' % self.name


def make_func(name, sig, body, env):
    src = 'def %s(%s):\n    __received = dict(locals())\n%s' % (name, sig_text(sig), body)
    ns = dict(env)
    ns['DEFAULT'] = Default
    exec(src, ns)
    return ns[name]


def oracle(case):
    """Declarative acceptance per the property statements (C01 + C04): the
    route itself and, for application-level middlewares, the built-in catch-all
    route (no URL binding but its own '_ignored')."""
    reasons = oracle_route(case)
    if case.get('level', 'app') == 'app':
        null = dict(case)
        null['url'] = ['_ignored']
        null['endpoint'] = {'pos': ['request', '_application', '_route', '_dispatch_state']}
        null['render'] = {'pos': ['context']}
        reasons += ['null-route:' + r for r in oracle_route(null)]
    return reasons


def oracle_route(case):
    url = set(case.get('url', []))
    res = set(case.get('resources', []))
    mws = case.get('mws', [])
    reasons = []
    # C04: conflicts between sources
    sources = [('url', url), ('builtins', RESERVED), ('resources', res)]
    for i, mw in enumerate(mws):
        for k in ('provides', 'endpoint_provides', 'render_provides'):
            sources.append(('mw%d.%s' % (i, k), list(mw.get(k, []))))
    count = {}
    for sname, names in sources:
        for n in names:
            count.setdefault(n, []).append(sname)
    for n, ss in count.items():
        if len(ss) > 1:
            reasons.append('conflict:%s:%s' % (n, ss))
    for i, mw in enumerate(mws):
        for ph in ('request', 'endpoint', 'render'):
            s = mw.get(ph)
            if s is not None:
                names = all_names(s)
                if not names or names[0] != 'next':
                    reasons.append('first-param-not-next:mw%d.%s' % (i, ph))
    ep, rn = case['endpoint'], case.get('render')
    if 'next' in all_names(ep):
        reasons.append('next-in-endpoint')
    if rn is not None and 'next' in all_names(rn):
        reasons.append('next-in-render')
    pre = url | res | BUILTINS
    # request phase
    avail = set(pre) | {'next'}
    for i, mw in enumerate(mws):
        s = mw.get('request')
        if s is None:
            continue
        miss = set(required(s)) - avail
        if miss:
            reasons.append('unresolved:request:mw%d:%s' % (i, sorted(miss)))
        avail |= set(mw.get('provides', []))
    req_all = set()
    for mw in mws:
        if mw.get('request') is not None:
            req_all |= set(mw.get('provides', []))
    # endpoint phase
    avail = set(pre) | req_all | {'next'}
    for i, mw in enumerate(mws):
        s = mw.get('endpoint')
        if s is None:
            continue
        miss = set(required(s)) - avail
        if miss:
            reasons.append('unresolved:endpoint:mw%d:%s' % (i, sorted(miss)))
        avail |= set(mw.get('endpoint_provides', []))
    miss = set(required(ep)) - (avail - {'next'}) if 'next' not in all_names(ep) else set()
    if miss:
        reasons.append('unresolved:endpoint:%s' % sorted(miss))
    # render phase
    avail = set(pre) | req_all | {'next', 'context'}
    for i, mw in enumerate(mws):
        s = mw.get('render')
        if s is None:
            continue
        miss = set(required(s)) - avail
        if miss:
            reasons.append('unresolved:render:mw%d:%s' % (i, sorted(miss)))
        avail |= set(mw.get('render_provides', []))
    if rn is not None:
        miss = set(required(rn)) - (avail - {'next'})
        if miss:
            reasons.append('unresolved:render:%s' % sorted(miss))
    return reasons


def build(case):
    from clastic import Application, Route, Response
    from clastic.middleware import Middleware
    from clastic.errors import ErrorHandler
    calls = []
    sent = {}

    def sentinel(src, name):
        key = (src, name)
        if key not in sent:
            sent[key] = ('SENTINEL', src, name)
        return sent[key]

    env = {'calls': calls, 'sentinel': sentinel, 'Response': Response}
    mw_objs = []
    for i, mw in enumerate(case.get('mws', [])):
        attrs = {'provides': tuple(mw.get('provides', [])),
                 'endpoint_provides': tuple(mw.get('endpoint_provides', [])),
                 'render_provides': tuple(mw.get('render_provides', []))}
        for ph, pk in (('request', 'provides'), ('endpoint', 'endpoint_provides'), ('render', 'render_provides')):
            s = mw.get(ph)
            if s is None:
                continue
            s2 = dict(s)
            s2['pos'] = ['self'] + list(s.get('pos', []))
            if s.get('posonly'):
                s2['posonly'] = ['self'] + list(s['posonly'])
            body = ('    calls.append((%r, __received))\n'
                    '    return next(**dict((p, sentinel(%r, p)) for p in %r))\n'
                    % ('mw%d.%s' % (i, ph), 'mw%d.%s' % (i, ph), list(mw.get(pk, []))))
            attrs[ph] = make_func(ph, s2, body, env)
        cls = type('MW%d' % i, (Middleware,), attrs)
        mw_objs.append(cls())
    rn = case.get('render')
    if rn is None:
        ep_body = '    calls.append(("endpoint", __received))\n    return Response("ok")\n'
    else:
        ep_body = '    calls.append(("endpoint", __received))\n    return {"ctx": 1}\n'
    endpoint = make_func('endpoint', case['endpoint'], ep_body, env)
    render = None
    if rn is not None:
        render = make_func('render', rn, '    calls.append(("render", __received))\n    return Response("rendered")\n', env)
    resources = dict((r, sentinel('resource', r)) for r in case.get('resources', []))
    pattern = '/x' + ''.join('/<%s>' % u for u in case.get('url', []))
    path = '/x' + ''.join('/v%d' % i for i, u in enumerate(case.get('url', [])))
    if case.get('level', 'app') == 'app':
        route = Route(pattern, endpoint, render)
        app = Application([route], resources=resources, middlewares=mw_objs,
                          error_handler=ErrorHandler(reraise_uncaught=True))
    else:
        route = Route(pattern, endpoint, render, middlewares=mw_objs)
        app = Application([route], resources=resources,
                          error_handler=ErrorHandler(reraise_uncaught=True))
    return app, path, calls, sent


def run(case):
    exp = oracle(case)
    out = {'oracle_reject_reasons': exp}
    try:
        app, path, calls, sent = build(case)
        accepted = True
    except NameError as e:
        accepted = False
        out['construction'] = 'NameError: %s' % e
    except (TypeError, IndexError) as e:
        accepted = False
        out['construction'] = '%s: %s' % (type(e).__name__, e)
    except RuntimeError as e:
        out['construction'] = 'RuntimeError: %s' % e
        out['fails'] = False
        out['note'] = 'cycle check: either outcome accepted'
        return out
    except SyntaxError as e:
        out['construction'] = 'SyntaxError in synthesised signature: %s' % e
        out['fails'] = False
        out['note'] = 'case not realisable as Python source'
        return out
    out['accepted'] = accepted
    if accepted and exp:
        out['fails'] = True
        out['why'] = 'construction succeeded although the oracle rejects: %s' % exp
        return out
    if not accepted and not exp:
        out['fails'] = True
        out['why'] = 'construction failed although every required parameter is satisfiable'
        return out
    if not accepted:
        out['fails'] = False
        return out
    # request
    from werkzeug.test import Client
    from clastic import Response
    cl = Client(app, Response)
    try:
        # a first request with other URL values: nothing of it may show up in the second
        path0 = '/x' + ''.join('/w%d' % i for i, u in enumerate(case.get('url', [])))
        if path0 != path:
            cl.get(path0)
            del calls[:]
        resp = cl.get(path)
        out['status'] = resp.status_code
    except TypeError as e:
        out['fails'] = True
        out['why'] = 'request failed with TypeError: %s' % e
        return out
    except Exception as e:
        out['fails'] = True
        out['why'] = 'request raised %s: %s' % (type(e).__name__, e)
        return out
    # C02: each received value is the value of its source
    problems = []
    requests_seen = []
    url = case.get('url', [])
    provided_by = {}
    for i, mw in enumerate(case.get('mws', [])):
        for ph, pk in (('request', 'provides'), ('endpoint', 'endpoint_provides'), ('render', 'render_provides')):
            if mw.get(ph) is not None:
                for p in mw.get(pk, []):
                    provided_by[p] = 'mw%d.%s' % (i, ph)
    for who, recv in calls:
        for name, val in recv.items():
            if name in ('self', 'next', 'context', '__received'):
                continue
            if name in url:
                want = 'v%d' % url.index(name)
                if val != want:
                    problems.append('%s.%s = %r, expected URL value %r' % (who, name, val, want))
            elif name in case.get('resources', []):
                if val != ('SENTINEL', 'resource', name):
                    problems.append('%s.%s = %r, expected the resource' % (who, name, val))
            elif name in provided_by:
                src = provided_by[name]
                visible = True
                if isinstance(val, Default):
                    # own default although a middleware provides the name: only fine if the
                    # provider is not before it / not in scope (statement: default only when no source offers it)
                    problems.append('%s.%s fell back to its default although %s provides it' % (who, name, src))
                elif val != ('SENTINEL', src, name):
                    problems.append('%s.%s = %r, expected value from %s' % (who, name, val, src))
            elif name in BUILTINS:
                if isinstance(val, Default):
                    problems.append('%s.%s fell back to its default although it is a built-in' % (who, name))
                elif name == 'request':
                    if getattr(val, 'path', None) != path:
                        problems.append('%s.request is not this request (%r)' % (who, getattr(val, 'path', val)))
                    requests_seen.append(val)
                elif name == '_application' and val is not app:
                    problems.append('%s._application = %r, expected the dispatching application' % (who, val))
                elif name == '_route' and val is not app.routes[0]:
                    problems.append('%s._route = %r, expected the matched route' % (who, val))
                elif name == '_dispatch_state' and type(val).__name__ != 'DispatchState':
                    problems.append('%s._dispatch_state = %r' % (who, val))
            elif not isinstance(val, Default):
                problems.append('%s.%s = %r from no declared source' % (who, name, val))
    if any(r is not requests_seen[0] for r in requests_seen):
        problems.append('different request objects within one request')
    if resp.status_code != 200:
        problems.append('status %s' % resp.status_code)
    out['calls'] = [w for w, _ in calls]
    out['fails'] = bool(problems)
    if problems:
        out['why'] = '; '.join(problems[:5])
    return out


if __name__ == '__main__':
    case = json.load(sys.stdin)
    try:
        out = run(case)
    except Exception as e:
        import traceback
        out = {'fails': False, 'harness_error': traceback.format_exc()[-1500:]}
    print(json.dumps(out, default=str))
