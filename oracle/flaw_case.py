"""Native replay for C20: the failsafe application built from any error text answers every
path with a 200 page containing the text and the monitored file names HTML-escaped."""
import html, json, sys, warnings
warnings.simplefilter('ignore')

TEXTS = ['', 'not a traceback', '<script>alert(1)</script>', '{tb_str} {#parsed_err}{/parsed_err} {~lb}', None,
         b'bytes \xff text', 'Traceback (most recent call last):\n  File "x.py", line 2, in <module>\n    plarp\nNameError: name \'plarp\' is not defined\n',
         '  File "x.py", line 1\n    def f(:\n          ^\nSyntaxError: invalid syntax\n', 'line1\nline2 <b>&amp;\x00\x01',
         'ValueError: bad name \udc80 (lone surrogate, e.g. from an undecodable file name)']
FILES = [None, [], ['/a/b.py', '/x/<i>y</i>.py'], ['f%d.py' % i for i in range(50)]]


def run(case):
    from clastic.flaw import create_app
    from werkzeug.test import Client
    from werkzeug.wrappers import Response
    problems = []
    n = 0
    for text in case.get('texts', TEXTS):
        for files in case.get('files', FILES):
            n += 1
            try:
                app = create_app(text, list(files) if files is not None else None)
            except Exception as e:
                problems.append('create_app(%r) raised %r' % (text, e))
                continue
            cl = Client(app, Response)
            for path, method in (('/', 'GET'), ('/any/thing', 'GET'), ('/x', 'POST'), ('/clastic_assets/../flaw.py', 'GET'),
                                 ('/clastic_assets//etc/passwd', 'GET'), ('/clastic_assets/no_such_asset', 'GET')):
                try:
                    r = cl.open(path, method=method)
                except Exception as e:
                    problems.append('%r %s: exception %r' % (text, path, e))
                    continue
                if r.status_code != 200:
                    problems.append('%r %s: status %s' % (text, path, r.status_code))
                    continue
                body = r.get_data(as_text=True)
                if isinstance(text, str) and text:
                    text = text.encode('utf-8', 'backslashreplace').decode('utf-8')     # unencodable characters are shown escaped
                    if html.escape(text, quote=True).replace('&#x27;', '&#39;') not in body.replace('&#x27;', '&#39;') \
                            and html.escape(text, quote=False) not in body:
                        problems.append('%r %s: page does not contain the escaped error text' % (text[:30], path))
                    if '<script>' in text and '<script>alert' in body:
                        problems.append('markup from the error text reached the page unescaped')
                for f in (files or [])[:3]:
                    if html.escape(f, quote=False) not in body and html.escape(f) not in body:
                        problems.append('monitored file %r missing from the page' % f)
                if isinstance(text, str) and text.startswith('Traceback') and ('NameError' not in body or 'plarp' not in body):
                    problems.append('exception type/message of a standard traceback missing')
    return {'fails': bool(problems), 'why': '; '.join(problems[:5]), 'cases': n}


if __name__ == '__main__':
    case = json.load(sys.stdin)
    try:
        out = run(case)
    except Exception:
        import traceback
        out = {'fails': False, 'harness_error': traceback.format_exc()[-1500:]}
    print(json.dumps(out))
