"""Native replay for C14: a temporary directory tree served by a StaticApplication.
case = {"requests": ["/static/a.txt", ...], "fault": null | {"call": "read|getmtime|getsize|open|tell|seek",
        "errno": "EIO"}}.  Checks: only files inside the root are disclosed (exact bytes, matching
Content-Length), escapes are refused, faults give 403/404 (never 500) and leave no file open."""
import builtins, errno, io, json, os, shutil, sys, tempfile, warnings
warnings.simplefilter('ignore')


def run(case):
    from clastic import Application
    from clastic.static import StaticApplication
    import clastic.static as st
    from werkzeug.test import Client
    from werkzeug.wrappers import Response
    top = tempfile.mkdtemp(prefix='c14-')
    problems = []
    try:
        root = os.path.join(top, 'root')
        os.makedirs(os.path.join(root, 'sub'))
        files = {'a.txt': b'hello', 'sub/b.bin': bytes(range(256)), 'noext': b'plain text', 'empty': b''}
        for rel, data in files.items():
            with open(os.path.join(root, rel), 'wb') as f:
                f.write(data)
        with open(os.path.join(top, 'secret.txt'), 'wb') as f:
            f.write(b'TOP SECRET')
        # a sibling directory whose name merely starts like the root's (a string-prefix test would let it through)
        os.makedirs(os.path.join(top, 'root-private'))
        with open(os.path.join(top, 'root-private', 'key.pem'), 'wb') as f:
            f.write(b'TOP SECRET key material')
        app = Application([('/static/', StaticApplication(root))])
        cl = Client(app, Response)
        opened = []
        fault = case.get('fault')
        real_open = builtins.open
        real_getmtime, real_getsize = os.path.getmtime, os.path.getsize

        class Faulty(io.FileIO):
            def _boom(self):
                raise OSError(getattr(errno, fault.get('errno', 'EIO')), 'injected')

            def read(self, *a):
                if fault and fault['call'] == 'read' and a and a[0] == 1024:   # the sniffing read only
                    self._boom()
                return io.FileIO.read(self, *a)

            def tell(self):
                if fault and fault['call'] == 'tell':
                    self._boom()
                return io.FileIO.tell(self)

            def seek(self, *a):
                if fault and fault['call'] == 'seek':
                    self._boom()
                return io.FileIO.seek(self, *a)

        def my_open(path, mode='r', *a, **kw):
            if str(path).startswith(top) and 'b' in mode:
                if fault and fault['call'] == 'open':
                    raise OSError(errno.EACCES, 'injected')
                f = Faulty(path, 'r')
                opened.append(f)
                return f
            return real_open(path, mode, *a, **kw)

        def my_getmtime(p):
            if fault and fault['call'] == 'getmtime' and str(p).startswith(top):
                raise OSError(getattr(errno, fault.get('errno', 'EIO')), 'injected')
            return real_getmtime(p)

        def my_getsize(p):
            if fault and fault['call'] == 'getsize' and str(p).startswith(top):
                raise OSError(getattr(errno, fault.get('errno', 'EIO')), 'injected')
            return real_getsize(p)

        builtins.open = my_open
        os.path.getmtime, os.path.getsize = my_getmtime, my_getsize
        try:
            for path in list(case['requests']) + ['/static/../root-private/key.pem', '/static/' + os.path.join(top, 'root-private', 'key.pem'),
                                                   '/static/../secret.txt']:
                try:
                    resp = cl.get(path)
                    body = resp.get_data()
                    code = resp.status_code
                    resp.close()
                except Exception as e:
                    problems.append('%s: exception %r' % (path, e))
                    continue
                rel = path[len('/static/'):] if path.startswith('/static/') else None
                if code == 500:
                    problems.append('%s: 500 (%s)' % (path, body[:80]))
                elif code == 200:
                    if b'TOP SECRET' in body:
                        problems.append('%s: disclosed a file outside the root' % path)
                    want = files.get(os.path.normpath(rel)) if rel is not None else None
                    if want is None or body != want:
                        problems.append('%s: served bytes that are not the file at that path' % path)
                    elif resp.headers.get('Content-Length') != str(len(want)):
                        problems.append('%s: Content-Length %s for %d bytes' % (path, resp.headers.get('Content-Length'), len(want)))
                elif code in (403, 404):
                    if fault is None and rel in files:
                        problems.append('%s: existing file refused with %d' % (path, code))
                else:
                    problems.append('%s: unexpected status %d' % (path, code))
            if case.get('revalidate') and fault is None:
                # conditional requests: If-Modified-Since equal to the served Last-Modified is a 304 without body
                for k, frac in enumerate((0.0, 0.25, 0.5, 0.75)):
                    fpath = os.path.join(root, 'a.txt')
                    os.utime(fpath, (1600000000 + k + frac, 1600000000 + k + frac))
                    r1 = cl.get('/static/a.txt')
                    lm = r1.headers.get('Last-Modified')
                    r1.close()
                    if r1.status_code != 200 or not lm:
                        problems.append('revalidation: first GET %s, Last-Modified %r' % (r1.status_code, lm))
                        continue
                    r2 = cl.get('/static/a.txt', headers={'If-Modified-Since': lm})
                    b2 = r2.get_data()
                    r2.close()
                    if r2.status_code != 304 or b2:
                        problems.append('revalidation with the served Last-Modified (mtime fraction %.2f) answered %d with %d body bytes'
                                        % (frac, r2.status_code, len(b2)))
            left = [f for f in opened if not f.closed]
            if left:
                problems.append('%d file(s) left open' % len(left))
        finally:
            builtins.open = real_open
            os.path.getmtime, os.path.getsize = real_getmtime, real_getsize
    finally:
        shutil.rmtree(top, ignore_errors=True)
    return {'fails': bool(problems), 'why': '; '.join(problems[:5])}


if __name__ == '__main__':
    case = json.load(sys.stdin)
    try:
        out = run(case)
    except Exception:
        import traceback
        out = {'fails': False, 'harness_error': traceback.format_exc()[-1500:]}
    print(json.dumps(out))
