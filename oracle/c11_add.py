"""Native replay for Application.add (C11/C06): inserts an embedded application
with n_new routes at `index` into an application with n_old routes and checks
that the new routes sit contiguously, in order, where list.insert(index) would
put the first one, all other routes keeping their relative order."""
import json, sys, warnings
warnings.simplefilter('ignore')


def run(case):
    from clastic import Application, Response
    n_old, n_new, index = case['n_old'], case['n_new'], case['index']
    ep = lambda: Response('x')
    app = Application([('/o%d' % i, ep) for i in range(n_old)])
    sub = Application([('/n%d' % i, ep) for i in range(n_new)])
    before = [r.pattern for r in app.routes]
    if case.get('failing'):
        # the entry fails while binding: the table must stay as it was
        def bad(missing_arg):
            return Response('x')
        sub = Application([('/n0', ep)])
        sub.routes.append(sub.routes[0])
        try:
            app.add(('/s', Application([('/n0', ep)])), index)
            app2 = Application([('/o%d' % i, ep) for i in range(n_old)])
            try:
                app2.add(('/bad', bad), index)
                return {'fails': True, 'why': 'unsatisfiable route accepted'}
            except NameError:
                after = [r.pattern for r in app2.routes]
                ok = after == before
                return {'fails': not ok, 'before': before, 'after': after}
        except Exception as e:
            return {'fails': False, 'note': repr(e)}
    app.add(('/s', sub), index)
    after = [r.pattern for r in app.routes]
    new = ['/s/n%d' % i for i in range(n_new)]
    n = len(before)
    if index is None:
        pos = n
    elif index < 0:
        pos = max(n + index, 0)
    else:
        pos = min(index, n)
    want = before[:pos] + new + before[pos:]
    return {'fails': after != want, 'before': before, 'after': after, 'expected': want}


def rebind_isolation():
    """binding is non-destructive: embedding one application in two others leaves it, and each of them, as they were"""
    from clastic import Application, Response
    problems = []

    def fac(tag):
        def render_factory(arg):
            return lambda context: Response('%s:%s' % (tag, arg))
        return render_factory
    inner = Application([('/hello', lambda: {'x': 1}, 'tmpl')], render_factory=fac('inner'))
    before = [(r.pattern, len(r.bound_apps), r.bound_apps[-1] is inner) for r in inner.routes]
    body0 = inner.get_local_client().get('/hello').get_data()
    a = Application([('/a', inner)], render_factory=fac('A'))
    body_a0 = a.get_local_client().get('/a/hello').get_data()
    b = Application([('/b', inner)])
    c = Application([('/c', inner)], render_factory=fac('C'), resources={'r': 1})
    after = [(r.pattern, len(r.bound_apps), r.bound_apps[-1] is inner) for r in inner.routes]
    # a route with its own middleware and resources: binding it (successfully or not) must not touch the application's lists
    from clastic import Route
    from clastic.middleware import Middleware

    class RouteMW(Middleware):
        def request(self, next):
            return next()
    host = Application([('/h', lambda: Response('h'))], resources={'r': 1})
    mws0, res0 = list(host.middlewares), dict(host.resources)
    host.add(Route('/with_mw', lambda: Response('m'), middlewares=[RouteMW()], resources={'extra': 2}))
    try:
        host.add(Route('/bad', lambda nobody_provides_this: Response('x'), middlewares=[RouteMW()]))
        problems.append('unsatisfiable route accepted')
    except NameError:
        pass
    if list(host.middlewares) != mws0 or dict(host.resources) != res0:
        problems.append('binding a route changed the application: middlewares %r -> %r, resources %r -> %r'
                        % (mws0, host.middlewares, res0, host.resources))
    if [r.pattern for r in host.routes] != ['/h', '/with_mw']:
        problems.append('routes after a failed add: %r' % [r.pattern for r in host.routes])
    if before != after:
        problems.append('embedding changed the embedded application\'s routes: %r -> %r' % (before, after))
    if inner.get_local_client().get('/hello').get_data() != body0:
        problems.append('the embedded application answers differently after being embedded')
    if a.get_local_client().get('/a/hello').get_data() != body_a0:
        problems.append('application A answers differently after the same application was embedded elsewhere')
    for app_, pre in ((a, '/a'), (b, '/b'), (c, '/c')):
        for r in app_.routes:
            if len(r.bound_apps) != 2 or r.bound_apps[0] is not inner or r.bound_apps[1] is not app_:
                problems.append('%s: bound_apps of %s is %r' % (pre, r.pattern, [type(x).__name__ for x in r.bound_apps]))
    return problems


_run = run


def run(case):
    if case.get('scenario') == 'rebind_isolation':
        p = rebind_isolation()
        return {'fails': bool(p), 'why': '; '.join(p[:3])}
    return _run(case)



if __name__ == '__main__':
    case = json.load(sys.stdin)
    try:
        out = run(case)
    except Exception:
        import traceback
        out = {'fails': False, 'harness_error': traceback.format_exc()[-1500:]}
    print(json.dumps(out))
