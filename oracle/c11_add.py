"""Native replay for Application.add (C11/C06): inserts an embedded application
with n_new routes at `index` into an application with n_old routes and checks
that the new routes sit contiguously, in order, where list.insert(index) would
put the first one, all other routes keeping their relative order."""
import json, sys, warnings
warnings.simplefilter('ignore')


def run(case):
    from clastic import Application, Response
    n_old, n_new, index = case['n_old'], case['n_new'], case['index']
    ep = lambda: Response('x')
    app = Application([('/o%d' % i, ep) for i in range(n_old)])
    sub = Application([('/n%d' % i, ep) for i in range(n_new)])
    before = [r.pattern for r in app.routes]
    if case.get('failing'):
        # the entry fails while binding: the table must stay as it was
        def bad(missing_arg):
            return Response('x')
        sub = Application([('/n0', ep)])
        sub.routes.append(sub.routes[0])
        try:
            app.add(('/s', Application([('/n0', ep)])), index)
            app2 = Application([('/o%d' % i, ep) for i in range(n_old)])
            try:
                app2.add(('/bad', bad), index)
                return {'fails': True, 'why': 'unsatisfiable route accepted'}
            except NameError:
                after = [r.pattern for r in app2.routes]
                ok = after == before
                return {'fails': not ok, 'before': before, 'after': after}
        except Exception as e:
            return {'fails': False, 'note': repr(e)}
    app.add(('/s', sub), index)
    after = [r.pattern for r in app.routes]
    new = ['/s/n%d' % i for i in range(n_new)]
    n = len(before)
    if index is None:
        pos = n
    elif index < 0:
        pos = max(n + index, 0)
    else:
        pos = min(index, n)
    want = before[:pos] + new + before[pos:]
    return {'fails': after != want, 'before': before, 'after': after, 'expected': want}


if __name__ == '__main__':
    case = json.load(sys.stdin)
    try:
        out = run(case)
    except Exception:
        import traceback
        out = {'fails': False, 'harness_error': traceback.format_exc()[-1500:]}
    print(json.dumps(out))
