"""Native oracle for C13: runs real Applications under wsgiref.validate with a recording
start_response and close() tracking; checks the wrapper stack order and RerouteWSGI relaying.
JSON case on stdin: {"scenarios": [...]} (default: all).  JSON verdict on stdout."""
import io, json, os, sys, tempfile, warnings
warnings.simplefilter('ignore')
from wsgiref.validate import validator
from wsgiref.util import setup_testing_defaults


def environ_for(path, method='GET', accept=None, query='', extra=None):
    env = {}
    setup_testing_defaults(env)
    from urllib.parse import unquote_to_bytes
    env['PATH_INFO'] = unquote_to_bytes(path).decode('latin-1')      # PATH_INFO is the decoded path
    env['REQUEST_METHOD'] = method
    env['QUERY_STRING'] = query
    if method in ('POST',):
        env['CONTENT_LENGTH'] = '0'
        env['wsgi.input'] = io.BytesIO(b'')
    if accept:
        env['HTTP_ACCEPT'] = accept
    env['HTTP_ACCEPT_ENCODING'] = 'gzip'
    env.update(extra or {})
    return env


def call_wsgi(app, env, validate=True):
    """returns (problems, status, headers, body)"""
    problems = []
    calls = []
    chunks_before = []

    def start_response(status, headers, exc_info=None):
        calls.append((status, headers, exc_info))
        if chunks_before:
            problems.append('start_response called after body bytes')
        return lambda data: None
    wrapped = validator(app) if validate else app
    body = []
    try:
        it = wrapped(env, start_response)
        try:
            for chunk in it:
                if not calls:
                    problems.append('body chunk before start_response')
                if not isinstance(chunk, bytes):
                    problems.append('non-bytes chunk %r' % type(chunk))
                else:
                    body.append(chunk)
                    if chunk:
                        chunks_before.append(1)
        finally:
            if hasattr(it, 'close'):
                it.close()
    except AssertionError as e:
        problems.append('wsgiref.validate: %s' % e)
    except Exception as e:
        problems.append('application raised %s: %s' % (type(e).__name__, e))
    if len(calls) != 1:
        problems.append('start_response called %d times' % len(calls))
    status, headers = (calls[0][0], calls[0][1]) if calls else (None, [])
    if calls:
        if not (isinstance(status, str) and len(status) >= 4 and status[:3].isdigit() and status[3] == ' '):
            problems.append('bad status line %r' % (status,))
        for h in headers:
            if not (isinstance(h, tuple) and len(h) == 2 and isinstance(h[0], str) and isinstance(h[1], str)):
                problems.append('bad header %r' % (h,))
    data = b''.join(body)
    if env['REQUEST_METHOD'] == 'HEAD' and data:
        problems.append('body sent for HEAD (%d bytes)' % len(data))
    return problems, status, headers, data


def conformance():
    import clastic
    from clastic import Application, Route, Response, redirect, MetaApplication, render_basic
    from clastic.errors import NotFound, Forbidden
    from clastic.static import StaticApplication
    from clastic.middleware import GzipMiddleware
    from clastic.middleware.client_cache import HTTPCacheMiddleware
    import clastic.static as cstatic
    problems = []
    tmp = tempfile.mkdtemp(prefix='c13-')
    with open(os.path.join(tmp, 'f.txt'), 'wb') as f:
        f.write(b'hello file\n' * 50)
    opened = []
    real_open = cstatic.open if hasattr(cstatic, 'open') else open

    def spy_open(*a, **kw):
        fo = real_open(*a, **kw)
        opened.append(fo)
        return fo
    cstatic.open = spy_open

    def gen():
        yield b'a'
        yield b'b'

    def boom():
        raise ValueError('boom')

    def err():
        raise NotFound(detail='<x>')

    routes = [('/', lambda: Response('plain')),
              ('/stream', lambda: Response(gen())),
              ('/ctx', lambda: {'a': 1}, render_basic),
              ('/branch/', lambda: Response('branch')), ('/items/<name>/', lambda name: Response('item')),
              ('/boom', boom), ('/err', err),
              ('/ret_err', lambda: Forbidden(is_breaking=False)),
              Route('/post', lambda: Response('posted'), methods=['POST']),
              ('/static', StaticApplication(tmp)),
              ('/meta', MetaApplication())]
    try:
        for mws in ([], [GzipMiddleware()], [HTTPCacheMiddleware()]):
            app = Application(routes, middlewares=mws)
            for path in ('/', '/stream', '/ctx', '/branch', '/branch/', '/items/a%01b', '/items/x%1Fy/', '/boom', '/err', '/ret_err', '/post', '/nope',
                         '/static/f.txt', '/static/missing', '/meta/'):
                for method in ('GET', 'HEAD', 'POST', 'OPTIONS'):
                    for accept in (None, 'application/json', 'text/html'):
                        del opened[:]
                        env = environ_for(path, method, accept)
                        p, status, headers, data = call_wsgi(app, env)
                        for fo in opened:
                            if not fo.closed:
                                p.append('file %r left open after close()' % getattr(fo, 'name', fo))
                        for x in p:
                            problems.append('%s %s [%s] mws=%s: %s' % (method, path, accept, [type(m).__name__ for m in mws], x))
    finally:
        cstatic.open = real_open if real_open is not open else open
        if real_open is open:
            try:
                del cstatic.open
            except Exception:
                pass
    return problems


_CLS = {}


def make_mw(tag, clsname, log, unique=True):
    from clastic.middleware import Middleware

    def wsgi_wrapper(self, inner):
        def w(environ, start_response):
            log.append(tag)
            return inner(environ, start_response)
        return w
    cls = _CLS.get(clsname)
    if cls is None:
        cls = _CLS[clsname] = type(clsname, (Middleware,), {'unique': unique})
    obj = cls()
    obj.wsgi_wrapper = wsgi_wrapper.__get__(obj)
    return obj


def wrappers(include_late_subapp=False):
    from clastic import Application, Route, Response
    problems = []
    log = []

    def hit(app, path='/'):
        del log[:]
        call_wsgi(app, environ_for(path), validate=False)
        return list(log)
    ep = lambda: Response('x')
    # list order, first outermost
    app = Application([('/', ep)], middlewares=[make_mw('a', 'A', log), make_mw('b', 'B', log), make_mw('c', 'C', log)])
    if hit(app) != ['a', 'b', 'c']:
        problems.append('list order: expected a,b,c got %s' % log)
    # several routes, route-level middleware too
    app = Application([('/', ep), Route('/r', ep, middlewares=[make_mw('r', 'R', log)])],
                      middlewares=[make_mw('a', 'A', log), make_mw('b', 'B', log)])
    got = hit(app)
    if got[:2] != ['a', 'b'] or sorted(got) != ['a', 'b', 'r']:
        problems.append('app-level before route-level: got %s' % got)
    # no routes at construction / routes added later
    app = Application([], middlewares=[make_mw('a', 'A', log), make_mw('b', 'B', log)])
    if hit(app) != ['a', 'b']:
        problems.append('application without routes: expected a,b got %s' % log)
    app.add(('/', ep))
    if hit(app) != ['a', 'b']:
        problems.append('routes added later: expected a,b got %s' % log)
    # embedding: outer before inner; unique type once
    inner = Application([('/', ep)], middlewares=[make_mw('i', 'I', log), make_mw('dup-inner', 'D', log)])
    outer = Application([('/in', inner)], middlewares=[make_mw('o', 'O', log), make_mw('dup-outer', 'D', log)])
    got = hit(outer, '/in/')
    if got != ['o', 'dup-outer', 'i']:
        problems.append('embedding: expected o,dup-outer,i got %s' % got)
    # two levels
    inner2 = Application([('/', ep)], middlewares=[make_mw('i2', 'I2', log)])
    mid = Application([('/x', inner2)], middlewares=[make_mw('m', 'M', log)])
    top = Application([('/y', mid)], middlewares=[make_mw('t', 'T', log)])
    got = hit(top, '/y/x/')
    if got != ['t', 'm', 'i2']:
        problems.append('two levels: expected t,m,i2 got %s' % got)
    if include_late_subapp:
        inner = Application([('/', ep)], middlewares=[make_mw('i', 'I', log)])
        outer = Application([], middlewares=[make_mw('o', 'O', log)])
        outer.add(('/in', inner))
        got = hit(outer, '/in/')
        if got != ['o', 'i']:
            problems.append('sub-application added after construction: expected o,i got %s' % got)
    return problems


def reroute():
    from clastic import Application, Route, Response
    from clastic.application import RerouteWSGI
    problems = []
    seen = {}

    def target(environ, start_response):
        seen['env'] = environ
        seen['items'] = dict(environ)
        start_response('299 Custom Status', [('X-Target', 'yes'), ('Content-Type', 'text/x-custom')])
        return [b'target-', b'body']

    def raiser():
        raise RerouteWSGI(target)
    app = Application([('/ep', RerouteWSGI(target)), ('/raise', raiser), ('/deep/<a>/<b*>', raiser)])
    for path in ('/ep', '/raise', '/deep/1/2/3'):
        seen.clear()
        env = environ_for(path, extra={'custom.key': object(), 'HTTP_X_THING': 'v'})
        before = dict(env)
        p, status, headers, data = call_wsgi(app, env, validate=False)
        problems += ['%s: %s' % (path, x) for x in p]
        if seen.get('env') is not env:
            problems.append('%s: target did not receive the request\'s own environ object' % path)
        else:
            for k, v in before.items():
                if k not in seen['items'] or seen['items'][k] is not v and seen['items'][k] != v:
                    problems.append('%s: environ entry %r changed or missing at the target' % (path, k))
        if status != '299 Custom Status' or ('X-Target', 'yes') not in headers or data != b'target-body' \
                or len(headers) != 2:
            problems.append('%s: target response not relayed verbatim (%r, %r, %r)' % (path, status, headers, data))
    return problems


def run(case):
    which = case.get('scenarios') or ['conformance', 'wrappers', 'reroute']
    problems = []
    if 'conformance' in which:
        problems += conformance()
    if 'wrappers' in which:
        problems += wrappers()
    if 'late_subapp' in which:
        problems += [p for p in wrappers(include_late_subapp=True) if 'after construction' in p]
    if 'reroute' in which:
        problems += reroute()
    return {'fails': bool(problems), 'why': '; '.join(problems[:6]), 'count': len(problems)}


if __name__ == '__main__':
    case = json.load(sys.stdin)
    try:
        out = run(case)
    except Exception:
        import traceback
        out = {'fails': False, 'harness_error': traceback.format_exc()[-2000:]}
    print(json.dumps(out))
