"""Native replay for C17: render_basic on a list of endpoint results; each must give a
200 response whose mimetype follows the statement."""
import json, sys, warnings
warnings.simplefilter('ignore')


def value_of(tag):
    kind, _, text = tag.partition(':')
    if kind == 'int':
        return int(text)
    if kind == 'float':
        return float(text)
    if kind == 'none':
        return None
    if kind == 'bool':
        return text == 'true'
    if kind == 'str':
        return text
    if kind == 'bytes':
        return text.encode('utf8')
    if kind == 'object':
        return object()
    if kind == 'json':
        return json.loads(text)
    raise ValueError(tag)


def expected_mime(v):
    if isinstance(v, str):
        v = v.encode('utf8')
    if isinstance(v, bytes):
        if v and ((v[:1] == b'{' and v[-1:] == b'}') or (v[:1] == b'[' and v[-1:] == b']')):
            return 'application/json'
        if b'<html' in v[:168]:
            return 'text/html'
        return 'text/plain'
    if isinstance(v, (dict, list, tuple)):
        return 'application/json'
    return 'text/plain'


def run(case):
    from clastic.render import render_basic
    from werkzeug.test import EnvironBuilder
    from werkzeug.wrappers import Request
    problems = []
    for tag in case['values']:
        v = value_of(tag)
        req = Request(EnvironBuilder(path='/', headers={'Accept': case.get('accept', 'application/json')}).get_environ())
        try:
            resp = render_basic(context=v, request=req, _route=None)
        except Exception as e:
            problems.append('%s: raised %s: %s' % (tag, type(e).__name__, e))
            continue
        if resp.status_code != 200:
            problems.append('%s: status %s' % (tag, resp.status_code))
        want = expected_mime(v)
        if resp.mimetype != want:
            problems.append('%s: mimetype %s, expected %s' % (tag, resp.mimetype, want))
    return {'fails': bool(problems), 'why': '; '.join(problems[:5])}


if __name__ == '__main__':
    case = json.load(sys.stdin)
    try:
        out = run(case)
    except Exception:
        import traceback
        out = {'fails': False, 'harness_error': traceback.format_exc()[-1500:]}
    print(json.dumps(out))
