"""Refutation search (bounded, only ever used to find counterexamples for
obligations the solver left undecided): enumerates small configurations and
runs the native C01/C02/C04 harness on each.  Input: {"budget": n, "seed": s,
"focus": [...]}.  Output: first failing case or none."""
import itertools
import json
import random
import sys
import warnings
warnings.simplefilter('ignore')
from c01_case import run

ALPHA = ['a', 'b', 'c']


def sigs(first=None, extra=()):
    """Small signatures: each of up to two names from ALPHA+extra in a role."""
    names = ALPHA + list(extra)
    out = []
    base = [first] if first else []
    out.append({'pos': list(base)})
    for n in names:
        for role in 'RDKL':
            s = {'pos': list(base)}
            if role == 'R':
                s['pos'].append(n)
            elif role == 'D':
                s['pos'].append(n)
                s['defaults'] = [n]
            elif role == 'K':
                s['kwonly'] = [n]
            else:
                s['kwonly'] = [n]
                s['kwdefaults'] = [n]
            out.append(s)
    for n, m in itertools.permutations(names, 2):
        out.append({'pos': list(base) + [n, m]})
        out.append({'pos': list(base) + [n], 'kwonly': [m]})
        out.append({'pos': list(base) + [n, m], 'defaults': [m]})
    return out


def gen(rng):
    subsets = [[], ['a'], ['b'], ['c'], ['a', 'b'], ['p'], ['q'], ['p', 'q'], ['context'], ['next'], ['request']]
    ep_sigs = sigs(extra=['p', 'q', 'request', 'context', 'next'])
    rn_sigs = [None] + sigs(first='context', extra=['p', 'q']) + sigs(extra=['p', 'next'])
    mw_sigs = [None] + sigs(first='next', extra=['p', 'q', 'request', 'context']) + sigs(extra=['p']) + [{'pos': []}]
    slots = ['provides', 'endpoint_provides', 'render_provides']
    while True:
        if rng.random() < 0.25:
            # directed family: an otherwise acceptable configuration in which exactly one name is offered twice --
            # by two phases of one middleware, by two middlewares, or by a middleware and the URL / a resource
            n = rng.choice(['a', 'b', 'p', 'q'])
            mws = [{} for _ in range(rng.choice([1, 1, 2, 3]))]
            i = rng.randrange(len(mws))
            k1 = rng.choice(slots)
            mws[i][k1] = [n]
            how = rng.choice(['same-mw', 'other-mw', 'url', 'resource', 'none'])
            url, res = [], []
            if how == 'same-mw':
                mws[i][rng.choice([k for k in slots if k != k1])] = [n]
            elif how == 'other-mw' and len(mws) > 1:
                j = rng.choice([x for x in range(len(mws)) if x != i])
                mws[j][rng.choice(slots)] = [n]
            elif how == 'url':
                url = [n]
            elif how == 'resource':
                res = [n]
            yield {'mws': mws, 'endpoint': {'pos': []}, 'render': None, 'resources': res, 'url': url,
                   'level': rng.choice(['app', 'route'])}
            continue
        nm = rng.choice([0, 0, 1, 1, 2, 2, 3])
        mws = []
        for _ in range(nm):
            mw = {}
            for ph, pk in (('request', 'provides'), ('endpoint', 'endpoint_provides'), ('render', 'render_provides')):
                if rng.random() < 0.5:
                    mw[ph] = rng.choice(mw_sigs)
                    if mw[ph] is None:
                        del mw[ph]
                if rng.random() < 0.5:
                    mw[pk] = rng.choice(subsets)
            mws.append(mw)
        yield {'mws': mws, 'endpoint': rng.choice(ep_sigs), 'render': rng.choice(rn_sigs),
               'resources': rng.choice(subsets[:8]), 'url': rng.choice([[], [], ['a'], ['b'], ['c', 'a']]),
               'level': rng.choice(['app', 'route'])}


if __name__ == '__main__':
    req = json.load(sys.stdin)
    rng = random.Random(req.get('seed', 0))
    n = 0
    found = None
    accepted = 0
    for case in gen(rng):
        n += 1
        if n > req.get('budget', 2000):
            break
        try:
            out = run(case)
        except Exception as e:
            continue
        if out.get('accepted'):
            accepted += 1
        if out.get('fails'):
            found = {'case': case, 'observation': out}
            break
    print(json.dumps({'tried': n, 'accepted': accepted, 'found': found}, default=str))
