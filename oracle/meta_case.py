"""Native replay for C18: a host application with secret-named resources, a signed-cookie
middleware and a broken peripheral; the meta pages (HTML and JSON) answer 200 and contain
neither the secret values nor the signing key; other resources stay visible."""
import json, sys, warnings
warnings.simplefilter('ignore')


class Loud(object):
    def __init__(self, v):
        self.v = v

    def __repr__(self):
        return 'Loud(%s)' % self.v


def host_context_processor(which):
    """The host itself asks (SimpleContextProcessor) for a resource to be copied into every render
    context; host middlewares also wrap the embedded meta routes, so the JSON view serialises it."""
    from clastic import Application, Response
    from clastic.meta import MetaApplication
    from clastic.middleware import SimpleContextProcessor
    from werkzeug.test import Client
    problems = []
    if which == 'ctxproc_secret':
        res, name = {'db_secret': 'S3CR3T-CTX', 'visible_name': 'VISIBLE-VALUE'}, 'db_secret'
    else:
        res, name = {'handle': object(), 'visible_name': 'VISIBLE-VALUE'}, 'handle'
    app = Application([('/', lambda: Response('x')), ('/_meta/', MetaApplication())], resources=res,
                      middlewares=[SimpleContextProcessor(name)])
    for path in ('/_meta/', '/_meta/json/'):
        r = Client(app, Response).get(path)
        if r.status_code != 200:
            problems.append('%s with host SimpleContextProcessor(%r): status %s' % (path, name, r.status_code))
        elif 'S3CR3T-CTX' in r.get_data(as_text=True):
            problems.append('%s with host SimpleContextProcessor(%r): value of the resource is disclosed' % (path, name))
    return problems


def run(case):
    if case.get('scenarios'):
        problems = []
        for which in case['scenarios']:
            problems += host_context_processor(which)
        return {'fails': bool(problems), 'why': '; '.join(problems[:5])}
    from clastic import Application, Response
    from clastic.meta import MetaApplication
    from clastic.middleware.cookie import SignedCookieMiddleware
    from werkzeug.test import Client
    secrets = {'secret_token': 'S3CR3T-A', 'db_secret': b'S3CR3T-B', 'my_secret_thing': Loud('S3CR3T-C'),
               'SECRET_upper': 'S3CR3T-D-not-matched-by-lowercase-rule',
               # "contains secret", however it is glued to the rest of the name
               'dbsecret': 'S3CR3T-E', 'secretkey': 'S3CR3T-F', 'api_secrets': 'S3CR3T-G', 'client-secret': 'S3CR3T-H',
               'xsecretx': 'S3CR3T-I', 'secret': 'S3CR3T-J'}
    plain = {'visible_name': 'VISIBLE-VALUE', 'number': 42}
    class Exploding(object):
        # repr() raises and the message quotes the value: a secret-named resource must never be repr()'d
        def __repr__(self):
            raise ValueError('cannot show S3CR3T-X-inside-the-error-message')
    secrets['exploding_secret'] = Exploding()
    res = dict(secrets)
    res.update(plain)
    mw = SignedCookieMiddleware(secret_key='K3Y-MATERIAL')
    from clastic.middleware import Middleware

    class ViewProvides(Middleware):
        # a sized iterable that is neither list, tuple nor set
        def __init__(self):
            self.provides = {'vp_a': 1, 'vp_b': 2}.keys()

        def request(self, next):
            return next(vp_a=1, vp_b=2)
    import re as _re

    def odd_defaults(sentinel=object(), rx=_re.compile('a+'), factory=dict, n=3, s='S3CR3T-not-a-resource'):
        # defaults nobody provides, of kinds a JSON encoder does not know
        return Response('x')
    app = Application([('/', lambda: Response('x')), ('/odd', odd_defaults), ('/_meta/', MetaApplication())],
                      resources=res, middlewares=[mw, ViewProvides()])
    outer = Application([('/deep/', app)])
    problems = []
    for a, prefix in ((app, ''), (outer, '/deep')):
        cl = Client(a, Response)
        for path in (prefix + '/_meta/', prefix + '/_meta/json/'):
            r = cl.get(path)
            if r.status_code != 200:
                problems.append('%s: status %s' % (path, r.status_code))
                continue
            body = r.get_data(as_text=True)
            for k, v in secrets.items():
                if k == 'exploding_secret':
                    continue
                marker = repr(v) if not isinstance(v, (str, bytes)) else (v if isinstance(v, str) else v.decode())
                if 'secret' in k and ('S3CR3T-' + marker.split('S3CR3T-')[-1][:1]) in body:
                    problems.append('%s: value of resource %r is disclosed' % (path, k))
            if 'S3CR3T-X' in body:
                problems.append('%s: the text of a secret resource reached the page through an error message' % path)
            if 'K3Y-MATERIAL' in body:
                problems.append('%s: cookie signing key disclosed' % path)
            if prefix:
                continue        # embedded deeper: the page describes the serving application
            if 'VISIBLE-VALUE' not in body:
                problems.append('%s: non-secret resource not listed' % path)
            if '[REDACTED]' not in body:
                problems.append('%s: no redaction marker' % path)
    # one section failing (a host middleware whose repr raises) must not take the other sections with it
    class BadRepr(Middleware):
        def __repr__(self):
            raise AttributeError('misspelled attribute in __repr__')

        def request(self, next):
            return next()
    app2 = Application([('/', lambda: Response('x')), ('/_meta/', MetaApplication())], resources=res, middlewares=[BadRepr()])
    r = Client(app2, Response).get('/_meta/')
    body = r.get_data(as_text=True)
    if r.status_code != 200:
        problems.append('/_meta/ with a failing middleware section: status %s' % r.status_code)
    elif '[REDACTED]' not in body or 'VISIBLE-VALUE' not in body:
        problems.append('/_meta/ with a failing middleware section: the resources section vanished from the page')
    # host middlewares also wrap the embedded meta routes: a host context processor copies resources into every
    # render context, which the JSON view must not serialise (F22)
    for which in ('ctxproc_secret', 'ctxproc_unserialisable'):
        problems += host_context_processor(which)
    return {'fails': bool(problems), 'why': '; '.join(problems[:5])}


if __name__ == '__main__':
    case = json.load(sys.stdin)
    try:
        out = run(case)
    except Exception:
        import traceback
        out = {'fails': False, 'harness_error': traceback.format_exc()[-1500:]}
    print(json.dumps(out))
