"""Native replay for the sample store (C19): runs an operation sequence under several
seeds of the random source and checks the representation invariant after every step."""
import json, random, sys, warnings
warnings.simplefilter('ignore')


def run(case):
    from clastic.middleware.stats import Reservoir
    for seed in range(case.get('seeds', 40)):
        random.seed(seed)
        r = None
        added = set()
        total = 0
        n = 0
        for op in case['ops']:
            try:
                if op[0] == 'new':
                    r = Reservoir(cap=op[1])
                    cap = op[1]
                elif op[0] == 'add':
                    for _ in range(op[1]):
                        n += 1
                        added.add(n)
                        total += 1
                        r.add(n)
                elif op[0] == 'resize':
                    r.resize(op[1])
                    cap = op[1]
            except Exception as e:
                return {'fails': True, 'why': 'seed %d: %s raised %r' % (seed, op, e)}
            data = list(r)
            if len(data) > cap:
                return {'fails': True, 'why': 'seed %d: %d values stored, capacity %d' % (seed, len(data), cap)}
            if r.total_count != total:
                return {'fails': True, 'why': 'total_count %d, expected %d' % (r.total_count, total)}
            if not set(data) <= added:
                return {'fails': True, 'why': 'contains values never added'}
    return {'fails': False}


if __name__ == '__main__':
    case = json.load(sys.stdin)
    try:
        out = run(case)
    except Exception:
        import traceback
        out = {'fails': False, 'harness_error': traceback.format_exc()[-1500:]}
    print(json.dumps(out))
