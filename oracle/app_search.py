"""Bounded native search over request-path scenarios (only ever produces
counterexamples).  Input {"budget", "seed", "check": [...]}"""
import itertools, json, random, sys, warnings
warnings.simplefilter('ignore')
from app_case import run

PATTERNS = ['/a', '/a/', '/a/<b>', '/a/<b>/', '/<x+>', '/n/<k:int>', '/']
BEH = ['ok', 'ok', 'ok_base', 'raise', 'raise_http', 'raise_http_odd', 'return_http', 'nonbreaking_raise', 'nonbreaking_return', 'nonresponse']
PATHS = ['/a', '/a/', '/a//', '/a/x', '/a/x/', '/a/x?y', '/a/x%y/', '/n/5', '/n/' + '9' * 5000, '/zzz', '/', '//a', '/a/é', '/a/ /x', '/a/ ', '/a/\t/', '/a///x', '/a/////x//', '///a', '/a///']
QUERIES = ['', 'q=1', 'a=1&b=%20', '\xff', 'x=\xe9\xfe']
METHODS = ['GET', 'POST', 'HEAD', 'get', 'FOO']


def gen(rng, checks):
    while True:
        n = rng.choice([1, 1, 2, 3])
        routes = []
        for _ in range(n):
            routes.append({'pattern': rng.choice(PATTERNS), 'methods': rng.choice([None, None, ['GET'], ['POST'], ['GET', 'PUT']]),
                           'behavior': rng.choice(BEH), 'slash_mode': rng.choice([None, None, 'redirect', 'rewrite', 'strict'])})
        yield {'routes': routes, 'slash_mode': rng.choice(['redirect', 'redirect', 'rewrite', 'strict']),
               'handler': rng.choice(['default', 'default', 'debug', 'reraise', 'broken_render']),
               'request': {'path': rng.choice(PATHS), 'method': rng.choice(METHODS), 'query_latin1': rng.choice(QUERIES),
                           'accept': rng.choice([None, None, 'text/html', 'application/json', 'application/xml', '*/*']),
                           'script_name': rng.choice([None, None, '/svc'])},
               'check': checks}


if __name__ == '__main__':
    req = json.load(sys.stdin)
    rng = random.Random(req.get('seed', 0))
    n = 0
    found = None
    for case in gen(rng, req.get('check', ['c08'])):
        n += 1
        if n > req.get('budget', 1500):
            break
        try:
            out = run(case)
        except Exception:
            continue
        if out.get('fails'):
            found = {'case': case, 'observation': out}
            break
    print(json.dumps({'tried': n, 'found': found}, default=str))
