"""Native replay for C16: one client against an application with a SignedCookieMiddleware.
case = {"cookies": ["<raw cookie value>", ...]}: each raw value is presented as the signed cookie;
the response must be a normal 200 showing an empty cookie unless the value is the server's own.
Also checks the store/read round trip."""
import json, sys, warnings
warnings.simplefilter('ignore')


def run(case):
    from clastic import Application, render_basic
    from clastic.middleware.cookie import SignedCookieMiddleware
    from werkzeug.test import Client, EnvironBuilder
    from werkzeug.wrappers import Response

    def setter(cookie, request):
        cookie['k'] = request.args.get('v', 'val')
        return {'set': True}

    def reader(cookie):
        return {'data': dict(cookie)}

    mw = SignedCookieMiddleware(secret_key=b'secret-key-1')
    app = Application([('/set', setter, render_basic), ('/read', reader, render_basic)], middlewares=[mw])
    cl = Client(app, Response)
    problems = []
    r = cl.get('/set?v=hello')
    good = None
    for h, v in r.headers:
        if h == 'Set-Cookie' and v.startswith('clastic_cookie='):
            good = v.split(';')[0][len('clastic_cookie='):]
    r = cl.get('/read')
    if r.status_code != 200 or json.loads(r.get_data())['data'].get('k') != 'hello':
        problems.append('round trip failed: %s %s' % (r.status_code, r.get_data()[:80]))
    # what the application stores is what the next request sees -- for values whose JSON text exercises every base64
    # alphabet position (?, >, ~ ...), non-ASCII text, and after deleting / clearing
    from urllib.parse import quote
    for v in ['/search?q=1', 'a?b', '<b>bold</b>', '~bob', 'caf\u00e9 \u4e2d', '', 'x' * 300, '{"j": [1, 2]}', '>>>???~~~']:
        c2 = Client(app, Response)
        c2.get('/set?v=' + quote(v))
        r = c2.get('/read')
        try:
            seen = json.loads(r.get_data())['data'].get('k') if r.status_code == 200 else '<status %s>' % r.status_code
        except ValueError:
            seen = '<unparsable>'
        if seen != v:
            problems.append('stored %r, the next request saw %r' % (v, seen))

    def clearer(cookie):
        cookie.clear()
        return {'cleared': True}
    app2 = Application([('/set', setter, render_basic), ('/read', reader, render_basic), ('/clear', clearer, render_basic)], middlewares=[mw])
    c3 = Client(app2, Response)
    c3.get('/set?v=kept')
    c3.get('/clear')
    r = c3.get('/read')
    if r.status_code != 200 or json.loads(r.get_data())['data'] != {}:
        problems.append('after clear() the next request saw %r' % r.get_data()[:80])
    for raw in case['cookies']:
        if raw == '<good>':
            raw_v = good
        elif raw == '<good-flipped>':
            raw_v = (good[:-3] + ('A' if good[-3] != 'A' else 'B') + good[-2:]) if good else 'x'
        elif raw == '<good-truncated>':
            raw_v = good[:len(good) // 2] if good else 'x'
        else:
            raw_v = raw
        env = EnvironBuilder(path='/read').get_environ()
        env['HTTP_COOKIE'] = 'clastic_cookie=' + raw_v
        got = {}

        def sr(status, headers, exc_info=None):
            got['status'] = status
        try:
            body = b''.join(app(env, sr))
        except Exception as e:
            problems.append('%r: exception escaped %r' % (raw, e))
            continue
        if not got['status'].startswith('200'):
            problems.append('%r: status %s' % (raw, got['status']))
            continue
        data = json.loads(body)['data']
        if raw == '<good>':
            if data.get('k') != 'hello':
                problems.append('own cookie not accepted: %r' % data)
        elif data:
            problems.append('%r: non-empty cookie %r presented' % (raw, data))
    problems += expiry(Application, render_basic, SignedCookieMiddleware, EnvironBuilder, setter, reader)
    return {'fails': bool(problems), 'why': '; '.join(problems[:5])}


def expiry(Application, render_basic, SignedCookieMiddleware, EnvironBuilder, setter, reader):
    """Clock advances around the expiry (the clock is moved, nothing sleeps): a cookie is presented while valid --
    also more than once -- and again, byte for byte, after it expired; session and never cookies outlive the advance."""
    import time as _time
    import secure_cookie.cookie as _sc
    real, off = _time.time, [0.0]

    def fake():
        return real() + off[0]
    problems = []
    saved = (_time.time, _sc.time)
    _time.time = fake
    _sc.time = fake
    try:
        for exp, outlives in ((100, False), ('never', True), (0, True)):
            off[0] = 0.0
            app = Application([('/set', setter, render_basic), ('/read', reader, render_basic)],
                              middlewares=[SignedCookieMiddleware(secret_key=b'secret-key-2', expiry=exp)])

            def present(raw):
                env = EnvironBuilder(path='/read').get_environ()
                if raw is not None:
                    env['HTTP_COOKIE'] = 'clastic_cookie=' + raw
                got = {}

                def sr(status, headers, exc_info=None):
                    got['status'], got['headers'] = status, headers
                body = b''.join(app(env, sr))
                if not got['status'].startswith('200'):
                    return '<status %s>' % got['status']
                return json.loads(body)['data']
            env = EnvironBuilder(path='/set', query_string='v=fresh').get_environ()
            hs = {}
            b''.join(app(env, lambda st, h, e=None: hs.setdefault('h', h)))
            raw = [v.split(';')[0][len('clastic_cookie='):] for h, v in hs['h'] if h == 'Set-Cookie' and v.startswith('clastic_cookie=')]
            if not raw:
                problems.append('expiry=%r: no cookie set' % (exp,))
                continue
            raw = raw[0]
            for dt in (10, 50):
                off[0] = dt
                d = present(raw)
                if not isinstance(d, dict) or d.get('k') != 'fresh':
                    problems.append('expiry=%r: own cookie presented %ss after it was set shows %r' % (exp, dt, d))
            off[0] = 500
            d = present(raw)
            if outlives:
                if not isinstance(d, dict) or d.get('k') != 'fresh':
                    problems.append('expiry=%r: cookie lost after a clock advance: %r' % (exp, d))
            elif d != {}:
                problems.append('expiry=%r: the same cookie value presented after its expiry shows %r' % (exp, d))
    finally:
        _time.time, _sc.time = saved
    return problems


if __name__ == '__main__':
    case = json.load(sys.stdin)
    try:
        out = run(case)
    except Exception:
        import traceback
        out = {'fails': False, 'harness_error': traceback.format_exc()[-1500:]}
    print(json.dumps(out))
