"""Native replay for C16: one client against an application with a SignedCookieMiddleware.
case = {"cookies": ["<raw cookie value>", ...]}: each raw value is presented as the signed cookie;
the response must be a normal 200 showing an empty cookie unless the value is the server's own.
Also checks the store/read round trip."""
import json, sys, warnings
warnings.simplefilter('ignore')


def run(case):
    from clastic import Application, render_basic
    from clastic.middleware.cookie import SignedCookieMiddleware
    from werkzeug.test import Client, EnvironBuilder
    from werkzeug.wrappers import Response

    def setter(cookie, request):
        cookie['k'] = request.args.get('v', 'val')
        return {'set': True}

    def reader(cookie):
        return {'data': dict(cookie)}

    mw = SignedCookieMiddleware(secret_key=b'secret-key-1')
    app = Application([('/set', setter, render_basic), ('/read', reader, render_basic)], middlewares=[mw])
    cl = Client(app, Response)
    problems = []
    r = cl.get('/set?v=hello')
    good = None
    for h, v in r.headers:
        if h == 'Set-Cookie' and v.startswith('clastic_cookie='):
            good = v.split(';')[0][len('clastic_cookie='):]
    r = cl.get('/read')
    if r.status_code != 200 or json.loads(r.get_data())['data'].get('k') != 'hello':
        problems.append('round trip failed: %s %s' % (r.status_code, r.get_data()[:80]))
    # what the application stores is what the next request sees -- for values whose JSON text exercises every base64
    # alphabet position (?, >, ~ ...), non-ASCII text, and after deleting / clearing
    from urllib.parse import quote
    for v in ['/search?q=1', 'a?b', '<b>bold</b>', '~bob', 'caf\u00e9 \u4e2d', '', 'x' * 300, '{"j": [1, 2]}', '>>>???~~~']:
        c2 = Client(app, Response)
        c2.get('/set?v=' + quote(v))
        r = c2.get('/read')
        try:
            seen = json.loads(r.get_data())['data'].get('k') if r.status_code == 200 else '<status %s>' % r.status_code
        except ValueError:
            seen = '<unparsable>'
        if seen != v:
            problems.append('stored %r, the next request saw %r' % (v, seen))

    def clearer(cookie):
        cookie.clear()
        return {'cleared': True}
    app2 = Application([('/set', setter, render_basic), ('/read', reader, render_basic), ('/clear', clearer, render_basic)], middlewares=[mw])
    c3 = Client(app2, Response)
    c3.get('/set?v=kept')
    c3.get('/clear')
    r = c3.get('/read')
    if r.status_code != 200 or json.loads(r.get_data())['data'] != {}:
        problems.append('after clear() the next request saw %r' % r.get_data()[:80])
    for raw in case['cookies']:
        if raw == '<good>':
            raw_v = good
        elif raw == '<good-flipped>':
            raw_v = (good[:-3] + ('A' if good[-3] != 'A' else 'B') + good[-2:]) if good else 'x'
        elif raw == '<good-truncated>':
            raw_v = good[:len(good) // 2] if good else 'x'
        else:
            raw_v = raw
        env = EnvironBuilder(path='/read').get_environ()
        env['HTTP_COOKIE'] = 'clastic_cookie=' + raw_v
        got = {}

        def sr(status, headers, exc_info=None):
            got['status'] = status
        try:
            body = b''.join(app(env, sr))
        except Exception as e:
            problems.append('%r: exception escaped %r' % (raw, e))
            continue
        if not got['status'].startswith('200'):
            problems.append('%r: status %s' % (raw, got['status']))
            continue
        data = json.loads(body)['data']
        if raw == '<good>':
            if data.get('k') != 'hello':
                problems.append('own cookie not accepted: %r' % data)
        elif data:
            problems.append('%r: non-empty cookie %r presented' % (raw, data))
    return {'fails': bool(problems), 'why': '; '.join(problems[:5])}


if __name__ == '__main__':
    case = json.load(sys.stdin)
    try:
        out = run(case)
    except Exception:
        import traceback
        out = {'fails': False, 'harness_error': traceback.format_exc()[-1500:]}
    print(json.dumps(out))
