"""Native oracle for C03 (bounded): traces of instrumented middlewares on a real application against the documented
M-shaped order -- request phase outermost, then endpoint middlewares around the endpoint, then render middlewares
around render; list order = nesting order; the catch-all (404/405) route is wrapped by the application-level
middlewares like any other; a Response (any BaseResponse) from the endpoint side skips the render layer; a
non-unique middleware type placed at several levels runs at every placement."""
import json, sys, warnings
warnings.simplefilter('ignore')


def mk(tag, log, clsname, unique=True, phases=('request', 'endpoint', 'render')):
    from clastic.middleware import Middleware
    ns = {'unique': unique}
    if 'request' in phases:
        def request(self, next):
            log.append('%s:req:in' % self.tag)
            try:
                return next()
            finally:
                log.append('%s:req:out' % self.tag)
        ns['request'] = request
    if 'endpoint' in phases:
        def endpoint(self, next):
            log.append('%s:ep:in' % self.tag)
            try:
                return next()
            finally:
                log.append('%s:ep:out' % self.tag)
        ns['endpoint'] = endpoint
    if 'render' in phases:
        def render(self, next, context):
            log.append('%s:rn:in' % self.tag)
            try:
                return next()
            finally:
                log.append('%s:rn:out' % self.tag)
        ns['render'] = render
    cls = _CLS.setdefault(clsname, type(clsname, (Middleware,), ns))
    m = cls()
    m.tag = tag
    return m


_CLS = {}


def run(case):
    from clastic import Application, Route, Response, POST
    from werkzeug.wrappers import BaseResponse
    from werkzeug.test import Client
    log = []
    problems = []

    def ep():
        log.append('endpoint')
        return {'a': 1}

    def ep_base():
        log.append('endpoint')
        return BaseResponse('base')

    def ep_raise():
        log.append('endpoint')
        raise ValueError('boom')

    def render(context):
        log.append('render')
        return Response('rendered')
    a, b = mk('A', log, 'TA'), mk('B', log, 'TB')
    app = Application([('/', ep, render), ('/base', ep_base, render), ('/boom', ep_raise, render), POST('/post', ep, render)],
                      middlewares=[a, b])
    cl = Client(app, Response)

    def hit(path, method='GET', client=cl):
        del log[:]
        client.open(path, method=method)
        return list(log)
    full = ['A:req:in', 'B:req:in', 'A:ep:in', 'B:ep:in', 'endpoint', 'B:ep:out', 'A:ep:out',
            'A:rn:in', 'B:rn:in', 'render', 'B:rn:out', 'A:rn:out', 'B:req:out', 'A:req:out']
    got = hit('/')
    if got != full:
        problems.append('GET /: %s, expected %s' % (got, full))
    skip = ['A:req:in', 'B:req:in', 'A:ep:in', 'B:ep:in', 'endpoint', 'B:ep:out', 'A:ep:out', 'B:req:out', 'A:req:out']
    got = hit('/base')
    if got != skip:
        problems.append('endpoint returned a BaseResponse: %s, expected %s (render layer skipped)' % (got, skip))
    got = hit('/boom')
    if got != skip:
        problems.append('endpoint raised: %s, expected %s (unwinds through every entered layer)' % (got, skip))
    for path, method in (('/missing', 'GET'), ('/post', 'GET')):
        got = hit(path, method)
        if got[:2] != ['A:req:in', 'B:req:in'] or got[-2:] != ['B:req:out', 'A:req:out']:
            problems.append('%s %s (catch-all route): application-level middlewares not wrapped around it: %s' % (method, path, got))
    # levels: application, embedded application, route; a non-unique type at each level, a unique type kept once outermost
    n1, n2, n3 = mk('app', log, 'NU', unique=False, phases=('request',)), mk('sub', log, 'NU', unique=False, phases=('request',)), \
        mk('route', log, 'NU', unique=False, phases=('request',))
    u1, u2 = mk('U-outer', log, 'UQ', phases=('request',)), mk('U-inner', log, 'UQ', phases=('request',))
    inner = Application([Route('/x', ep_base, middlewares=[n3])], middlewares=[u2, n2])
    outer = Application([('/in', inner)], middlewares=[u1, n1])
    got = hit('/in/x', client=Client(outer, Response))
    want = ['U-outer:req:in', 'app:req:in', 'sub:req:in', 'route:req:in', 'endpoint', 'route:req:out', 'sub:req:out', 'app:req:out', 'U-outer:req:out']
    if got != want:
        problems.append('three levels: %s, expected %s' % (got, want))
    # a unique type and its subclass are two different types: both run
    from clastic.middleware import Middleware
    base = mk('base', log, 'Timing', phases=('request',))
    sub_cls = type('AuditedTiming', (type(base),), {})
    sub = sub_cls()
    sub.tag = 'sub'
    for outer_mw, inner_mw, names in ((sub, base, ['sub', 'base']), (base, sub, ['base', 'sub'])):
        a1 = Application([Route('/x', ep_base, middlewares=[inner_mw])], middlewares=[outer_mw])
        got = hit('/x', client=Client(a1, Response))
        want = ['%s:req:in' % names[0], '%s:req:in' % names[1], 'endpoint', '%s:req:out' % names[1], '%s:req:out' % names[0]]
        if got != want:
            problems.append('a type and its subclass at two levels: %s, expected %s' % (got, want))
    # ONE non-unique instance listed at application and route level runs at both positions
    shared = mk('shared', log, 'NU2', unique=False, phases=('request',))
    other = mk('other', log, 'OT', phases=('request',))
    a2 = Application([Route('/x', ep_base, middlewares=[shared])], middlewares=[shared, other])
    got = hit('/x', client=Client(a2, Response))
    want = ['shared:req:in', 'other:req:in', 'shared:req:in', 'endpoint', 'shared:req:out', 'other:req:out', 'shared:req:out']
    if got != want:
        problems.append('one non-unique instance at two levels: %s, expected %s' % (got, want))
    return {'fails': bool(problems), 'why': '; '.join(problems[:4]), 'count': len(problems)}


if __name__ == '__main__':
    case = json.load(sys.stdin)
    try:
        out = run(case)
    except Exception:
        import traceback
        out = {'fails': False, 'harness_error': traceback.format_exc()[-1500:]}
    print(json.dumps(out))
