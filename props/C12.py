"""C12 -- concurrent requests on one Application do not interfere.

This technique family does not explore schedules.  What is decided is a schedule-independent
sufficient condition, confinement: on the request path every store goes into an object of
this call / this request (K frames on the real functions), and no method that runs per
request stores into attributes of the shared Application / route / error-handler objects or
into module-level mutable state (T: class-wide writer scan on the real AST).  If all shared
accesses of a request are reads of locations no request writes, every interleaving of atomic
steps is equivalent to a sequential one (stated, not mechanised).  Request ids: K on
_dispatch_wsgi (the id comes from the one module-level counter) + A-gil (next() on
itertools.count is atomic)."""
import ast
import os
import z3
from pyvc import z as Z
from pyvc.run import Item
from specs import writers as W

CANARIES = [
    {'name': 'dispatch-caches-request-on-application', 'file': 'clastic/application.py',
     'old': "        dispatch_state = DispatchState()\n", 'new': "        dispatch_state = DispatchState()\n        self.last_request = request\n"},
    {'name': 'dispatch-marks-route', 'file': 'clastic/application.py',
     'old': "            request.path_params = path_params\n", 'new': "            request.path_params = route.path_params = path_params\n"},
    {'name': 'execute-reuses-injectables', 'file': 'clastic/route.py',
     'old': "        injectables.update(self.resources)\n        injectables.update(kwargs)\n        return inject(self._execute, injectables)",
     'new': "        self.resources.update(kwargs)\n        injectables.update(self.resources)\n        return inject(self._execute, injectables)"},
    {'name': 'request-id-per-application', 'file': 'clastic/application.py',
     'old': "            request.request_id = next(_REQ_ID_ITER)", 'new': "            request.request_id = len(self.routes)"},
    {'name': 'match_method-memoises', 'file': 'clastic/route.py',
     'old': "    def match_method(self, method):\n", 'new': "    def match_method(self, method):\n        self._last_method = method\n"},
]
# the dispatch loop contract is proof support shared with C06-C08
OWN = [r'/frame$', r'^C12\.', r'_dispatch_wsgi/ensures']
QUICK_CANARIES = 2

# methods allowed to store into attributes of a shared object: configuration time only
ALLOWED_WRITERS = {
    ('clastic/application.py', 'Application'): {'__init__', 'set_error_handler', 'add', 'serve'},
    ('clastic/application.py', 'SubApplication'): {'__init__'},
    ('clastic/route.py', 'BoundRoute'): {'__init__'},
    ('clastic/route.py', 'Route'): {'__init__'},
    ('clastic/route.py', 'NullRoute'): {'__init__'},
    ('clastic/errors.py', 'ErrorHandler'): {'__init__'},
    ('clastic/errors.py', 'ContextualErrorHandler'): {'__init__'},
    ('clastic/errors.py', 'REPLErrorHandler'): {'__init__'},
    ('clastic/middleware/core.py', 'Middleware'): {'__init__'},
}
# functions allowed to mutate module-level objects: import / registration time, and the id counter
ALLOWED_MODULE_STATE = {
    'clastic/application.py': {('Application._dispatch_wsgi', '_REQ_ID_ITER', 'next()')},
    'clastic/route.py': {('_register_converter', 'TYPE_CONV_MAP', 'store'), ('_register_converter', 'TYPE_PATT_MAP', 'store')},
    'clastic/errors.py': {('_module_init', 'ERROR_CODE_MAP', 'global rebinding'), ('_module_init', 'ERROR_CODE_MAP', 'store'),
                          ('_module_init', '__all__', 'call .extend()')},
    'clastic/sinter.py': set(), 'clastic/middleware/core.py': set(),
}


class _Registrar(object):
    """collects nothing: used to make the #verify contracts of other properties known"""
    def add_functions(self, E, targets):
        pass


def worker_setup(E):
    import contracts.route as R
    import contracts.confine as CF
    reg = _Registrar()
    R.verify_normalize(reg, E)
    R.verify_match_path(reg, E)
    R.verify_execute(reg, E)
    CF.build(E)
    return CF


def scan_items(pc, E):
    trees = {}
    for rel in sorted(set(f for f, _ in ALLOWED_WRITERS) | set(ALLOWED_MODULE_STATE)):
        path = os.path.join(E.repo.root, rel)
        try:
            with open(path, encoding='utf8') as f:
                trees[rel] = ast.parse(f.read())
        except (OSError, SyntaxError) as e:
            pc.undecided.append(('cannot parse %s: %s' % (rel, e), None, rel))
    for (rel, cls), allowed in sorted(ALLOWED_WRITERS.items()):
        if rel not in trees:
            continue
        wr = W.class_writers(trees[rel], cls)
        bad = dict((m, st) for m, st in wr.items() if m not in allowed)
        what = '; '.join('%s.%s stores self.%s (line %d, %s)' % (cls, m, a, ln, how) for m, st in sorted(bad.items()) for a, ln, how in st[:3])
        it = Item('C12.T/writers/%s' % cls, 'T', [], z3.BoolVal(not bad),
                  note='attributes of a shared %s are stored only by %s%s' % (cls, sorted(allowed), ('; FOUND: ' + what) if bad else ''),
                  extra={'writers': dict((m, sorted(set(a for a, _, _ in st))) for m, st in wr.items()), 'offending': what})
        it.by = 'evaluation'
        pc.add_item(it)
    for rel, allowed in sorted(ALLOWED_MODULE_STATE.items()):
        if rel not in trees:
            continue
        found = W.module_state_mutations(trees[rel])
        bad = [x for x in found if (x[0], x[1], x[3]) not in allowed]
        it = Item('C12.T/module-state/%s' % rel.replace('clastic/', ''), 'T', [], z3.BoolVal(not bad),
                  note='module-level objects are mutated only at import/registration time (and the id counter by next())%s'
                       % (('; FOUND: %s' % bad[:3]) if bad else ''), extra={'found': [list(x) for x in found]})
        it.by = 'evaluation'
        pc.add_item(it)
    # objects created once per class (class-level mutables, attrs defaults, mutable parameter defaults) are shared
    # by every instance and every request
    for rel, cls in (('clastic/application.py', 'DispatchState'), ('clastic/application.py', 'Application'),
                     ('clastic/route.py', 'BoundRoute'), ('clastic/route.py', 'Route'), ('clastic/route.py', 'NullRoute'),
                     ('clastic/errors.py', 'ErrorHandler'), ('clastic/errors.py', 'HTTPException')):
        if rel not in trees:
            continue
        found = W.class_level_mutables(trees[rel], cls)
        it = Item('C12.T/no-shared-mutable-defaults/%s' % cls, 'T', [], z3.BoolVal(not found),
                  note='%s has no class-level mutable object, mutable attrs default or mutable parameter default%s'
                       % (cls, ('; FOUND: %s' % found[:3]) if found else ''))
        it.by = 'evaluation'
        pc.add_item(it)
    # the id counter is one module-level itertools.count()
    ok = False
    t = trees.get('clastic/application.py')
    if t is not None:
        for node in t.body:
            if isinstance(node, ast.Assign) and any(isinstance(x, ast.Name) and x.id == '_REQ_ID_ITER' for x in node.targets):
                v = node.value
                ok = isinstance(v, ast.Call) and not v.args and ast.unparse(v.func) in ('itertools.count', 'count')
    it = Item('C12.T/request-id-counter-is-process-wide', 'T', [], z3.BoolVal(ok),
              note='_REQ_ID_ITER is a module-level itertools.count(): one counter per process, shared by all applications')
    it.by = 'evaluation'
    pc.add_item(it)


def build(pc, E, canary=None):
    pc.E = E
    scan_items(pc, E)
    if canary is not None and any(it.result is None and Z.is_false(Z.simp(it.goal)) for it in pc.items):
        return
    CF = worker_setup(E)
    pc.add_functions(E, list(CF.TARGETS))
    if canary is not None:
        return
    pc.assumptions += [
        'meta-argument (stated, not mechanised): if every access of a request to a shared location is a read of a location '
        'no request writes, each interleaving of atomic steps is equivalent to a sequential execution',
        'A-gil: next() on the module-level itertools.count is atomic, so request ids are unique within the process',
        'objects user code (endpoints, middlewares, render functions) and the error types produce for a request are not '
        'shared with other requests; interference through user code or Werkzeug internals is not decided',
        'aliasing of shared containers through locals is covered only inside the functions under frame contracts',
        'no schedule is explored: free-running stress and preemption tests are outside this technique family',
    ]
