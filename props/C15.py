"""C15 -- built-in middlewares never change what the client receives."""
MWS = ['compress.GzipMiddleware', 'client_cache.HTTPCacheMiddleware', 'stats.StatsMiddleware',
       'profile.SimpleProfileMiddleware', 'cookie.SignedCookieMiddleware', 'url.GetParamMiddleware',
       'form.PostDataMiddleware', 'url.ScriptRootMiddleware']
TARGETS = ['clastic.middleware.%s.request#%s' % (m, k) for m in MWS for k in ('Response', 'HTTPExc')]
# the middlewares' helpers must not raise either: the stats sample store (C19) and the cookie parser (C16)
SUPPORT = ['clastic.middleware.stats.Reservoir.add', 'clastic.middleware.cookie.JSONCookie.unserialize']

CANARIES = [
    {'name': 'gzip-when-not-accepted', 'file': 'clastic/middleware/compress.py',
     'old': "        if resp.content_encoding or not request.accept_encodings['gzip']:",
     'new': "        if resp.content_encoding:"},
    {'name': 'gzip-wrong-length', 'file': 'clastic/middleware/compress.py',
     'old': "        resp.content_length = len(comp_content)", 'new': "        resp.content_length = len(resp.data)"},
    {'name': 'gzip-no-vary', 'file': 'clastic/middleware/compress.py',
     'old': "        resp.vary.add('Accept-Encoding')\n", 'new': ""},
    {'name': 'gzip-rewrites-status', 'file': 'clastic/middleware/compress.py',
     'old': "        resp.content_encoding = 'gzip'\n", 'new': "        resp.content_encoding = 'gzip'\n        resp.status_code = 200\n"},
    {'name': 'cache-unguarded-attribute', 'file': 'clastic/middleware/client_cache.py',
     'old': "        if hasattr(resp, 'cache_control'):", 'new': "        if True:\n            resp.not_an_attribute"},
    {'name': 'profile-always-wraps', 'file': 'clastic/middleware/profile.py',
     'old': "        if not request.args.get(self.get_param_name):\n            return next()",
     'new': "        if request.args.get(self.get_param_name):\n            return next()"},
    {'name': 'cookie-replaces-response', 'file': 'clastic/middleware/cookie.py',
     'old': "        cookie.save_cookie(response, **save_cookie_kwargs)\n        return response",
     'new': "        cookie.save_cookie(response, **save_cookie_kwargs)\n        return None"},
    {'name': 'error-responses-lose-mixins', 'file': 'clastic/errors.py',
     'old': "class HTTPException(Response, Exception):", 'new': "class HTTPException(BaseResponse, Exception):"},
]
QUICK_CANARIES = 2

REQS = [{"path": "/ok", "accept_encoding": "gzip"}, {"path": "/small", "accept_encoding": "gzip"},
        {"path": "/ok", "accept_encoding": "identity"}, {"path": "/ok"}, {"path": "/nope"},
        {"path": "/getonly", "method": "POST"}, {"path": "/raise_http"}, {"path": "/return_http", "accept_encoding": "gzip"},
        {"path": "/boom"}, {"path": "/ctx"}, {"path": "/redir"}, {"path": "/nb"}, {"path": "/bin", "accept_encoding": "gzip"},
        {"path": "/ok", "method": "HEAD", "accept_encoding": "gzip"},
        {"path": "/ok", "accept_encoding": "gzip;q=0"}, {"path": "/ok", "accept_encoding": "identity, gzip;q=0"},
        {"path": "/ok", "accept_encoding": "*;q=0"}, {"path": "/ok", "accept_encoding": "deflate, gzip;q=0.5"},
        {"path": "/return_big_http", "accept_encoding": "gzip"}, {"path": "/noct"},
        {"path": "/ok", "cookie": "clastic_cookie=a?b"}, {"path": "/nope", "cookie": "clastic_cookie=a=b?c=d"},
        {"path": "/ok", "cookie": "clastic_cookie=x"}, {"path": "/ok", "query": "_prof_sort=bogus"},
        {"path": "/bignoct", "accept_encoding": "gzip", "user_agent": "Mozilla/4.0 (compatible; MSIE 8.0; Windows NT 6.1)"},
        {"path": "/raise_noct"}, {"path": "/ok", "accept_encoding": "gzip", "user_agent": "Mozilla/4.0 (compatible; MSIE 8.0)"}]
NATIVE = {'compress': 'gzip', 'client_cache': 'cache', 'stats': 'stats', 'profile': 'profile', 'cookie': 'cookie',
          'url.GetParam': 'getparam', 'form': 'postdata', 'url.ScriptRoot': 'scriptroot'}


def build(pc, E, canary=None):
    pc.E = E
    pc.add_functions(E, TARGETS)
    pc.add_functions(E, [t for t in SUPPORT if t in E.contracts])
    if canary is not None:
        return
    bounded_composition(pc, E)
    pc.assumptions += [
        'attribute tables of Response / HTTPException instances by reflection of the installed classes; any other '
        'BaseResponse subclass returned by application code is outside the quantifier',
        'A-json: gzip round trip (gunzip(gzip_bytes(d)) == d)',
        'conditional-request handling (make_conditional / add_etag) does not change status or body for requests '
        'without conditional headers (outside the quantifier)',
        'ContextProcessor.process_render_context is a nested closure and is not under contract (covered only by the '
        'native replay harness)',
    ]


def concretise(pc, it):
    f = (it.func or '') if it is not None else ''
    for key, mw in NATIVE.items():
        if key in f:
            return {'script': 'mw_case.py', 'case': {'mw': mw, 'requests': REQS}}
    return None


def refute(pc, unknown_items):
    """clauses the solver left undecided: bounded native refutation with the request catalogue of the middleware"""
    from pyvc.run import native
    done = set()
    for it in unknown_items:
        case = concretise(pc, it)
        if case is None or case['case']['mw'] in done:
            continue
        done.add(case['case']['mw'])
        try:
            out = native(case['script'], case['case'], repo_root=pc.E.repo.root if pc.E else None)
        except Exception as e:
            pc.notes.append('native refutation for %s crashed: %r' % (case['case']['mw'], e))
            continue
        if out.get('fails'):
            it.result = 'refuted'
            it.by = (it.by or '') + ' unknown -> native refutation'
            it.extra['native_case'] = case


def fallback(pc):
    return [{'script': 'mw_case.py', 'case': {'mw': mw, 'requests': REQS}} for mw in sorted(set(NATIVE.values()))]


def bounded_composition(pc, E):
    """bounded stand-in (labelled bounded): each middleware's own `request` function is under contract, but what the
    client finally receives also depends on what dispatch does AFTER the middleware returned (an HTTPException an
    endpoint returned is re-rendered by the error handler).  The scenario application is compared with and
    without each middleware natively."""
    import json
    import os
    from pyvc.run import native, HERE
    bad = []
    n = 0
    for mw in sorted(set(NATIVE.values())):
        case = {'mw': mw, 'requests': REQS}
        try:
            out = native('mw_case.py', case, repo_root=E.repo.root)
        except Exception as e:
            pc.errors.append('bounded stand-in (middleware composition, %s) crashed: %r' % (mw, e))
            continue
        n += len(REQS)
        if out.get('harness_error'):
            pc.errors.append('bounded stand-in (middleware composition, %s): %s' % (mw, out['harness_error'][-300:]))
        if out.get('fails'):
            bad.append((case, out))
    pc.bounded.append({'what': 'scenario application (every response kind incl. a large returned HTTPException and a response '
                               'without Content-Type) with vs without each built-in middleware: status, decoded body, gzip '
                               'headers, Accept-Encoding incl. q=0', 'bound': '%d requests x %d middlewares' % (len(REQS), len(set(NATIVE.values()))),
                       'cases': n, 'failures': len(bad), 'label': 'bounded'})
    if bad:
        fn = 'replays/C15-bounded-composition.json'
        os.makedirs(os.path.join(HERE, 'replays'), exist_ok=True)
        with open(os.path.join(HERE, fn), 'w') as f:
            json.dump({'property': 'C15', 'obligation': 'C15.B/middleware-composition (bounded stand-in)',
                       'concretised_input': {'script': 'mw_case.py', 'case': bad[0][0]}, 'native_observation': bad[0][1]}, f, indent=1)
        pc.violations.append(('C15.B/middleware-composition', fn, True))
