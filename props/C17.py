"""C17 -- the basic and JSON renderers accept every endpoint result."""
TARGETS = ['clastic.render.simple.BasicRender._guess_json', 'clastic.render.simple.BasicRender.render_response',
           'clastic.render.simple.BasicRender.render_response#sized', 'clastic.render.simple.ClasticJSONEncoder.default']
CANARIES = [
    {'name': 'guess-json-compares-int-with-bytes', 'file': 'clastic/render/simple.py',
     'old': "        elif bytestr[:1] == b'{' and bytestr[-1:] == b'}':", 'new': "        elif bytestr[0] == b'{' and bytestr[-1:] == b'}':"},
    {'name': 'guess-json-array-ignored', 'file': 'clastic/render/simple.py',
     'old': "        elif bytestr[:1] == b'[' and bytestr[-1:] == b']':\n            return True", 'new': "        elif False:\n            return True"},
    {'name': 'undefined-name-for-non-sized', 'file': 'clastic/render/simple.py',
     'old': "            return Response(str(context), mimetype=\"text/plain\")", 'new': "            return Response(unicode(context), mimetype=\"text/plain\")"},
    {'name': 'html-sniff-dropped', 'file': 'clastic/render/simple.py',
     'old': "            elif b'<html' in context[:168]:", 'new': "            elif b'<html' in context[:1]:"},
    {'name': 'encoder-raises-in-dev-mode', 'file': 'clastic/render/simple.py',
     'old': "        if self.dev_mode:\n            return repr(obj)", 'new': "        if self.dev_mode and False:\n            return repr(obj)"},
    {'name': 'json-labelled-plain', 'file': 'clastic/render/simple.py',
     'old': "                return Response(context, mimetype=\"application/json\")", 'new': "                return Response(context, mimetype=\"text/plain\")"},
]
QUICK_CANARIES = 2
VALUES = ["int:5", "none", "float:1.5", "bool:true", "object", "str:{\"a\": 1}", "bytes:[1, 2]",
          "str:<html><body>x</body></html>", "str:plain", "str:", "json:{\"a\": [1, 2]}", "json:[1, 2]", "str:{not json"]


def build(pc, E, canary=None):
    pc.E = E
    pc.add_functions(E, TARGETS)
    if canary is not None:
        return
    pc.bounded_native('C17.B/render-matrix', 'render_matrix.py', {},
                      'render_basic through real applications: endpoints with no / one-line / multi-line docstrings, tabular mappings '
                      'and sequences, JSON-like / HTML-like / plain / mismatched-bracket text, format parameter x Accept headers with '
                      'q-values and wildcards: 200, never raises, the format the statement asks for, valid JSON bodies',
                      '8 texts + 4 endpoints x 3 formats x 7 Accept headers', cases=92)
    pc.assumptions += ['A-json: json encoder/round trip', 'A-tbl: boltons Table accepts the tabular shapes (HTML-table clause assumed)',
                       'user serialisation hooks (to_dict/asdict/isoformat) are total',
                       'the JSON renderer in dev mode and the tabular renderer are summarised as returning a Response']


def concretise(pc, it):
    return {'script': 'render_case.py', 'case': {'values': VALUES}}
