"""C10 -- embedding a sub-application is equivalent to declaring its routes flat."""
import json
import os
import z3
from pyvc import z as Z
from pyvc.run import Item, native, HERE
from specs import merge_assoc

TARGETS = ['clastic.route.BoundRoute.__init__', 'clastic.application.SubApplication.bind_all',
           'clastic.middleware.core.merge_middlewares']

CANARIES = [
    {'name': 'rebound-route-keeps-inner-slash-mode', 'file': 'clastic/route.py',
     'old': "        self.slash_mode = app.slash_mode if inherit_slashes else route.slash_mode",
     'new': "        self.slash_mode = route.slash_mode if inherit_slashes else app.slash_mode"},
    {'name': 'route-resources-lose-to-binding-app', 'file': 'clastic/route.py',
     'old': "        self.resources = dict(app_resources)\n        self.resources.update(getattr(route, 'resources', {}))",
     'new': "        self.resources = dict(getattr(route, 'resources', {}))\n        self.resources.update(app_resources)"},
    {'name': 'prefix-applied-after-pattern', 'file': 'clastic/route.py',
     'old': "        self.pattern = prefix + route.pattern", 'new': "        self.pattern = route.pattern + prefix"},
    {'name': 'bind_all-drops-prefix', 'file': 'clastic/application.py',
     'old': "        kwargs['prefix'] = self.prefix\n", 'new': "        kwargs.setdefault('prefix', '')\n"},
    {'name': 'bind_all-skips-first-route', 'file': 'clastic/application.py',
     'old': "        for rt in self.app.routes:\n            if isinstance(rt, NullRoute):",
     'new': "        for rt in self.app.routes[1:]:\n            if isinstance(rt, NullRoute):"},
    {'name': 'error-handler-not-rebound', 'file': 'clastic/route.py',
     'old': "        if rebind_render_error:\n", 'new': "        if rebind_render_error and not callable(getattr(route, 'render_error', None)):\n"},
]
QUICK_CANARIES = 2


def build(pc, E, canary=None):
    pc.E = E
    pc.add_functions(E, TARGETS)
    if canary is not None:
        return
    import contracts.route as R
    R.verify_execute(pc, E)          # request-time precedence: the serving application's resources win
    for it in merge_assoc.lemmas():
        pc.add_item(it)
    # L: two levels of the K views compose to the flat view (pattern / resources); pure SMT over the views
    p1, p2, pat = z3.String('C10!p_outer'), z3.String('C10!p_inner'), z3.String('C10!pattern')
    pc.add_item(Item('C10.L/prefixes-compose', 'L', [], z3.Concat(p1, z3.Concat(p2, pat)) == z3.Concat(z3.Concat(p1, p2), pat),
                     note='outer prefix + (inner prefix + pattern) is the flat pattern'))
    S, O = Z.Str, Z.Obj
    Arr = z3.ArraySort(S, O)
    SetS = Z.SetSort(S)
    Do, Ao, Di, Ai, Dr, Ar = (z3.Const('C10!Do', SetS), z3.Const('C10!Ao', Arr), z3.Const('C10!Di', SetS),
                              z3.Const('C10!Ai', Arr), z3.Const('C10!Dr', SetS), z3.Const('C10!Ar', Arr))
    kk = z3.Const('C10!k', S)
    mem = z3.IsMember

    def over(d1, a1, d2, a2):      # (d1,a1) (+) (d2,a2), right wins  -- merged_resources of BoundRoute.__init__
        return z3.SetUnion(d1, d2), z3.Lambda([kk], z3.If(mem(kk, d2), z3.Select(a2, kk), z3.Select(a1, kk)))
    d1, a1 = over(Di, Ai, Dr, Ar)              # bound under the inner application
    d2, a2 = over(Do, Ao, d1, a1)              # re-bound under the outer application
    # at request time the serving application's own resources are laid over the bound route's (execute/dispatch)
    d3, a3 = over(d2, a2, Do, Ao)
    name = z3.Const('C10!n', S)
    pc.add_item(Item('C10.L/resources-all-levels', 'L', [], d3 == z3.SetUnion(Do, Di, Dr), note='the resources of all levels are offered'))
    pc.add_item(Item('C10.L/serving-application-wins', 'L', [mem(name, Do)], z3.Select(a3, name) == z3.Select(Ao, name),
                     note='the serving (outermost) application\'s value wins for a name it defines'))
    pc.add_item(Item('C10.L/inner-values-otherwise', 'L', [z3.Not(mem(name, Do)), mem(name, d1)],
                     z3.Select(a3, name) == z3.Select(a1, name), note='other names keep the value they had under the inner application'))
    # bounded stand-in: the nested application against an independently flattened declaration
    bound = {'seed': pc.seed, 'trees': 60 if pc.tier == 'quick' else 600}
    try:
        out = native('subapp_case.py', bound, repo_root=E.repo.root, timeout=1200)
    except Exception as e:
        pc.errors.append('bounded stand-in subapp_case crashed: %r' % (e,))
        out = None
    if out is not None:
        if out.get('harness_error'):
            pc.errors.append('bounded stand-in subapp_case: %s' % out['harness_error'][-400:])
        pc.bounded.append({'what': 'random trees of applications (depth <= 3; prefixes with/without trailing slash and "/"; shared and '
                                   'unshared middleware types; resources shared between the outermost and inner levels; slash modes, '
                                   'error handlers, render factories per level; inherit_slashes / rebind_render on and off) compared '
                                   'with an independently flattened declaration on ~20 requests each (status, body, Location)',
                           'bound': bound, 'cases': out.get('trees'), 'failures': out.get('count', 0), 'label': 'bounded'})
        if out.get('fails'):
            fn = 'replays/C10-bounded-flat-equivalence.json'
            os.makedirs(os.path.join(HERE, 'replays'), exist_ok=True)
            case = {'tree': out['first_failing_tree']} if out.get('first_failing_tree') else bound
            with open(os.path.join(HERE, fn), 'w') as f:
                json.dump({'property': 'C10', 'obligation': 'C10.B/flat-equivalence (bounded stand-in)',
                           'concretised_input': {'script': 'subapp_case.py', 'case': case}, 'native_observation':
                           {'why': out.get('why'), 'count': out.get('count')}}, f, indent=1)
            pc.violations.append(('C10.B/flat-equivalence', fn, True))
    pc.assumptions += [
        'equal views imply equal behaviour given that dispatch/execute read nothing else of a bound route (reads frame of dispatch: '
        'pattern/regex/converters, methods, slash_mode, is_branch, _execute, render_error, resources, bound_apps)',
        'render selection: an inner application WITHOUT a render factory takes the embedding application\'s (spec decision, follows '
        'the code; excluded from the bounded comparison); a name defined only by two inner levels is excluded as in the quantifier',
        'induction over nesting depth: BoundRoute.__init__ is verified for an arbitrary already-bound route (any bound_apps length), '
        'so each further level is one more application of the same contract (meta-argument)',
        'cast_to_route_factory (tuples to SubApplication/Route) is a call-site summary, exercised by the bounded stand-in only',
    ]


def concretise(pc, it):
    return {'script': 'subapp_case.py', 'case': {'seed': 1, 'trees': 150}}


def fallback(pc):
    return [{'script': 'subapp_case.py', 'case': {'seed': 1, 'trees': 150}}]
