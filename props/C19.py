"""C19 -- stats count every request once and keep bounded samples."""
from pyvc.run import native

TARGETS = ['clastic.middleware.stats.Reservoir.add', 'clastic.middleware.stats.Reservoir.resize',
           'clastic.middleware.stats.Reservoir.total_count',
           'clastic.middleware.stats.StatsMiddleware.request#Response',
           'clastic.middleware.stats.StatsMiddleware.request#HTTPExc']
CANARIES = [
    {'name': 'reservoir-replaces-beyond-data', 'file': 'clastic/middleware/stats.py',
     'old': "        if idx < len(self._data):", 'new': "        if idx <= len(self._data):"},
    {'name': 'reservoir-appends-by-total', 'file': 'clastic/middleware/stats.py',
     'old': "        if len(self._data) < self._cap:", 'new': "        if self._total_count <= self._cap + 1:"},
    {'name': 'resize-keeps-data', 'file': 'clastic/middleware/stats.py',
     'old': "        self._data = self._data[:new_size]", 'new': "        self._data = self._data[:new_size + 1]"},
    {'name': 'add-forgets-count', 'file': 'clastic/middleware/stats.py',
     'old': "        self._total_count += 1\n        # fill", 'new': "        self._total_count += 0\n        # fill"},
    {'name': 'stats-hit-only-on-success', 'file': 'clastic/middleware/stats.py',
     'old': "        finally:\n            end_time = time.time()", 'new': "        else:\n            end_time = time.time()"},
    {'name': 'stats-keyed-by-class-name', 'file': 'clastic/middleware/stats.py',
     'old': "            resp_status = repr(getattr(resp, 'status_code', resp.__class__.__name__))",
     'new': "            resp_status = repr(resp.__class__.__name__)"},
]
QUICK_CANARIES = 2

REQS = [{"path": "/ok"}, {"path": "/nope"}, {"path": "/getonly", "method": "POST"}, {"path": "/raise_http"},
        {"path": "/return_http"}, {"path": "/boom"}, {"path": "/redir"}, {"path": "/nb"}, {"path": "/noct"}]


def build(pc, E, canary=None):
    pc.E = E
    pc.add_functions(E, TARGETS)
    if canary is not None:
        return
    bounded_report(pc, E)
    bounded_reservoir(pc, E)
    pc.assumptions += ['floats (durations, timestamps) are opaque', 'random.random() is in [0, 1)',
                       'a content_type attribute of an exception, when present, is a str',
                       'attribute tables of Response / HTTPException instances by reflection of the installed Werkzeug']


def concretise(pc, it):
    if it is not None and 'StatsMiddleware' in (it.func or ''):
        return {'script': 'mw_case.py', 'case': {'mw': 'stats', 'requests': REQS}}
    if it is not None and 'Reservoir.add' in (it.func or ''):
        return {'script': 'reservoir_case.py', 'case': {'ops': [['new', 2], ['add', 3], ['resize', 10], ['add', 40]]}}
    return None


def bounded_report(pc, E):
    """bounded stand-in (labelled bounded): the reporting functions (_get_route_stats / get_stats_dict) are
    not under contract (boltons Stats.describe, datetime); the native harness checks that the reported
    count is the number of requests even when the sample store is smaller"""
    import json
    import os
    from pyvc.run import native, HERE
    case = {'mw': 'stats', 'requests': REQS}
    try:
        out = native('mw_case.py', case, repo_root=E.repo.root)
    except Exception as e:
        pc.errors.append('bounded stand-in (stats report) crashed: %r' % (e,))
        return
    pc.bounded.append({'what': 'stats middleware on a real application: per-route per-status counts for 8 request kinds; '
                               'reported count == requests served after the sample stores were shrunk below it',
                       'bound': 'fixed request list', 'cases': len(REQS) + 5, 'failures': 1 if out.get('fails') else 0,
                       'label': 'bounded'})
    if out.get('fails'):
        fn = 'replays/C19-bounded-report.json'
        os.makedirs(os.path.join(HERE, 'replays'), exist_ok=True)
        with open(os.path.join(HERE, fn), 'w') as f:
            json.dump({'property': 'C19', 'obligation': 'C19.B/stats-report (bounded stand-in)',
                       'concretised_input': {'script': 'mw_case.py', 'case': case}, 'native_observation': out}, f, indent=1)
        pc.violations.append(('C19.B/stats-report', fn, True))


def fallback(pc):
    return [{'script': 'mw_case.py', 'case': {'mw': 'stats', 'requests': REQS}},
            {'script': 'reservoir_case.py', 'case': {'ops': [['new', 2], ['add', 3], ['resize', 10], ['add', 40]]}},
            {'script': 'reservoir_case.py', 'case': {'ops': [['new', 10], ['add', 3], ['resize', 5], ['add', 40]]}}]


RESERVOIR_OPS = [
    [['new', 1], ['add', 50]],                                   # the smallest capacity is a capacity, not a flag
    [['new', 2], ['add', 3], ['resize', 10], ['add', 40]],       # grow after filling
    [['new', 10], ['add', 3], ['resize', 5], ['add', 40]],       # shrink above the fill level, then fill
    [['new', 8], ['add', 30], ['resize', 3], ['add', 30], ['resize', 6], ['add', 30]],
    [['new', 3], ['resize', 1], ['add', 9]],
]


def bounded_reservoir(pc, E):
    """bounded stand-in (labelled bounded): Reservoir.__init__ (capacity flags) is not under contract; fixed
    add/resize sequences are replayed natively: never more samples than the capacity, exact total count, only
    added values stored, no exception"""
    import json
    import os
    from pyvc.run import native, HERE
    bad = None
    for ops in RESERVOIR_OPS:
        try:
            out = native('reservoir_case.py', {'ops': ops}, repo_root=E.repo.root)
        except Exception as e:
            pc.errors.append('bounded stand-in (reservoir) crashed: %r' % (e,))
            return
        if out.get('fails') and bad is None:
            bad = (ops, out)
    pc.bounded.append({'what': 'Reservoir add/resize sequences incl. capacity 1 and shrink-above-fill-level', 'bound': 'fixed list',
                       'cases': len(RESERVOIR_OPS), 'failures': 1 if bad else 0, 'label': 'bounded'})
    if bad:
        fn = 'replays/C19-bounded-reservoir.json'
        os.makedirs(os.path.join(HERE, 'replays'), exist_ok=True)
        with open(os.path.join(HERE, fn), 'w') as f:
            json.dump({'property': 'C19', 'obligation': 'C19.B/reservoir (bounded stand-in)',
                       'concretised_input': {'script': 'reservoir_case.py', 'case': {'ops': bad[0]}}, 'native_observation': bad[1]}, f, indent=1)
        pc.violations.append(('C19.B/reservoir', fn, True))
