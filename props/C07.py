"""C07 -- trailing-slash redirects lead to the same resource in one hop."""
from pyvc.run import native

TARGETS = ['clastic.application.Application.dispatch', 'clastic.route.normalize_path#verify']
CANARIES = [
    {'name': 'redirect-in-rewrite-mode', 'file': 'clastic/application.py',
     'old': "                    if route.slash_mode == S_REDIRECT:", 'new': "                    if route.slash_mode != S_STRICT:"},
    {'name': 'redirect-before-method-check', 'file': 'clastic/application.py',
     'old': "            if not method_allowed:\n                dispatch_state.update_methods(route.methods)\n                continue\n",
     'new': "            if not method_allowed and not route.is_branch:\n                dispatch_state.update_methods(route.methods)\n                continue\n"},
    {'name': 'normalize-keeps-empty-segments', 'file': 'clastic/route.py',
     'old': "    ret = [x for x in path.split('/') if x]", 'new': "    ret = [x for x in path.split('/')[1:]]"},
    {'name': 'normalize-no-trailing-slash', 'file': 'clastic/route.py',
     'old': "    if is_branch:\n        ret.append('')", 'new': "    if is_branch and len(ret) > 2:\n        ret.append('')"},
]
OWN = [r'dispatch/ensures\[4\]', r'normalize_path']
QUICK_CANARIES = 2


def build(pc, E, canary=None):
    pc.E = E
    pc.add_functions(E, [t for t in TARGETS if '#' not in t])
    import contracts.route as R
    R.verify_normalize(pc, E)
    if canary is not None:
        return
    pc.assumptions += ['A-wz-url: url_quote/unquoting of PATH_INFO round-trips; redirect() sets Location to iri_to_uri(location)',
                       'what a browser does with the 30x is not decided']


def search(pc, it):
    out = native('app_search.py', {'budget': 1500 if pc.tier == 'quick' else 15000, 'seed': pc.seed, 'check': ['c07', 'c08']},
                 repo_root=pc.E.repo.root if pc.E else None, timeout=900)
    if out.get('found'):
        return {'script': 'app_case.py', 'case': out['found']['case']}
    return None


def refute(pc, unknown_items):
    pc.native_search(unknown_items, 'app_search.py',
                     {'budget': 1500 if pc.tier == 'quick' else 15000, 'seed': pc.seed, 'check': ['c07', 'c08']}, 'app_case.py')
