"""C07 -- trailing-slash redirects lead to the same resource in one hop."""
from pyvc.run import native

TARGETS = ['clastic.application.Application.dispatch', 'clastic.route.normalize_path#verify',
           'clastic.route.BoundRoute.__init__']
CANARIES = [
    {'name': 'redirect-in-rewrite-mode', 'file': 'clastic/application.py',
     'old': "                    if route.slash_mode == S_REDIRECT:", 'new': "                    if route.slash_mode != S_STRICT:"},
    {'name': 'redirect-before-method-check', 'file': 'clastic/application.py',
     'old': "            if not method_allowed:\n                dispatch_state.update_methods(route.methods)\n                continue\n",
     'new': "            if not method_allowed and not route.is_branch:\n                dispatch_state.update_methods(route.methods)\n                continue\n"},
    {'name': 'normalize-keeps-empty-segments', 'file': 'clastic/route.py',
     'old': "    ret = [x for x in path.split('/') if x]", 'new': "    ret = [x for x in path.split('/')[1:]]"},
    {'name': 'normalize-no-trailing-slash', 'file': 'clastic/route.py',
     'old': "    if is_branch:\n        ret.append('')", 'new': "    if is_branch and len(ret) > 2:\n        ret.append('')"},
]
OWN = [r'dispatch/ensures\[4\]', r'normalize_path', r'BoundRoute\.__init__.*/ensures\[1\]', r'^C07\.']
QUICK_CANARIES = 2


def build(pc, E, canary=None):
    pc.E = E
    pc.add_functions(E, [t for t in TARGETS if '#' not in t])
    import contracts.route as R
    R.verify_normalize(pc, E)
    pc._dispatch_support_done = {'normalize'}
    R.dispatch_support(pc, E)
    if canary is not None:
        return
    # T (by evaluation on the real module): the quoting applied to the query string is the identity on
    # every legal query character and on percent-escapes -- the statement says the query is kept
    import z3
    from pyvc.run import Item
    try:
        out = native('query_safe_case.py', {}, repo_root=E.repo.root)
    except Exception as e:
        out = {'harness_error': repr(e)}
    if out.get('harness_error'):
        pc.errors.append('query_safe_case: %s' % out['harness_error'][-300:])
    else:
        it = Item('C07.T/query-string-preserved', 'T', [], z3.BoolVal(not out.get('fails')),
                  note='url_quote(q, safe=_QUERY_SAFE) == q for every legal query character and percent-escape; '
                       'end-to-end redirects keep the query byte for byte' + (': ' + out.get('why', '') if out.get('fails') else ''))
        it.by = 'evaluation'
        it.concretise = lambda pc_, it_: {'script': 'query_safe_case.py', 'case': {}}
        pc.add_item(it)
    pc.assumptions += ['A-wz-url: url_quote/unquoting of PATH_INFO round-trips; redirect() sets Location to iri_to_uri(location)',
                       'what a browser does with the 30x is not decided']


def search(pc, it):
    out = native('app_search.py', {'budget': 1500 if pc.tier == 'quick' else 15000, 'seed': pc.seed, 'check': ['c07', 'c08']},
                 repo_root=pc.E.repo.root if pc.E else None, timeout=900)
    if out.get('found'):
        return {'script': 'app_case.py', 'case': out['found']['case']}
    return None


def refute(pc, unknown_items):
    pc.native_search(unknown_items, 'app_search.py',
                     {'budget': 1500 if pc.tier == 'quick' else 15000, 'seed': pc.seed, 'check': ['c07', 'c08']}, 'app_case.py')


def fallback(pc):
    return [{'script': 'app_search.py', 'case': {'budget': 2500, 'seed': pc.seed, 'check': ['c07', 'c08']}, 'replay_script': 'app_case.py'}]
