"""C11 -- binding is non-destructive, applications are isolated, add() is atomic."""
import z3
from pyvc import z as Z
from pyvc import modelx
from pyvc.run import Item

TARGETS = ['clastic.application.Application.add', 'clastic.route.BoundRoute.__init__',
           'clastic.application.SubApplication.bind_all']

CANARIES = [
    {'name': 'rebinding-extends-the-source-list', 'file': 'clastic/route.py',
     'old': "        self.bound_apps = getattr(route, 'bound_apps', []) + [app]",
     'new': "        self.bound_apps = getattr(route, 'bound_apps', [])\n        self.bound_apps.append(app)"},
    {'name': 'add-inserts-at-fixed-index', 'file': 'clastic/application.py',
     'old': "            self.routes.insert(index, br)\n            index += 1\n",
     'new': "            self.routes.insert(index, br)\n"},
    {'name': 'add-appends-ignoring-index', 'file': 'clastic/application.py',
     'old': "            self.routes.insert(index, br)\n", 'new': "            self.routes.append(br)\n"},
]
OWN = [r'Application\.add', r'BoundRoute\.__init__.*/ensures\[(5|6)\]', r'SubApplication\.bind_all', r'^C11\.', r'/frame$']
QUICK_CANARIES = 2


def build(pc, E, canary=None):
    pc.E = E
    pc.add_functions(E, TARGETS)
    # T (evaluation on the real AST): route factories bind eagerly -- a generator would bind lazily, while
    # add() is already inserting, and a failing bind would leave the table half-updated
    import ast
    mod = E.repo.module('clastic.application')
    lazy = []
    for cname, cnode in mod.classes.items():
        for item in cnode.body:
            if isinstance(item, ast.FunctionDef) and item.name in ('bind_all', 'bind'):
                if any(isinstance(n, (ast.Yield, ast.YieldFrom)) for n in ast.walk(item)):
                    lazy.append('%s.%s' % (cname, item.name))
    it = Item('C11.T/route-factories-bind-eagerly', 'T', [], z3.BoolVal(not lazy),
              note='bind_all/bind of the route factories are not generator functions' + ('; lazy: %s' % lazy if lazy else ''))
    it.by = 'evaluation'
    pc.add_item(it)
    if canary is not None:
        return
    # bounded stand-in (labelled bounded): binding is non-destructive on real applications
    import json, os
    from pyvc.run import native, HERE
    try:
        out = native('c11_add.py', {'scenario': 'rebind_isolation'}, repo_root=E.repo.root)
    except Exception as e:
        out = {'harness_error': repr(e)}
    if out.get('harness_error'):
        pc.errors.append('bounded stand-in c11_add: %s' % out['harness_error'][-300:])
    else:
        pc.bounded.append({'what': 'one application embedded in three others (with and without render factories); a route with its own '
                                   'middleware and resources bound successfully and unsuccessfully: routes, bound_apps, middleware and '
                                   'resource lists of every application involved stay as they were', 'bound': 'fixed scenario',
                           'cases': 1, 'failures': 1 if out.get('fails') else 0, 'label': 'bounded'})
        if out.get('fails'):
            fn = 'replays/C11-bounded-rebind-isolation.json'
            os.makedirs(os.path.join(HERE, 'replays'), exist_ok=True)
            with open(os.path.join(HERE, fn), 'w') as f:
                json.dump({'property': 'C11', 'obligation': 'C11.B/rebind-isolation (bounded stand-in)',
                           'concretised_input': {'script': 'c11_add.py', 'case': {'scenario': 'rebind_isolation'}},
                           'native_observation': out}, f, indent=1)
            pc.violations.append(('C11.B/rebind-isolation', fn, True))
    pc.assumptions += ['sha1 collision-freedom for generated-code file names (compile_code)']


def concretise(pc, it):
    m = it.model
    if m is None or 'Application.add' not in (it.func or ''):
        return None
    vals = {}
    for d in m.decls():
        vals[d.name()] = m[d]

    def seqlen(prefix):
        for k, v in vals.items():
            if k.startswith(prefix) and z3.is_expr(v) and z3.is_seq(v):
                n = z3.simplify(z3.Length(v))
                if z3.is_int_value(n):
                    return n.as_long()
        return None
    n_old = seqlen('self.routes!')
    n_new = seqlen('bound_routes!')
    idx = None
    isnone = False
    for k, v in vals.items():
        if k.startswith('index!') and z3.is_int_value(v):
            idx = v.as_long()
        if k.startswith('index_isnone!'):
            isnone = z3.is_true(v)
    if n_old is None or n_new is None:
        return None
    return {'script': 'c11_add.py', 'case': {'n_old': min(n_old, 6), 'n_new': max(min(n_new, 4), 2), 'index': None if isnone else idx}}


def fallback(pc):
    cases = [{'script': 'c11_add.py', 'case': {'scenario': 'rebind_isolation'}}]
    for idx in (None, 0, 1, -1, -2, 5):
        cases.append({'script': 'c11_add.py', 'case': {'n_old': 3, 'n_new': 2, 'index': idx}})
    cases.append({'script': 'c11_add.py', 'case': {'n_old': 3, 'n_new': 2, 'index': 1, 'failing': True}})
    cases.append({'script': 'subapp_case.py', 'case': {'seed': 1, 'trees': 60}})
    return cases
