"""C20 -- the Flaw failsafe page works for any start-up error text."""
import ast
import re
import z3
from pyvc.run import Item, native

TARGETS = ['clastic.flaw.create_app', 'clastic.flaw.get_flaw_info']
CANARIES = [
    {'name': 'parse-failure-escapes', 'file': 'clastic/flaw.py',
     'old': "        parsed_error = parsed_tb.to_dict()\n    except:\n        parsed_error = {}",
     'new': "        parsed_error = parsed_tb.to_dict()\n    except ValueError:\n        parsed_error = {}"},
    {'name': 'last-line-unguarded', 'file': 'clastic/flaw.py',
     'old': "    try:\n        last_line = tb_str.splitlines()[-1]\n    except:\n        last_line = u'Unknown error'",
     'new': "    last_line = tb_str.splitlines()[-1]"},
    {'name': 'error-text-not-in-context', 'file': 'clastic/flaw.py',
     'old': "            'tb_str': tb_str}", 'new': "            'tb_str': last_line}"},
    {'name': 'catch-all-route-dropped', 'file': 'clastic/flaw.py',
     'old': "              ('/<_ignored*>', get_flaw_info, 'flaw_tmpl')]", 'new': "              ]"},
    {'name': 'raw-filter-in-template', 'file': 'clastic/flaw.py',
     'old': "    <pre>{tb_str}</pre>", 'new': "    <pre>{tb_str|s}</pre>"},
    {'name': 'endpoint-needs-unknown-resource', 'file': 'clastic/flaw.py',
     'old': "def get_flaw_info(tb_str, parsed_error, all_mon_files, mon_files):",
     'new': "def get_flaw_info(tb_str, parsed_error, all_mon_files, mon_files, site_files):"},
]
QUICK_CANARIES = 2


def t_items(pc, E):
    mod = E.repo.module('clastic.flaw')
    tmpl = E.refl['modules']['clastic.flaw']['consts'].get('_FLAW_TEMPLATE', {}).get('v', '')
    raw = re.findall(r'\{[^{}]*\|s[^{}]*\}', tmpl)
    it = Item('C20.T/template-has-no-raw-filter', 'T', [], z3.BoolVal(bool(tmpl) and not raw),
              note='_FLAW_TEMPLATE references are auto-escaped by ashes (raw filters found: %r)' % raw)
    it.by = 'evaluation'
    pc.add_item(it)
    # instance of C01: every parameter of the endpoint is the name of a resource given to Application(...)
    fn = mod.funcs.get('get_flaw_info')
    ca = mod.funcs.get('create_app')
    keys = set()
    if ca is not None:
        for n in ast.walk(ca):
            if isinstance(n, ast.Assign) and any(isinstance(t, ast.Name) and t.id == 'resources' for t in n.targets) \
                    and isinstance(n.value, ast.Dict):
                keys = set(k.value for k in n.value.keys if isinstance(k, ast.Constant))
    params = [a.arg for a in fn.args.args] if fn is not None else None
    ok = params is not None and set(params) <= keys and not (fn.args.kwonlyargs or fn.args.vararg or fn.args.kwarg)
    it = Item('C20.T/endpoint-parameters-are-resources', 'T', [], z3.BoolVal(ok),
              note='get_flaw_info%r vs resources %r (instance of the C01 contract, C04: no reserved names)' % (params, sorted(keys)))
    it.by = 'evaluation'
    pc.add_item(it)


def build(pc, E, canary=None):
    pc.E = E
    pc.add_functions(E, TARGETS)
    import contracts.flaw as F
    F.verify_serve_error_app(pc, E)
    t_items(pc, E)
    if canary is not None:
        return
    out = native('flaw_case.py', {}, repo_root=E.repo.root, timeout=600)
    pc.bounded.append({'what': 'failsafe page for a catalogue of error texts x monitored file lists x paths/methods (native)',
                       'cases': out.get('cases'), 'failures': 1 if out.get('fails') else 0, 'label': 'bounded',
                       'bound': 'fixed catalogue'})
    if out.get('fails'):
        it = Item('C20.B/native-page-check', 'T', [], z3.BoolVal(False), note=out.get('why', ''))
        it.by = 'evaluation'
        it.extra['native_case'] = {'script': 'flaw_case.py', 'case': {}}
        pc.add_item(it)
    pc.assumptions += ['A-ashes: {x} references are HTML-escaped unless filtered |s; rendering is total',
                       'Application / StaticApplication / AshesRenderFactory constructors are total here as instances of '
                       'the C01/C04/C14 contracts (endpoint parameters are resource names: T obligation)',
                       'observation O1: _ParsedTB.from_string references the undefined name unicode; the failure is '
                       'swallowed by the bare except in create_app and the page shows the last line instead',
                       'the reloader process that hands the traceback to Flaw (server.py) is out of reach']


def concretise(pc, it):
    return {'script': 'flaw_case.py', 'case': {}}
