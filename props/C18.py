"""C18 -- the meta application never reveals secrets and always renders."""
import re
import z3
from pyvc.run import Item, native

TARGETS = ['clastic.meta.get_resource_info', 'clastic.middleware.cookie.SignedCookieMiddleware.__repr__',
           'clastic.meta.MetaApplication.get_main']
CANARIES = [
    {'name': 'redaction-only-on-prefix', 'file': 'clastic/meta.py',
     'old': "        if 'secret' in key:", 'new': "        if key.startswith('secret'):"},
    {'name': 'redacted-value-still-shown', 'file': 'clastic/meta.py',
     'old': "            trunc_val = '[REDACTED]'", 'new': "            trunc_val = '[REDACTED] ' + _trunc(repr(val))"},
    {'name': 'cookie-repr-shows-key', 'file': 'clastic/middleware/cookie.py',
     'old': "        return ('%s(arg_name=%r, cookie_name=%r)'\n                % (cn, self.arg_name, self.cookie_name))",
     'new': "        return ('%s(arg_name=%r, cookie_name=%r, key=%r)'\n                % (cn, self.arg_name, self.cookie_name, self.secret_key))"},
    {'name': 'peripheral-failure-escapes', 'file': 'clastic/meta.py',
     'old': "            except Exception as e:\n                peri_ctx = {'exc_content': repr(e)}",
     'new': "            except KeyError as e:\n                peri_ctx = {'exc_content': repr(e)}"},
]
QUICK_CANARIES = 2


def build(pc, E, canary=None):
    pc.E = E
    pc.add_functions(E, TARGETS)
    if canary is not None:
        return
    out = native('meta_case.py', {}, repo_root=E.repo.root, timeout=600)
    pc.bounded.append({'what': 'meta HTML/JSON pages of a host application with secret-named resources and a signed-cookie '
                               'middleware, mounted directly and embedded one level deeper (native)', 'cases': 4,
                       'failures': 1 if out.get('fails') else 0, 'label': 'bounded', 'bound': 'one fixed host application'})
    if out.get('fails'):
        it = Item('C18.B/native-page-check', 'T', [], z3.BoolVal(False), note=out.get('why', ''))
        it.by = 'evaluation'
        it.extra['native_case'] = {'script': 'meta_case.py', 'case': {}}
        pc.add_item(it)
    pc.assumptions += ['A-ashes: the meta templates escape; render_json is total on the context the get_*_info functions build',
                       'peripheral contexts are mappings', 'secrets leaking through user-defined middleware __repr__ or '
                       'through values of non-secret resources are outside the statement',
                       'render_main_page_html (second per-section try/except) is covered by the native page check only']


def concretise(pc, it):
    return {'script': 'meta_case.py', 'case': {}}


def fallback(pc):
    return [{'script': 'meta_case.py', 'case': {}}]
