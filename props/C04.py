"""C04 -- name conflicts and reserved-name misuse are rejected at construction."""
import z3
from pyvc import z as Z
from pyvc.run import Item

TARGETS = ['clastic.middleware.core.check_middleware', 'clastic.middleware.core.check_middlewares',
           'clastic.middleware.core.make_middleware_chain', 'clastic.route.BoundRoute.__init__']

CANARIES = [
    {'name': 'conflict-threshold-weakened', 'file': 'clastic/middleware/core.py',
     'old': "provided_by.items() if len(ps) > 1]", 'new': "provided_by.items() if len(ps) > 2]"},
    {'name': 'render_provides-not-scanned', 'file': 'clastic/middleware/core.py',
     'old': "        for arg in mw.render_provides:\n            provided_by[arg].append(mw)\n", 'new': ""},
    {'name': 'check_middleware-skipped', 'file': 'clastic/middleware/core.py',
     'old': "        check_middleware(mw)\n", 'new': ""},
    {'name': 'first-param-check-dropped', 'file': 'clastic/middleware/core.py',
     'old': "        if not get_arg_names(func)[0] == 'next':", 'new': "        if get_arg_names(func)[0] == 'nxt':"},
    {'name': 'next-allowed-in-render', 'file': 'clastic/middleware/core.py',
     'old': "    if 'next' in get_arg_names(render):", 'new': "    if 'next' in get_arg_names(render) and False:"},
]
# BoundRoute.__init__ and make_middleware_chain are shared proofs: C04 owns the one-source-per-name and reserved-name clauses
OWN = [r'check_middleware', r'make_middleware_chain/ensures\[[01]\]', r'make_middleware_chain/raises', r'BoundRoute\.__init__.*/ensures\[11\]',
       r'BoundRoute\.__init__.*/raises', r'^C04\.']
QUICK_CANARIES = 2


def build(pc, E, canary=None):
    pc.E = E
    pc.add_functions(E, TARGETS)
    if canary is not None:
        return
    # T: the reserved names are the six of the statement (evaluated on the imported module)
    consts = E.refl['modules']['clastic.route']['consts']
    got = tuple(x['v'] for x in consts['RESERVED_ARGS']['v'])
    want = {'request', '_application', '_route', '_dispatch_state', 'context', 'next'}
    ok = set(got) == want and len(got) == 6
    it = Item('C04.T/RESERVED_ARGS', 'T', [], z3.BoolVal(ok), note='RESERVED_ARGS == %r (by evaluation)' % (got,))
    it.by = 'evaluation'
    pc.add_item(it)
    pc.assumptions += ['provides tuples are duplicate-free (a name listed twice by one middleware is rejected by the '
                       'code, which is stricter than the statement)',
                       'a truthy request/endpoint/render attribute of a middleware is callable']


def refute(pc, unknown_items):
    pc.native_search(unknown_items, 'c01_search.py',
                     {'budget': 4000 if pc.tier == 'quick' else 40000, 'seed': pc.seed}, 'c01_case.py')


def fallback(pc):
    return [{'script': 'c01_search.py', 'case': {'budget': 3000, 'seed': pc.seed}, 'replay_script': 'c01_case.py'}]
