"""C16 -- signed cookies: only intact, unexpired, server-signed data is ever presented."""
import z3
from pyvc import z as Z
from pyvc.run import Item, native

TARGETS = ['clastic.middleware.cookie.JSONCookie.quote', 'clastic.middleware.cookie.JSONCookie.unquote',
           'clastic.middleware.cookie.JSONCookie.unserialize',
           'clastic.middleware.cookie.SignedCookieMiddleware.request#Response',
           'clastic.middleware.cookie.SignedCookieMiddleware.request#HTTPExc']
CANARIES = [
    {'name': 'unserialize-lets-errors-escape', 'file': 'clastic/middleware/cookie.py',
     'old': "        except Exception:\n            # the parent lets", 'new': "        except KeyError:\n            # the parent lets"},
    {'name': 'unquote-leaks-decoding-errors', 'file': 'clastic/middleware/cookie.py',
     'old': "        except Exception as e:\n            raise UnquoteError()", 'new': "        except KeyError as e:\n            raise UnquoteError()"},
    {'name': 'quote-drops-base64', 'file': 'clastic/middleware/cookie.py',
     'old': "        ret = b''.join(base64.b64encode(ret).splitlines()).strip()", 'new': "        ret = b''.join(ret.splitlines()).strip()"},
    {'name': 'cookie-not-saved', 'file': 'clastic/middleware/cookie.py',
     'old': "        cookie.save_cookie(response, **save_cookie_kwargs)\n", 'new': ""},
]
QUICK_CANARIES = 2
COOKIES = ["<good>", "<good-flipped>", "<good-truncated>", "a?b", "garbage", "", "?", "abc?k=v", "AAAA?k=AAAA", "%%%",
           "a?b=c&d", "QUJD?\u00e9=1"]


def build(pc, E, canary=None):
    pc.E = E
    pc.add_functions(E, TARGETS)
    if canary is not None:
        return
    pc.bounded_native('C16.B/cookie-sessions', 'cookie_case.py', {'cookies': COOKIES},
                      'one client against a real application with the signed-cookie middleware: store/read round trip for values '
                      'covering the base64 alphabet edge characters, non-ASCII and long text; clear(); tampered / truncated / '
                      'malformed / non-ASCII cookies answered 200 with an empty cookie', 'fixed catalogue', cases=len(COOKIES) + 10)
    # ground witnesses of the assumed contract on the dependency (A-sc): executed natively on every run
    try:
        out = native('cookie_witness.py', {}, repo_root=E.repo.root)
        ok = bool(out.get('ok'))
        it = Item('C16.A-sc/witnesses', 'T', [], z3.BoolVal(ok),
                  note='SecureCookie.unserialize raises on malformed input (%s)' % out.get('detail'))
        it.by = 'evaluation'
        pc.add_item(it)
    except Exception as e:
        pc.errors.append('witness script failed: %r' % e)
    pc.assumptions += ['A-mac: HMAC is an ideal MAC (unforgeability is cryptographic, not decided)',
                       'A-sc: SecureCookie.unserialize keeps items only under a valid MAC, else empty, and may raise '
                       '(witnesses executed); SecureCookie.save_cookie/load_cookie assumed',
                       'A-json: json/base64/utf-8 round trips',
                       'history clause (the presented dict equals the last stored one) follows by induction from the '
                       'round trip and A-mac; the induction is stated, not mechanised']


def concretise(pc, it):
    return {'script': 'cookie_case.py', 'case': {'cookies': COOKIES}}
