"""C08 -- every request gets a response; uncaught failures become the handler's 500."""
from pyvc.run import native

TARGETS = ['clastic.application.Application.dispatch']
CANARIES = [
    {'name': 'except-narrowed', 'file': 'clastic/application.py',
     'old': "            except Exception as exc:\n                ret = exc",
     'new': "            except ValueError as exc:\n                ret = exc"},
    {'name': 'non-response-check-dropped', 'file': 'clastic/application.py',
     'old': "                if not isinstance(ret, BaseResponse):\n                    msg",
     'new': "                if False:\n                    msg"},
    {'name': 'render_error-fallback-removed', 'file': 'clastic/application.py',
     'old': "            except Exception:\n                ret = default_render_error(**error_params)",
     'new': "            except NameError:\n                ret = default_render_error(**error_params)"},
]
OWN = [r'dispatch/ensures\[0\]', r'dispatch/raises', r'dispatch/loop.*/(init|preserve)\[[017]\]', r'dispatch/loop.*/post\[[08]\]',
       r'match_path/raises', r'render_error/raises', r'default_render_error/raises', r'^C08\.']
QUICK_CANARIES = 2


def build(pc, E, canary=None):
    pc.E = E
    pc.add_functions(E, TARGETS)
    import contracts.route as R
    R.dispatch_support(pc, E)
    if canary is not None:
        return
    unprintable(pc, E)
    pc.assumptions += [
        'the outcome of executing a route is an uninterpreted function of the route within one request',
        'A-wz-resp: constructing a Response / assigning .data does not raise for encodable text (exercised by the bounded '
        'unprintable-messages suite)',
        'error-type constructors of the error handler (not_found_type etc.) do not raise',
        'user render_error functions return Responses (or raise)',
        'boltons ExceptionInfo.from_current()/repr never raise',
    ]


MESSAGES = ['\udc80 lone surrogate', 'nul\x00byte', '\u00e9\u4e2d\U0001f600', 'x' * 200000, '{braces} %s %(k)s', '']


def unprintable(pc, E):
    """bounded stand-in (labelled bounded): uncaught exceptions with unprintable / huge / odd messages
    still become complete 500 responses in every negotiated format (the Werkzeug response constructor
    is an assumed contract in the K part; this exercises it)"""
    import json
    import os
    from pyvc.run import HERE
    n = 0
    bad = []
    for msg in MESSAGES:
        for accept in (None, 'text/plain', 'text/html', 'application/json', 'application/xml', '*/*'):
            for handler in ('default', 'debug', 'broken_render'):
                case = {'routes': [{'pattern': '/a', 'behavior': 'raise', 'message': msg}], 'handler': handler,
                        'request': {'path': '/a', 'accept': accept}, 'check': ['c08']}
                n += 1
                try:
                    out = native('app_case.py', case, repo_root=E.repo.root)
                except Exception as e:
                    pc.errors.append('bounded stand-in (unprintable messages) crashed: %r' % (e,))
                    return
                if out.get('fails'):
                    bad.append({'case': case, 'why': out.get('why')})
    for beh in ('ok_base', 'raise_http_odd', 'raise_http', 'return_http', 'nonresponse'):
        for accept in (None, 'text/html', 'application/json', 'application/xml'):
            for handler in ('default', 'debug'):
                case = {'routes': [{'pattern': '/a', 'behavior': beh}], 'handler': handler,
                        'request': {'path': '/a', 'accept': accept}, 'check': ['c08']}
                n += 1
                try:
                    out = native('app_case.py', case, repo_root=E.repo.root)
                except Exception as e:
                    pc.errors.append('bounded stand-in (behaviours) crashed: %r' % (e,))
                    return
                if out.get('fails'):
                    bad.append({'case': case, 'why': out.get('why')})
    pc.bounded.append({'what': 'uncaught exception messages {lone surrogate, NUL, non-BMP, 200 kB, format directives, empty} '
                               'x 6 Accept values x 3 error handlers: a complete 500 response each time',
                       'bound': 'fixed list', 'cases': n, 'failures': len(bad), 'label': 'bounded'})
    if bad:
        fn = 'replays/C08-bounded-unprintable.json'
        os.makedirs(os.path.join(HERE, 'replays'), exist_ok=True)
        c0 = dict(bad[0]['case'])
        if len(c0['routes'][0].get('message', '')) > 1000:
            c0['routes'][0]['message'] = c0['routes'][0]['message'][:1000]
        with open(os.path.join(HERE, fn), 'w') as f:
            json.dump({'property': 'C08', 'obligation': 'C08.B/unprintable-messages (bounded stand-in)',
                       'concretised_input': {'script': 'app_case.py', 'case': bad[0]['case']},
                       'failing_cases': [b['why'] for b in bad[:5]]}, f, indent=1)
        pc.violations.append(('C08.B/unprintable-messages', fn, True))


def search(pc, it):
    out = native('app_search.py', {'budget': 1500 if pc.tier == 'quick' else 15000, 'seed': pc.seed, 'check': ['c08']},
                 repo_root=pc.E.repo.root if pc.E else None, timeout=900)
    if out.get('found'):
        return {'script': 'app_case.py', 'case': out['found']['case']}
    return None


def refute(pc, unknown_items):
    pc.native_search(unknown_items, 'app_search.py',
                     {'budget': 1500 if pc.tier == 'quick' else 15000, 'seed': pc.seed, 'check': ['c08']}, 'app_case.py')


def fallback(pc):
    return [{'script': 'app_search.py', 'case': {'budget': 2500, 'seed': pc.seed, 'check': ['c08']}, 'replay_script': 'app_case.py'}]
