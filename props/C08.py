"""C08 -- every request gets a response; uncaught failures become the handler's 500."""
from pyvc.run import native

TARGETS = ['clastic.application.Application.dispatch']
CANARIES = [
    {'name': 'except-narrowed', 'file': 'clastic/application.py',
     'old': "            except Exception as exc:\n                ret = exc",
     'new': "            except ValueError as exc:\n                ret = exc"},
    {'name': 'non-response-check-dropped', 'file': 'clastic/application.py',
     'old': "                if not isinstance(ret, BaseResponse):\n                    msg",
     'new': "                if False:\n                    msg"},
    {'name': 'render_error-fallback-removed', 'file': 'clastic/application.py',
     'old': "            except Exception:\n                ret = default_render_error(**error_params)",
     'new': "            except NameError:\n                ret = default_render_error(**error_params)"},
]
OWN = [r'dispatch/ensures\[0\]', r'dispatch/raises', r'dispatch/loop.*/(init|preserve)\[[017]\]', r'dispatch/loop.*/post\[[08]\]']
QUICK_CANARIES = 2


def build(pc, E, canary=None):
    pc.E = E
    pc.add_functions(E, TARGETS)
    if canary is not None:
        return
    pc.assumptions += [
        'the outcome of executing a route is an uninterpreted function of the route within one request',
        'error-type constructors of the error handler (not_found_type etc.) do not raise',
        'user render_error functions return Responses (or raise)',
        'boltons ExceptionInfo.from_current()/repr never raise',
    ]


def search(pc, it):
    out = native('app_search.py', {'budget': 1500 if pc.tier == 'quick' else 15000, 'seed': pc.seed, 'check': ['c08']},
                 repo_root=pc.E.repo.root if pc.E else None, timeout=900)
    if out.get('found'):
        return {'script': 'app_case.py', 'case': out['found']['case']}
    return None


def refute(pc, unknown_items):
    pc.native_search(unknown_items, 'app_search.py',
                     {'budget': 1500 if pc.tier == 'quick' else 15000, 'seed': pc.seed, 'check': ['c08']}, 'app_case.py')
