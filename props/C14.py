"""C14 -- static serving never leaves its roots and serves files faithfully."""
TARGETS = ['clastic.static.find_file', 'clastic.static.build_file_response',
           'clastic.static.StaticApplication.get_file_response']
CANARIES = [
    {'name': 'find_file-pardir-check-dropped', 'file': 'clastic/static.py',
     'old': "        if rel_path.startswith(os.pardir):\n            raise ValueError('attempted to access beyond root directory')", 'new': "        pass"},
    {'name': 'find_file-absolute-check-dropped', 'file': 'clastic/static.py',
     'old': "        if rel_path.startswith('/'):\n            raise ValueError('expected relative path, not %r' % path)", 'new': "        pass"},
    {'name': 'find_file-joins-raw-path', 'file': 'clastic/static.py',
     'old': "        full_path = pjoin(sr, rel_path)", 'new': "        full_path = pjoin(sr, path)"},
    {'name': 'sniffing-outside-guard', 'file': 'clastic/static.py',
     'old': "    except (ValueError, IOError, OSError):\n        # the file vanished or became unreadable after it was opened\n        file_obj.close()\n        raise Forbidden(is_breaking=False)",
     'new': "    except (ValueError,):\n        file_obj.close()\n        raise Forbidden(is_breaking=False)"},
    {'name': 'file-not-closed-on-error', 'file': 'clastic/static.py',
     'old': "        # the file vanished or became unreadable after it was opened\n        file_obj.close()\n", 'new': ""},
    {'name': 'breaking-forbidden', 'file': 'clastic/static.py',
     'old': "        except (ValueError, IOError, OSError):  # TODO: winnow this down\n            raise Forbidden(is_breaking=False)",
     'new': "        except (ValueError, IOError, OSError):  # TODO: winnow this down\n            raise Forbidden()"},
    {'name': 'wrong-content-length', 'file': 'clastic/static.py',
     'old': "    resp.content_length = fsize", 'new': "    resp.content_length = fsize + 1"},
]
QUICK_CANARIES = 2
REQS = ["/static/a.txt", "/static/sub/b.bin", "/static/noext", "/static/empty", "/static/../secret.txt",
        "/static//etc/passwd", "/static/sub/../a.txt", "/static/missing", "/static/sub"]


def build(pc, E, canary=None):
    pc.E = E
    pc.add_functions(E, TARGETS)
    if canary is not None:
        return
    pc.assumptions += ['A-np: posixpath.normpath leaves ".." only as a leading run; joining a root with a relative path '
                       'without ".." components stays inside the root; isfile never raises (bounded stand-in not built)',
                       'A-os: any filesystem call may raise OSError/ValueError; no symlinks',
                       'Last-Modified / If-Modified-Since date round trip is Werkzeug\'s']


def concretise(pc, it):
    f = (it.func or '') if it is not None else ''
    fault = None
    note = (it.note or '') if it is not None else ''
    for call in ('seek', 'tell', 'read', 'getsize', 'getmtime', 'open'):
        if call in note or call in str(it.extra.get('exception', '')):
            fault = {'call': call}
            break
    if 'NO_FILE_LEFT_OPEN' in note:
        fault = {'call': 'getsize'}
    return {'script': 'static_case.py', 'case': {'requests': REQS, 'fault': fault}}


def fallback(pc):
    """native cases tried when the deductive verdict is undecided"""
    cases = [{'script': 'static_case.py', 'case': {'requests': REQS, 'fault': None, 'revalidate': True}}]
    for call in ('read', 'getsize', 'getmtime', 'seek'):
        cases.append({'script': 'static_case.py', 'case': {'requests': REQS, 'fault': {'call': call}}})
    return cases
