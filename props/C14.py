"""C14 -- static serving never leaves its roots and serves files faithfully."""
TARGETS = ['clastic.static.find_file', 'clastic.static.build_file_response',
           'clastic.static.StaticApplication.get_file_response']
CANARIES = [
    {'name': 'find_file-pardir-check-dropped', 'file': 'clastic/static.py',
     'old': "        if rel_path.startswith(os.pardir):\n            raise ValueError('attempted to access beyond root directory')", 'new': "        pass"},
    {'name': 'find_file-absolute-check-dropped', 'file': 'clastic/static.py',
     'old': "        if rel_path.startswith('/'):\n            raise ValueError('expected relative path, not %r' % path)", 'new': "        pass"},
    {'name': 'find_file-joins-raw-path', 'file': 'clastic/static.py',
     'old': "        full_path = pjoin(sr, rel_path)", 'new': "        full_path = pjoin(sr, path)"},
    {'name': 'sniffing-outside-guard', 'file': 'clastic/static.py',
     'old': "    except (ValueError, IOError, OSError):\n        # the file vanished or became unreadable after it was opened\n        file_obj.close()\n        raise Forbidden(is_breaking=False)",
     'new': "    except (ValueError,):\n        file_obj.close()\n        raise Forbidden(is_breaking=False)"},
    {'name': 'file-not-closed-on-error', 'file': 'clastic/static.py',
     'old': "        # the file vanished or became unreadable after it was opened\n        file_obj.close()\n", 'new': ""},
    {'name': 'breaking-forbidden', 'file': 'clastic/static.py',
     'old': "        except (ValueError, IOError, OSError):  # TODO: winnow this down\n            raise Forbidden(is_breaking=False)",
     'new': "        except (ValueError, IOError, OSError):  # TODO: winnow this down\n            raise Forbidden()"},
    {'name': 'wrong-content-length', 'file': 'clastic/static.py',
     'old': "    resp.content_length = fsize", 'new': "    resp.content_length = fsize + 1"},
]
QUICK_CANARIES = 2
REQS = ["/static/a.txt", "/static/sub/b.bin", "/static/noext", "/static/empty", "/static/../secret.txt",
        "/static//etc/passwd", "/static/sub/../a.txt", "/static/missing", "/static/sub"]


def build(pc, E, canary=None):
    pc.E = E
    pc.add_functions(E, TARGETS)
    if canary is not None:
        return
    bounded_serving(pc, E)
    pc.assumptions += ['A-np: posixpath.normpath leaves ".." only as a leading run; joining a root with a relative path '
                       'without ".." components stays inside the root; isfile never raises (bounded stand-in not built)',
                       'A-os: any filesystem call may raise OSError/ValueError; no symlinks',
                       'Last-Modified / If-Modified-Since date round trip is Werkzeug\'s']


def concretise(pc, it):
    f = (it.func or '') if it is not None else ''
    fault = None
    note = (it.note or '') if it is not None else ''
    for call in ('seek', 'tell', 'read', 'getsize', 'getmtime', 'open'):
        if call in note or call in str(it.extra.get('exception', '')):
            fault = {'call': call}
            break
    if 'NO_FILE_LEFT_OPEN' in note:
        fault = {'call': 'getsize'}
    return {'script': 'static_case.py', 'case': {'requests': REQS, 'fault': fault}}


def fallback(pc):
    """native cases tried when the deductive verdict is undecided"""
    cases = [{'script': 'static_case.py', 'case': {'requests': REQS, 'fault': None, 'revalidate': True}}]
    for call in ('read', 'getsize', 'getmtime', 'seek'):
        cases.append({'script': 'static_case.py', 'case': {'requests': REQS, 'fault': {'call': call}}})
    for call in ('getsize', 'getmtime'):        # the file vanished after open(): FileNotFoundError, a subclass of OSError
        cases.append({'script': 'static_case.py', 'case': {'requests': REQS, 'fault': {'call': call, 'errno': 'ENOENT'}}})
    return cases


def bounded_serving(pc, E):
    """bounded stand-in (labelled bounded): real files served through a real application -- bytes, Content-Length,
    confinement for the request catalogue, and conditional requests (If-Modified-Since equal to the served
    Last-Modified is a 304 without body, for mtimes with fractional seconds); the datetime arithmetic of
    get_file_mtime / http_date is a dependency the contracts treat as opaque"""
    import json
    import os
    from pyvc.run import native, HERE
    case = {'requests': REQS, 'fault': None, 'revalidate': True}
    try:
        out = native('static_case.py', case, repo_root=E.repo.root)
    except Exception as e:
        pc.errors.append('bounded stand-in (static serving) crashed: %r' % (e,))
        return
    if out.get('harness_error'):
        pc.errors.append('bounded stand-in (static serving): %s' % out['harness_error'][-300:])
    pc.bounded.append({'what': 'real files through StaticApplication: request catalogue (bytes, length, confinement) and '
                               'revalidation with the served Last-Modified for mtime fractions .0/.25/.5/.75',
                       'bound': '%d requests + 4 revalidations' % len(REQS), 'cases': len(REQS) + 4,
                       'failures': 1 if out.get('fails') else 0, 'label': 'bounded'})
    if out.get('fails'):
        fn = 'replays/C14-bounded-serving.json'
        os.makedirs(os.path.join(HERE, 'replays'), exist_ok=True)
        with open(os.path.join(HERE, fn), 'w') as f:
            json.dump({'property': 'C14', 'obligation': 'C14.B/static-serving (bounded stand-in)',
                       'concretised_input': {'script': 'static_case.py', 'case': case}, 'native_observation': out}, f, indent=1)
        pc.violations.append(('C14.B/static-serving', fn, True))
