"""C03 -- middlewares nest in the documented M-shaped order."""
import z3
from pyvc import z as Z
from pyvc.run import Item
from specs import template
from bounded import chain_text
import contracts.core as core

TARGETS = ['clastic.middleware.core.merge_middlewares', 'clastic.middleware.core.Middleware.__eq__',
           'clastic.middleware.core.Middleware.__ne__', 'clastic.middleware.core.make_middleware_chain',
           'clastic.sinter.make_chain']

CANARIES = [
    {'name': 'merge-starts-from-old', 'file': 'clastic/middleware/core.py',
     'old': "    merged = list(new)", 'new': "    merged = list(old)"},
    {'name': 'merge-dedups-non-unique', 'file': 'clastic/middleware/core.py',
     'old': "        if mw.unique and mw in merged:", 'new': "        if mw in merged:"},
    {'name': 'merge-never-rejects', 'file': 'clastic/middleware/core.py',
     'old': "            if mw.reorderable:\n                continue", 'new': "            if mw.reorderable or True:\n                continue"},
    {'name': 'template-render-always', 'file': 'clastic/middleware/core.py',
     'old': "    if isinstance(context, BaseResponse):\n        resp = context\n    else:\n        resp = render({render_args})",
     'new': "    resp = render({render_args})"},
    {'name': 'template-swallows-endpoint-error', 'file': 'clastic/middleware/core.py',
     'old': "    context = endpoint({endpoint_args})\n",
     'new': "    try:\n        context = endpoint({endpoint_args})\n    except Exception as e:\n        context = e\n"},
    {'name': 'endpoint-chain-uses-request-middlewares', 'file': 'clastic/middleware/core.py',
     'old': "for mw in middlewares if mw.endpoint]", 'new': "for mw in middlewares if mw.request]"},
    {'name': 'eq-always-true', 'file': 'clastic/middleware/core.py',
     'old': "        return type(self) == type(other)", 'new': "        return isinstance(other, Middleware)"},
]
# make_middleware_chain is shared with C01/C04: its reserved-name and unresolved-argument clauses are theirs
OWN = [r'^(?!middleware\.core\.make_middleware_chain/(ensures\[[0-3]\]|raises))']
QUICK_CANARIES = 2


def lemmas():
    old = z3.Const('L3!old', core.SeqO)
    new = z3.Const('L3!new', core.SeqO)
    i = z3.Int('L3!i')
    out = [Item('C03.L/outer-first/base', 'L', [], z3.PrefixOf(new, core.MERGE(old, new, 0)),
                note='the new (outer) list is a prefix of the merged list'),
           Item('C03.L/outer-first/step', 'L', [i >= 0, i < z3.Length(old), z3.PrefixOf(new, core.MERGE(old, new, i))],
                z3.PrefixOf(new, core.MERGE(old, new, i + 1))),
           # a unique type already present is never appended again
           Item('C03.L/unique-once/step', 'L',
                [i >= 0, i < z3.Length(old), z3.Select(core._HU, old[i]),
                 core.HASTY(core.MERGE(old, new, i), core.MW_TY(old[i]))],
                core.MERGE(old, new, i + 1) == core.MERGE(old, new, i))]
    return out


def build(pc, E, canary=None):
    pc.E = E
    pc.add_functions(E, TARGETS)
    template.items(pc, E)
    if canary is not None:
        return
    for it in lemmas():
        pc.add_item(it)
    chain_text.run(pc, E)
    # bounded stand-in (labelled bounded): instrumented middlewares on a real application
    import json, os
    from pyvc.run import native, HERE
    try:
        out = native('onion_case.py', {}, repo_root=E.repo.root)
    except Exception as e:
        out = {'harness_error': repr(e)}
    if out.get('harness_error'):
        pc.errors.append('bounded stand-in onion_case: %s' % out['harness_error'][-300:])
    else:
        pc.bounded.append({'what': 'traces of instrumented request/endpoint/render middlewares on a real application: full M shape, '
                                   'render skipped for a BaseResponse, unwinding on an exception, catch-all (404/405) route wrapped, '
                                   'three nesting levels with unique and non-unique types', 'bound': '6 scenarios', 'cases': 6,
                           'failures': out.get('count', 0), 'label': 'bounded'})
        if out.get('fails'):
            fn = 'replays/C03-bounded-onion.json'
            os.makedirs(os.path.join(HERE, 'replays'), exist_ok=True)
            with open(os.path.join(HERE, fn), 'w') as f:
                json.dump({'property': 'C03', 'obligation': 'C03.B/onion (bounded stand-in)',
                           'concretised_input': {'script': 'onion_case.py', 'case': {}}, 'native_observation': out}, f, indent=1)
            pc.violations.append(('C03.B/onion', fn, True))
    pc.assumptions += [
        'A-exec: the nested closures compiled from the generated text call funcs[k] once with next bound to the '
        'level k+1 closure and return/raise what it returns/raises (Python semantics of nested def; the text shape '
        'is validated by the bounded stand-in)',
        'behaviour of user middleware code itself is not decided',
    ]


def fallback(pc):
    from props.C02 import GENERAL_CASE
    return [{'script': 'c01_case.py', 'case': GENERAL_CASE}]
