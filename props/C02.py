"""C02 -- each injected argument comes from its one declared source."""
import z3
from pyvc import z as Z
from pyvc.run import Item
from specs import template, source_lemma
from bounded import chain_text

TARGETS = ['clastic.sinter.inject', 'clastic.sinter.make_chain', 'clastic.sinter.chain_argspec']

# the dispatch loop contract is proof support shared with C06-C08; C02's own clauses are
# the at-call obligations, execute/execute_error/inject, the lemmas and the template/text checks
OWN = [r'at-call', r'/frame$', r'BoundRoute\.execute', r'sinter\.inject', r'sinter\.make_chain', r'sinter\.chain_argspec', r'^C02\.', r'^bounded:', r'BoundRoute\.__init__.*/ensures\[3\]']

CANARIES = [
    {'name': 'execute-resources-override-caller', 'file': 'clastic/route.py',
     'old': "        injectables.update(self.resources)\n        injectables.update(kwargs)\n        return inject(self._execute, injectables)",
     'new': "        injectables.update(kwargs)\n        injectables.update(self.resources)\n        return inject(self._execute, injectables)"},
    {'name': 'inject-defaults-override-injectables', 'file': 'clastic/sinter.py',
     'old': "    all_kwargs = fb.get_defaults_dict()\n    all_kwargs.update(injectables)\n",
     'new': "    all_kwargs = dict(injectables)\n    all_kwargs.update(fb.get_defaults_dict())\n"},
    {'name': 'dispatch-application-is-route-app', 'file': 'clastic/application.py',
     'old': "                           _application=self,\n", 'new': "                           _application=self._null_route,\n"},
    {'name': 'error-renderer-gets-no-error', 'file': 'clastic/application.py',
     'old': "error_params = dict(params, _error=ret)", 'new': "error_params = dict(params, _error=None)"},
    {'name': 'inject-passes-everything', 'file': 'clastic/sinter.py',
     'old': "    if fb.varkw:\n        return f(**all_kwargs)", 'new': "    if fb.varkw or len(all_kwargs) > 3:\n        return f(**all_kwargs)"},
    {'name': 'template-render-gets-endpoint-args', 'file': 'clastic/middleware/core.py',
     'old': "        resp = render({render_args})", 'new': "        resp = render({endpoint_args})"},
    {'name': 'execute_error-route-is-app', 'file': 'clastic/route.py',
     'old': "        injectables = {'_route': self,\n                       '_error': _error,",
     'new': "        injectables = {'_route': self.bound_apps[-1],\n                       '_error': _error,"},
]
QUICK_CANARIES = 2

GENERAL_CASE = {
    'level': 'route',
    'mws': [{'request': {'pos': ['next', 'ra', 'u0', 'request']}, 'provides': ['p']},
            {'endpoint': {'pos': ['next', 'p', '_route']}, 'endpoint_provides': ['q']},
            {'render': {'pos': ['next', 'context', 'p', '_application']}, 'render_provides': ['r']}],
    'endpoint': {'pos': ['u0', 'ra', 'p', 'q', 'request', '_route', '_application', '_dispatch_state', 'dflt'],
                 'defaults': ['dflt']},
    'render': {'pos': ['context', 'r', 'p', 'u0']},
    'resources': ['ra', 'rb'], 'url': ['u0']}


# keyword-only parameters (with and without a default) whose names a resource, the URL and a middleware offer
KWONLY_CASE = {
    'level': 'route',
    'mws': [{'request': {'pos': ['next'], 'kwonly': ['ra', 'request'], 'kwdefaults': ['ra']}, 'provides': ['p']}],
    'endpoint': {'pos': ['u0'], 'kwonly': ['ra', 'p', 'rb'], 'kwdefaults': ['ra', 'p']},
    'render': {'pos': ['context'], 'kwonly': ['rb', 'u0'], 'kwdefaults': ['u0']},
    'resources': ['ra', 'rb'], 'url': ['u0']}


def build(pc, E, canary=None):
    pc.E = E
    pc.add_functions(E, TARGETS)
    import contracts.route as R
    R.verify_execute(pc, E)
    pc._dispatch_support_done = {'execute'}
    R.dispatch_support(pc, E)
    # what a re-bound route offers as resources (C10's view clause) decides what execute can hand on
    pc.add_functions(E, ['clastic.route.BoundRoute.__init__'])
    heavy = canary is None or canary['file'].endswith('application.py')
    if heavy:
        pc.add_functions(E, ['clastic.application.Application.dispatch#C02'])
    template.items(pc, E, prefix='C02.T')
    if canary is not None:
        return
    reserved = [x['v'] for x in E.refl['modules']['clastic.route']['consts']['RESERVED_ARGS']['v']] + ['_route', '_error']
    for it in source_lemma.lemmas(reserved):
        pc.add_item(it)
    chain_text.run(pc, E)
    pc.assumptions += [
        'A-exec: Python resolves a name in the generated nested defs to the innermost enclosing def that declares it; '
        'together with `name=name` keywords (bounded stand-in on the real text) and C04 (one provider per name) the '
        'value a chain function receives under a provided name is the one its provider handed to next()',
        'WF: URL binding names, resource names and built-in names are pairwise disjoint (C04: check_middlewares '
        'postcondition at bind time); resources are not rebound between bind and request',
        'the lemma hypotheses mirror the postconditions of dispatch / execute / inject by hand (same maps, same order)',
        'A-fb (get_fb / FunctionBuilder) as in C01',
    ]


def concretise(pc, it):
    return {'script': 'c01_case.py', 'case': GENERAL_CASE}


def refute(pc, unknown_items):
    pc.native_search(unknown_items, 'c01_search.py',
                     {'budget': 3000 if pc.tier == 'quick' else 30000, 'seed': pc.seed}, 'c01_case.py')


def fallback(pc):
    return [{'script': 'c01_case.py', 'case': GENERAL_CASE},
            {'script': 'c01_case.py', 'case': KWONLY_CASE},
            {'script': 'c01_search.py', 'case': {'budget': 3000, 'seed': pc.seed}, 'replay_script': 'c01_case.py'}]
