"""C01 -- bind-time dependency check is sound and complete."""
import z3
from pyvc import z as Z
from pyvc import modelx
from pyvc.run import Item
from specs import chain_lemmas
from specs.sig import *   # noqa
from bounded import chain_text

TARGETS = ['clastic.sinter.chain_argspec', 'clastic.sinter.make_chain', 'clastic.sinter.inject',
           'clastic.middleware.core.make_middleware_chain']

CANARIES = [
    {'name': 'execute-forgets-route-resources', 'file': 'clastic/route.py',
     'old': "        injectables.update(self.resources)\n        injectables.update(kwargs)\n        return inject(self._execute, injectables)",
     'new': "        injectables.update(kwargs)\n        return inject(self._execute, injectables)"},
    {'name': 'argspec-update-before-subtract', 'file': 'clastic/sinter.py',
     'old': "        required_sofar |= set(undefaulted) - provided_sofar\n        provided_sofar.update(p)\n",
     'new': "        provided_sofar.update(p)\n        required_sofar |= set(undefaulted) - provided_sofar\n"},
    {'name': 'make_chain-args-all-optional', 'file': 'clastic/sinter.py',
     'old': "args = reqs | (preprovided & opts)", 'new': "args = reqs | opts"},
    {'name': 'make_chain-unresolved-from-opts', 'file': 'clastic/sinter.py',
     'old': "unresolved = tuple(reqs - preprovided)", 'new': "unresolved = tuple(reqs - preprovided - opts)"},
    {'name': 'mmc-endpoint-phase-loses-request-provides', 'file': 'clastic/middleware/core.py',
     'old': "ep_avail = req_avail | req_all_provides", 'new': "ep_avail = req_avail"},
    {'name': 'mmc-context-available-to-request-phase', 'file': 'clastic/middleware/core.py',
     'old': "req_avail = set(preprovided) - set(['next', 'context'])", 'new': "req_avail = set(preprovided) - set(['next'])"},
    {'name': 'mmc-render-unresolved-not-raised', 'file': 'clastic/middleware/core.py',
     'old': "    if rn_unres:\n", 'new': "    if rn_unres and not rn_funcs:\n"},
    {'name': 'inject-defaults-override-injectables', 'file': 'clastic/sinter.py',
     'old': "    all_kwargs = fb.get_defaults_dict()\n    all_kwargs.update(injectables)\n",
     'new': "    all_kwargs = dict(injectables)\n    all_kwargs.update(fb.get_defaults_dict())\n"},
]
QUICK_CANARIES = 2


def build(pc, E, canary=None):
    pc.E = E
    pc.add_functions(E, TARGETS)
    # what bind time counted as available (URL bindings, built-ins, resources of the bound route) must be what
    # execute() hands to inject() at request time -- otherwise an accepted route fails with a missing argument
    import contracts.route as R
    R.verify_execute(pc, E)
    if canary is not None:
        return
    b = chain_text.run(pc, E)
    mode = b['callnames_mode'] or 'args'
    for it in chain_lemmas.lemmas(mode):
        pc.add_item(it)
    pc.assumptions += [
        'A-fb: boltons FunctionBuilder reports args / kwonlyargs / defaults as modelled in specs/sig.py '
        '(bounded stand-in: bounded/chain_text.py enumerates callable kinds)',
        'A-exec: compile()+exec of the generated text behaves as its ast.parse tree says',
        'cycle check (_resolve_required_args / resolve_deps / find_cycle) is outside the contracts: '
        'either outcome accepted by the statement',
    ]


def _ident(names):
    """Map arbitrary model strings to valid distinct identifiers."""
    out = {}
    for s in names:
        if s in ('next', 'context', 'request', '_application', '_route', '_dispatch_state'):
            out[s] = s
        else:
            out[s] = 'n%d' % len(out)
    return out


def concretise(pc, it):
    m = it.model
    if m is None:
        return None
    lemma = it.extra.get('lemma')
    if lemma in ('L2b', 'L5pos'):
        f = chain_lemmas.f
        uni = modelx.strings_in(m) | {'a', 'b'}
        argn = modelx.eval_set(m, ARGN(f), uni)
        args = modelx.eval_set(m, nset(ARGS(f)), uni)
        kwonly = [x for x in modelx.eval_set(m, nset(KWONLY(f)), uni) if x not in args]
        dflt = modelx.eval_set(m, DEF(f), uni)
        posonly = modelx.eval_set(m, POSONLY(f), uni)
        names = [x for x in argn if x not in ('next',)]
        ren = _ident(names)
        sig = {'pos': [ren[x] for x in args if x in ren], 'kwonly': [ren[x] for x in kwonly if x in ren],
               'defaults': [ren[x] for x in dflt if x in args and x in ren],
               'kwdefaults': [ren[x] for x in dflt if x in kwonly and x in ren],
               'posonly': [ren[x] for x in posonly if x in ren]}
        res = [v for v in ren.values() if v not in ('context', 'request', '_application', '_route', '_dispatch_state')]
        case = {'mws': [], 'endpoint': sig, 'render': None, 'resources': res, 'url': []}
        return {'script': 'c01_case.py', 'case': case}
    return None


def refute(pc, unknown_items):
    pc.native_search(unknown_items, 'c01_search.py',
                     {'budget': 4000 if pc.tier == 'quick' else 40000, 'seed': pc.seed}, 'c01_case.py')


def fallback(pc):
    from props.C02 import GENERAL_CASE
    return [{'script': 'c01_case.py', 'case': GENERAL_CASE},
            {'script': 'c01_search.py', 'case': {'budget': 3000, 'seed': pc.seed}, 'replay_script': 'c01_case.py'}]
