"""C13 -- an Application is a conforming WSGI application (the part clastic owns)."""
import json
import os
import z3
from pyvc import z as Z
from pyvc.run import Item, native, HERE

TARGETS = ['clastic.application.Application._dispatch_wsgi', 'clastic.application.check_valid_wsgi',
           'clastic.application._safe_wrap_wsgi', 'clastic.application._get_all_middlewares',
           'clastic.static.build_file_response']

CANARIES = [
    {'name': 'reroute-gets-a-copy-of-environ', 'file': 'clastic/application.py',
     'old': "            return rre.wsgi_app(environ, start_response)", 'new': "            return rre.wsgi_app(dict(environ), start_response)"},
    {'name': 'response-materialised', 'file': 'clastic/application.py',
     'old': "        return response(environ, start_response)", 'new': "        return list(response(environ, start_response))"},
    {'name': 'environ-annotated', 'file': 'clastic/application.py',
     'old': "        request = self.request_type(environ)\n", 'new': "        request = self.request_type(environ)\n        environ['clastic.request'] = request\n"},
    {'name': 'wrapper-result-not-validated', 'file': 'clastic/application.py',
     'old': "        check_valid_wsgi(wrapped_wsgi)\n    except TypeError as te:", 'new': "        pass\n    except TypeError as te:"},
    {'name': 'valid-wsgi-either-name', 'file': 'clastic/application.py',
     'old': "        or wc_args[0] != 'environ'\n        or wc_args[1] != 'start_response'):",
     'new': "        or (wc_args[0] != 'environ'\n        and wc_args[1] != 'start_response')):"},
    {'name': 'all-middlewares-not-deduplicated', 'file': 'clastic/application.py',
     'old': "            if mw not in all_mw:\n                all_mw.append(mw)",
     'new': "            if mw.unique and mw not in all_mw or not mw.unique:\n                all_mw.append(mw)"},
    {'name': 'all-middlewares-innermost-first', 'file': 'clastic/application.py',
     'old': "            if mw not in all_mw:\n                all_mw.append(mw)",
     'new': "            if mw not in all_mw:\n                all_mw.insert(0, mw)"},
]
# build_file_response is C14's function: C13 owns only 'an opened file is owned by the response or closed'
OWN = [r'_dispatch_wsgi', r'check_valid_wsgi', r'_safe_wrap_wsgi', r'_get_all_middlewares', r'build_file_response/(exc_ensures|ensures\[3\])', r'^C13\.']
QUICK_CANARIES = 2


def build(pc, E, canary=None):
    pc.E = E
    pc.add_functions(E, TARGETS)
    if canary is not None:
        return
    # bounded stand-in (labelled bounded, never counted as proved): the real application under
    # wsgiref.validate for every response kind x method x Accept, wrapper stacks, RerouteWSGI
    try:
        out = native('wsgi_case.py', {}, repo_root=E.repo.root, timeout=600)
    except Exception as e:
        pc.errors.append('bounded stand-in wsgi_case crashed: %r' % (e,))
        out = None
    if out is not None:
        if out.get('harness_error'):
            pc.errors.append('bounded stand-in wsgi_case: %s' % out['harness_error'][-400:])
        pc.bounded.append({'what': 'real Applications under wsgiref.validate + recording start_response + close() tracking: '
                                   '13 paths x 4 methods x 3 Accept x 3 middleware sets; 6 wrapper-stack configurations '
                                   '(list order, route-level, no routes, late add, embedding with a shared unique type, two '
                                   'levels); RerouteWSGI as endpoint and raised', 'bound': 'fixed scenario list',
                           'failures': out.get('count', 0), 'label': 'bounded'})
        if out.get('fails'):
            fn = 'replays/C13-bounded-wsgi-suite.json'
            os.makedirs(os.path.join(HERE, 'replays'), exist_ok=True)
            with open(os.path.join(HERE, fn), 'w') as f:
                json.dump({'property': 'C13', 'obligation': 'C13.B/wsgi-suite (bounded stand-in)',
                           'concretised_input': {'script': 'wsgi_case.py', 'case': {}}, 'native_observation': out}, f, indent=1)
            pc.violations.append(('C13.B/wsgi-suite', fn, True))
    pc.assumptions += [
        'A-wz-resp: a werkzeug BaseResponse called as a WSGI application calls start_response exactly once with a valid '
        'status line and str header pairs before any body, sends no body for HEAD, and close() of its iterable closes the '
        'wrapped file (bounded stand-in: wsgiref.validate suite)',
        'A-wz-req: constructing a Request from an environ does not raise and does not modify the environ',
        'call-site summary of Application.dispatch = its contract verified under C08 (a BaseResponse instance, a RerouteWSGI, '
        'or -- re-raising error handler only -- an exception)',
        'Application.__init__ itself (the loop that folds _safe_wrap_wsgi over the middleware list) is not under contract; '
        'its effect is covered by the bounded wrapper-stack scenarios only',
        'environ frame: stores by _dispatch_wsgi itself; stores inside dispatch are covered by the C12 confinement frames',
    ]


def concretise(pc, it):
    return {'script': 'wsgi_case.py', 'case': {}}


def fallback(pc):
    from props.C14 import REQS
    cases = [{'script': 'wsgi_case.py', 'case': {}}]
    for call, en in (('getsize', 'EIO'), ('getmtime', 'EIO'), ('getsize', 'ENOENT'), ('getmtime', 'ENOENT'), ('read', 'EIO')):
        cases.append({'script': 'static_case.py', 'case': {'requests': REQS, 'fault': {'call': call, 'errno': en}}})
    return cases
