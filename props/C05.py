"""C05 -- URL patterns match exactly the paths their mini-language describes."""
import json
import z3
from pyvc import modelx
from pyvc.run import Item, native
from specs import routes_regex as RR

CANARIES = [
    {'name': 'converter-strips-one-separator', 'file': 'clastic/route.py',
     'old': "        return converter(value.replace('/', ''))", 'new': "        return converter(value[1:])"},
    {'name': 'int-fragment-allows-space-after-sign', 'file': 'clastic/route.py',
     'old': "_INT_PATTERN = r'\\ *[+-]?[0-9]+'", 'new': "_INT_PATTERN = r'[+-]?\\ *[0-9]+'"},
    {'name': 'strict-mode-tolerates-slashes', 'file': 'clastic/route.py',
     'old': "    if mode == S_STRICT:\n        sep = '/'", 'new': "    if mode == S_STRICT and False:\n        sep = '/'"},
    {'name': 'trailing-slashes-not-tolerated', 'file': 'clastic/route.py',
     'old': "    if mode != S_STRICT:\n        full_pattern += '/*'", 'new': "    if mode != S_STRICT and False:\n        full_pattern += '/*'"},
    {'name': 'optional-arity-lost', 'file': 'clastic/route.py',
     'old': "                                            arity=op)", 'new': "                                            arity=op.replace('?', ''))"},
    {'name': 'conversion-error-escapes', 'file': 'clastic/route.py',
     'old': "        except (KeyError, TypeError, ValueError):\n            return None", 'new': "        except (KeyError, TypeError):\n            return None"},
    {'name': 'str-fragment-admits-slash', 'file': 'clastic/route.py',
     'old': "_STR_PATTERN = r'[^/]+'", 'new': "_STR_PATTERN = r'.+'"},
]
# BoundRoute.__init__ is a shared proof: C05 owns the clause about the compiled matcher
OWN = [r'^(?!route\.BoundRoute\.__init__)', r'BoundRoute\.__init__.*/ensures\[10\]']
QUICK_CANARIES = 2
SAMPLE_PATHS = ["/", "/lit0", "/lit0/", "//lit0", "/lit0//x", "/x", "/x/y", "/5", "/+ 5/x", "/1.5/2", "/lit0/x/", "/x//y"]


def build(pc, E, canary=None):
    pc.E = E
    import contracts.route as R
    R.verify_match_path(pc, E)
    R.verify_converters(pc, E)
    # the matcher of a bound route is compiled for the bound pattern in the route's effective slash mode
    pc.add_functions(E, ['clastic.route.BoundRoute.__init__'])
    n = 3 if pc.tier == 'thorough' and canary is None else 2
    dump = native('patterns_dump.py', {'n': n}, repo_root=E.repo.root, timeout=900)
    for it in RR.lex_items(dump['lex']):
        pc.add_item(it)
    res = RR.shape_items(dump, timeout=5000 if canary is not None else 20000)
    agg = {}
    bad = []
    for pattern, mode, verdict, wit, dt in res:
        key = (mode, pattern.count('/') )
        a = agg.setdefault(mode, {'n': 0, 'unsat': 0, 's': 0.0})
        a['n'] += 1
        a['s'] += dt
        if verdict == 'unsat':
            a['unsat'] += 1
        else:
            bad.append((pattern, mode, verdict, wit))
    for mode, a in agg.items():
        ok = a['unsat'] == a['n']
        it = Item('C05.T/shape-language-equivalence[%s]' % mode, 'T', [], z3.BoolVal(ok),
                  note='%d pattern shapes of up to %d elements in %s mode: regex produced by the real _compile_path_pattern '
                       'equals the statement regex as a language over all strings (%d proved)' % (a['n'], n, mode, a['unsat']))
        it.by = 'z3 RegLan, %d queries' % a['n']
        it.seconds = a['s']
        if not ok:
            first = [b for b in bad if b[1] == mode][0]
            it.result = 'refuted' if first[2] == 'sat' else 'unknown'
            it.extra['native_case'] = {'script': 'pattern_case.py',
                                       'case': {'pattern': first[0], 'mode': mode,
                                                'paths': ([first[3]] if first[3] else []) + SAMPLE_PATHS}}
            it.extra['witness'] = first[3]
            it.extra['failing_shapes'] = [b[0] for b in bad if b[1] == mode][:10]
        pc.add_item(it)
    # converters (nested closures, not under K): the native matcher comparison, split into the
    # ordinary case and the recorded finding (a multi binding whose group contains '//')
    # (O2: a strict pattern whose bindings are all absent vs the path '/' is ambiguous in the statement: left out)
    cat_a = [{'pattern': '/<a*>', 'mode': m, 'paths': ['/x/y', '/', '/x', '/x/y/']} for m in ('redirect', 'rewrite')] + \
            [{'pattern': '/<a*>', 'mode': 'strict', 'paths': ['/x/y', '/x']}] + \
            [{'pattern': '/n/<k:int>/<f*float>', 'mode': 'redirect', 'paths': ['/n/5', '/n/5/1.5/2', '/n/x', '/n/5/1.5/x']},
             {'pattern': '/<a?int>/<b+>', 'mode': 'redirect', 'paths': ['/5/x', '/x', '/x/y', '/ 5/x']},
             {'pattern': '/a/<b>/', 'mode': 'strict', 'paths': ['/a/x/', '/a/x', '/a//x/', '/a/x//']}]
    # falsy conversions (0, -0, 0.0, ...) and every type x operator, with and without a trailing slash
    segs = ['0', '-0', '0.0', '.0', '0e5', '00', '7', 'x', '1.5']
    for ty in ('', 'int', 'float', 'str'):
        for op in ('', ':', '?', '*', '+'):
            for tail in ('', '/'):
                for m in ('strict', 'redirect', 'rewrite'):
                    paths = ['/p' + tail] + ['/p/%s%s' % (a, tail) for a in segs] + \
                            ['/p/%s/%s%s' % (a, b, tail) for a in segs[:4] for b in segs[:3]]
                    cat_a.append({'pattern': '/p/<v%s%s>%s' % (op, ty, tail), 'mode': m, 'paths': paths})
    okA, why = True, ''
    out = native('pattern_case.py', {'batch': cat_a}, repo_root=E.repo.root, timeout=600)
    if 'harness_error' in out:
        pc.errors.append('pattern_case.py: %s' % out['harness_error'][-400:])
    elif out.get('fails'):
        okA, why, bad_case = False, out.get('why'), out['failing_case']
    it = Item('C05.T/conversions-and-assignment[no repeated slashes inside a multi binding]', 'T', [], z3.BoolVal(okA),
              note='real matcher vs declarative segment assignment on a fixed catalogue (%s)' % why)
    it.by = 'evaluation'
    if not okA:
        it.extra['native_case'] = {'script': 'pattern_case.py', 'case': bad_case}
    pc.add_item(it)
    pc.bounded.append({'what': 'native comparison of the real matcher with the declarative matcher', 'cases': sum(len(c['paths']) for c in cat_a),
                       'label': 'bounded', 'bound': 'fixed catalogue of patterns and paths: every type x operator x slash mode x trailing slash over segments incl. falsy conversions'})
    outB = native('pattern_case.py', {'pattern': '/<a*>', 'mode': 'rewrite', 'paths': ['/x//y']}, repo_root=E.repo.root)
    itB = Item('C05.T/conversions-and-assignment[repeated slashes inside a multi binding]', 'T', [],
               z3.BoolVal(not outB.get('fails')), note='multi converter keeps empty pieces (known finding F3): %s' % outB.get('why'))
    itB.by = 'evaluation'
    itB.extra['native_case'] = {'script': 'pattern_case.py', 'case': {'pattern': '/<a*>', 'mode': 'rewrite', 'paths': ['/x//y']}}
    pc.add_item(itB)
    if canary is not None:
        return
    pc.assumptions += ['A-re: Python re semantics for the translated constructs (translator: pyvc/regex.py over re._parser); '
                       '"$" before a trailing newline is outside the alphabet',
                       'patterns are enumerated by shape (bounded in configurations, complete in paths); literal segments '
                       'are metacharacter-free placeholders',
                       'O2: a strict-mode pattern whose bindings are all optional is compared on the regex language',
                       'build_converter closures (nested functions) are covered by the native matcher comparison only']


def concretise(pc, it):
    if it.extra.get('lex'):
        m = it.model
        w = None
        if m is not None:
            for d in m.decls():
                if d.name() == 'lex!s':
                    w = m[d].as_string()
        ty = it.extra['lex']
        paths = ['/%s/x' % w] if w else []
        return {'script': 'pattern_case.py', 'case': {'pattern': '/<a?%s>/<b+>' % ty, 'mode': 'redirect',
                                                     'paths': paths + ['/+ 5/x', '/- 1.5/x']}}
    return None
