"""C09 -- error responses: right status, negotiated format, everything escaped."""
import z3
from pyvc.run import Item, native

TARGETS = ['clastic.errors.HTTPException.__init__', 'clastic.errors.HTTPException.adapt',
           'clastic.errors.HTTPException.to_escaped_dict', 'clastic.errors.HTTPException.to_html',
           'clastic.errors.HTTPException.to_xml', 'clastic.errors.ErrorHandler.render_error',
           'clastic.application.default_render_error#verify']
CANARIES = [
    {'name': 'render_error-takes-first-preference', 'file': 'clastic/errors.py',
     'old': "        best_match = request.accept_mimetypes.best_match(MIME_SUPPORT_MAP)\n        _error.adapt(best_match)\n        return _error\n\n    def uncaught_to_response",
     'new': "        best_match = request.accept_mimetypes.best\n        _error.adapt(best_match)\n        return _error\n\n    def uncaught_to_response"},
    {'name': 'escape-dropped-in-escaped-dict', 'file': 'clastic/errors.py',
     'old': "                ret[k] = html_escape(v, True)\n", 'new': "                ret[k] = v\n"},
    {'name': 'repr-fallback-unescaped', 'file': 'clastic/errors.py',
     'old': "                ret[k] = html_escape(repr(v), True)", 'new': "                ret[k] = repr(v)"},
    {'name': 'html-uses-raw-dict', 'file': 'clastic/errors.py',
     'old': "    def to_html(self):\n        params = self.to_escaped_dict()", 'new': "    def to_html(self):\n        params = self.to_dict()"},
    {'name': 'xml-uses-raw-dict', 'file': 'clastic/errors.py',
     'old': "        # TODO: generically create xml based on escaped dictionary\n        params = self.to_escaped_dict()",
     'new': "        # TODO: generically create xml based on escaped dictionary\n        params = self.to_dict()"},
    {'name': 'content-type-not-updated', 'file': 'clastic/errors.py',
     'old': "        self.headers['Content-Type'] = get_content_type(mimetype, self.charset)",
     'new': "        self.headers['Content-Type'] = get_content_type('text/plain', self.charset)"},
    {'name': 'status-ignores-given-code', 'file': 'clastic/errors.py',
     'old': "                                            status=self.code,", 'new': "                                            status=self.__class__.code,"},
]
QUICK_CANARIES = 2


def build(pc, E, canary=None):
    pc.E = E
    pc.add_functions(E, TARGETS)
    if canary is not None:
        return
    # T: the status table and per-format agreement, by evaluation on the imported module
    try:
        out = native('errors_case.py', {}, repo_root=E.repo.root)
        it = Item('C09.T/status-table-and-formats', 'T', [], z3.BoolVal(not out.get('fails') and 'harness_error' not in out),
                  note='every exported class: registered status code, ERROR_CODE_MAP entry, Content-Type agrees with the '
                       'body, JSON parses with the four keys, XML well formed, markup in detail escaped (%s)' % out.get('why'))
        it.by = 'evaluation'
        it.extra['native_case'] = {'script': 'errors_case.py', 'case': {}}
        pc.add_item(it)
        pc.bounded.append({'what': 'all exported error classes x 6 detail strings x 6 Accept outcomes, natively',
                           'cases': out.get('cases'), 'label': 'bounded', 'bound': 'fixed catalogue of detail strings'})
    except Exception as e:
        pc.errors.append('errors_case crashed: %r' % e)
    pc.assumptions += ['A-esc: html.escape(s, True) leaves no markup-significant character (ghost predicate ESCAPED)',
                       'A-ashes: the contextual (debug) pages are ashes templates; their escaping is ashes\' auto-escape (not decided here)',
                       'A-wz-req: accept_mimetypes.best_match returns an offered type or None',
                       'XML 1.0 representability of control characters is outside the claim']


def concretise(pc, it):
    return {'script': 'errors_case.py', 'case': {}}


def fallback(pc):
    return [{'script': 'errors_case.py', 'case': {}}]
