"""C06 -- dispatch: first match in order, methods, 404/405, non-breaking fallthrough."""
from pyvc.run import native

TARGETS = ['clastic.route.BoundRoute.match_method', 'clastic.route.Route.__init__',
           'clastic.route.NullRoute.handle_sentinel_condition', 'clastic.errors.MethodNotAllowed.__init__',
           'clastic.errors.HTTPException.__init__', 'clastic.application.Application.add',
           'clastic.application.Application.dispatch']
CANARIES = [
    {'name': 'dispatch-continues-after-answer', 'file': 'clastic/application.py',
     'old': "            if not isinstance(ret, HTTPException):\n                # TODO: verify behavior\n                break",
     'new': "            if not isinstance(ret, HTTPException):\n                # TODO: verify behavior\n                continue"},
    {'name': 'dispatch-ignores-method-mismatch', 'file': 'clastic/application.py',
     'old': "            if not method_allowed:", 'new': "            if not method_allowed and False:"},
    {'name': 'dispatch-drops-allowed-methods', 'file': 'clastic/application.py',
     'old': "                dispatch_state.update_methods(route.methods)\n", 'new': "                pass\n"},
    {'name': 'dispatch-breaks-on-nonbreaking', 'file': 'clastic/application.py',
     'old': "            if getattr(ret, 'is_breaking', True):", 'new': "            if getattr(ret, 'is_breaking', True) or True:"},
    {'name': 'sentinel-first-exception', 'file': 'clastic/route.py',
     'old': "            return _dispatch_state.exceptions[-1]", 'new': "            return _dispatch_state.exceptions[0]"},
    {'name': 'get-does-not-imply-head', 'file': 'clastic/route.py',
     'old': "            if 'GET' in self.methods:\n                self.methods.add('HEAD')",
     'new': "            if 'GET' in self.methods and False:\n                self.methods.add('HEAD')"},
    {'name': 'method-match-case-sensitive', 'file': 'clastic/route.py',
     'old': "            if method.upper() not in self.methods:", 'new': "            if method not in self.methods:"},
    {'name': 'allow-header-dropped', 'file': 'clastic/errors.py',
     'old': "            self.headers['Allow'] = ', '.join(sorted(self.allowed_methods))", 'new': "            pass"},
]
# clauses carrying this property's statement; the rest of the shared dispatch proof is support
OWN = [r'^(?!application\.Application\.dispatch/(ensures\[0\]|ensures\[4\]|raises))']
QUICK_CANARIES = 2


def build(pc, E, canary=None):
    pc.E = E
    pc.add_functions(E, TARGETS)
    import contracts.route as R
    R.dispatch_support(pc, E)


def search(pc, it):
    out = native('app_search.py', {'budget': 1500, 'seed': pc.seed, 'check': ['c06']},
                 repo_root=pc.E.repo.root if pc.E else None, timeout=900)
    if out.get('found'):
        return {'script': 'app_case.py', 'case': out['found']['case']}
    return None


def refute(pc, unknown_items):
    pc.native_search(unknown_items, 'app_search.py',
                     {'budget': 1500 if pc.tier == 'quick' else 15000, 'seed': pc.seed, 'check': ['c06']}, 'app_case.py')


def fallback(pc):
    return [{'script': 'app_search.py', 'case': {'budget': 2500, 'seed': pc.seed, 'check': ['c06']}, 'replay_script': 'app_case.py'}]
