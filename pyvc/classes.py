"""Class hierarchy facts, reflected from the real imported code (MROs come
from the oracle process, never from a hand-written table)."""
import z3

from . import z as Z

Cls = z3.DeclareSort('Cls')
cls_of = Z.func('cls_of', Z.Obj, Cls)
issub = Z.func('issub', Cls, Cls, Z.Bool)


class ClassTable(object):
    def __init__(self, refl):
        self.refl = refl['classes']          # dotted -> {mro, attrs, name}
        self.inst_attrs = refl.get('inst_attrs', {})
        self.known = {}                      # dotted -> z3 const
        self.by_short = {}
        for d, info in self.refl.items():
            self.by_short.setdefault(info['name'], []).append(d)

    def has(self, dotted):
        return dotted in self.refl

    def mro(self, dotted):
        return self.refl[dotted]['mro']

    def static_sub(self, a, b):
        """is class a a subclass of class b (both dotted, reflected)."""
        if a == b:
            return True
        info = self.refl.get(a)
        if info is None:
            raise KeyError(a)
        return b in info['mro']

    def attrs(self, dotted):
        s = set(self.refl[dotted]['attrs'])
        s.update(self.inst_attrs.get(dotted, ()))
        # instance attributes are inherited from the first base that lists them
        for b in self.refl[dotted]['mro']:
            s.update(self.inst_attrs.get(b, ()))
        return s

    def const(self, dotted):
        """z3 constant for a class; registers hierarchy axioms on first use (O(1) axioms per
        class: its exact ancestor set, the upward closure for unknown subclasses, and one
        global distinctness axiom)."""
        c = self.known.get(dotted)
        if c is not None:
            return c
        c = Z.const('C:' + dotted, Cls)
        self.known[dotted] = c
        x = z3.Const('c!x', Cls)
        if dotted in self.refl:
            mro = [b for b in self.refl[dotted]['mro']]
            anc = [self.const(b) for b in mro if b != dotted]
            # exactly the reflected ancestors (closed world for *known* classes)
            Z.AXIOMS.add('ancestors:' + dotted,
                         z3.ForAll([x], issub(c, x) == z3.Or(*([x == c] + [x == a for a in anc])),
                                   patterns=[issub(c, x)]))
            for b in mro[1:]:
                if b == 'builtins.object':
                    continue
                Z.AXIOMS.add('sub-up:%s->%s' % (dotted, b),
                             z3.ForAll([x], z3.Implies(issub(x, c), issub(x, self.known[b])),
                                       patterns=[issub(x, c)]))
        else:
            Z.AXIOMS.add('sub-refl:' + dotted, issub(c, c))
        Z.AXIOMS.replace('cls-distinct', z3.Distinct(*self.known.values()) if len(self.known) > 1 else Z.TRUE)
        return c
