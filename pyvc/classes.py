"""Class hierarchy facts, reflected from the real imported code (MROs come
from the oracle process, never from a hand-written table)."""
import z3

from . import z as Z

Cls = z3.DeclareSort('Cls')
cls_of = Z.func('cls_of', Z.Obj, Cls)
issub = Z.func('issub', Cls, Cls, Z.Bool)


class ClassTable(object):
    def __init__(self, refl):
        self.refl = refl['classes']          # dotted -> {mro, attrs, name}
        self.inst_attrs = refl.get('inst_attrs', {})
        self.known = {}                      # dotted -> z3 const
        self.by_short = {}
        for d, info in self.refl.items():
            self.by_short.setdefault(info['name'], []).append(d)

    def has(self, dotted):
        return dotted in self.refl

    def mro(self, dotted):
        return self.refl[dotted]['mro']

    def static_sub(self, a, b):
        """is class a a subclass of class b (both dotted, reflected)."""
        if a == b:
            return True
        info = self.refl.get(a)
        if info is None:
            raise KeyError(a)
        return b in info['mro']

    def attrs(self, dotted):
        s = set(self.refl[dotted]['attrs'])
        s.update(self.inst_attrs.get(dotted, ()))
        # instance attributes are inherited from the first base that lists them
        for b in self.refl[dotted]['mro']:
            s.update(self.inst_attrs.get(b, ()))
        return s

    def const(self, dotted):
        """z3 constant for a class; registers hierarchy axioms on first use."""
        c = self.known.get(dotted)
        if c is not None:
            return c
        c = Z.const('C:' + dotted, Cls)
        for other, oc in self.known.items():
            Z.AXIOMS.add('cls-neq:%s:%s' % (dotted, other), c != oc)
            if dotted in self.refl and other in self.refl:
                Z.AXIOMS.add('sub:%s<:%s' % (dotted, other),
                             issub(c, oc) == z3.BoolVal(self.static_sub(dotted, other)))
                Z.AXIOMS.add('sub:%s<:%s' % (other, dotted),
                             issub(oc, c) == z3.BoolVal(self.static_sub(other, dotted)))
        self.known[dotted] = c
        Z.AXIOMS.add('sub-refl:' + dotted, issub(c, c))
        if dotted in self.refl:
            x = z3.Const('c!x', Cls)
            mro = self.refl[dotted]['mro']
            # anything below this class is below each of its bases
            for b in mro[1:]:
                if b == 'builtins.object':
                    continue
                bc = self.const(b)
                Z.AXIOMS.add('sub-up:%s->%s' % (dotted, b),
                             z3.ForAll([x], z3.Implies(issub(x, c), issub(x, bc)),
                                       patterns=[issub(x, c)]))
        return c
