"""Engine: ties source, reflection, contracts, the executor and the solver
together.  One Engine per check run."""
import ast
import json
import os
import subprocess
import sys
import time
import traceback

import z3

from . import z as Z
from .values import *   # noqa
from .state import (Unsupported, ContractError, PathEnd, ReturnSig, RaiseSig, BreakSig,
                    ContinueSig, Ctx, Obligation)
from .source import Repo, func_hash
from .classes import ClassTable, cls_of, issub
from .interp import Interp, Frame, VSpecFn, truthy, is_callable
from .loops import Loops, LoopSpec

HERE = os.path.dirname(os.path.dirname(os.path.abspath(__file__)))
VENV_PY = '/venv/bin/python'


class TreeBroken(Exception):
    """The tree under test does not import (it would not pass its tests)."""


def reflect(repo_root):
    env = dict(os.environ)
    env['PYTHONPATH'] = repo_root + os.pathsep + env.get('PYTHONPATH', '')
    env['PYTHONDONTWRITEBYTECODE'] = '1'
    p = subprocess.run([VENV_PY, '-W', 'ignore', os.path.join(HERE, 'oracle', 'reflect.py')],
                       capture_output=True, text=True, env=env, cwd='/', timeout=120)
    if p.returncode != 0:
        raise TreeBroken('the package does not import under %s: %s' % (VENV_PY, p.stderr[-1500:]))
    return json.loads(p.stdout)


class OpaqueClass(object):
    """What is known about objects carrying a static class hint."""

    def __init__(self, name, dotted=None, attrs=None, methods=None, props=None, closed=False,
                 eq=None, ne=None, contains=None, truthy=True, callable_=None, inv=None):
        self.name = name
        self.dotted = dotted        # real class (reflected attribute table), optional
        self.attrs = attrs or {}    # name -> T
        self.methods = methods or {}  # name -> dotted repo qualname | python model fn
        self.props = props or {}
        self.closed = closed        # True: attributes not listed do not exist
        self.eq = eq
        self.ne = ne
        self.contains = contains
        self.truthy = truthy        # True / False / None (uninterpreted)
        self.callable_ = callable_
        self.inv = inv


def _norm_key(k):
    def n(t):
        return ast.unparse(ast.parse(t.strip(), mode='eval').body)
    return (n(k[0]), n(k[1]))


class Contract(object):
    def __init__(self, target, params=None, cases=None, requires=(), ensures=(), raises=None,
                 raises_ensures=None, returns=None, assigns=(), loops=None, inline=(), specns=None,
                 prop=None, note='', pure=False, may_raise_any=False, trusted=False, exc_ensures=(),
                 setup=None, model=None, raises_local=None, raises_only_if=None, heavy=False, ghost=None, exc_fields=None,
                 at_call=None, trace_ensures=False, frame=None):
        self.target = target
        self.frame = frame              # {'shared': [exprs], 'private': [exprs], 'may_store': [param names]}: confinement frame
        self.trace_ensures = trace_ensures   # ensures speak about this call's own trace: proved, not assumed by callers
        self.at_call = at_call or {}    # callee name -> spec expressions over the CALLER's state, with _kw / _args bound
        self.exc_fields = exc_fields or {}    # fields known of an exception raised by this function (callers)
        self.ghost = ghost or {}        # name -> spec expression evaluated (and frozen) at function entry
        self.heavy = heavy              # many paths: explore in parallel worker processes
        self.raises_only_if = raises_only_if or {}   # class -> pre-state condition implied by the raise
        self.raises_local = raises_local or {}   # class -> condition over the locals at the raise
        self.model = model              # python summary used at call sites (trusted contracts)
        self.params = params or {}
        self.cases = cases              # list of (label, params dict) overriding params
        self.requires = list(requires)
        self.ensures = list(ensures)
        self.raises = raises or {}      # class dotted -> condition text | None
        self.raises_ensures = raises_ensures or {}
        self.exc_ensures = list(exc_ensures)   # hold on every exceptional exit
        self.returns = returns
        self.assigns = list(assigns)
        self.loops = dict((_norm_key(k), v) for k, v in (loops or {}).items())
        self.inline = set(inline)
        self.specns = specns or {}
        self.prop = prop or []
        self.note = note
        self.pure = pure
        self.may_raise_any = may_raise_any
        self.trusted = trusted          # assumed, not verified (reported as assumption)
        self.setup = setup              # fn(engine, ctx, frame) run after parameters are created


class FunctionResult(object):
    def __init__(self, target):
        self.target = target
        self.obligations = []
        self.undecided = []     # (why, lineno)
        self.errors = []
        self.paths = 0
        self.hash = None
        self.span = None
        self.file = None


class Engine(object):
    def __init__(self, repo_root=None):
        self.repo = Repo(repo_root)
        self.refl = reflect(self.repo.root)
        self.classes = ClassTable(self.refl)
        self.contracts = {}
        self.opaque = {}
        self.externals = {}
        self.specns = {}
        self.fm_defs = {}
        self.comp_memo = {}
        self.stats = {'feas_checks': 0, 'paths': 0}
        self.worklist = []
        self.current = None
        self.loops = Loops(self)
        self.interp = Interp(self)
        self.func_attr_hooks = []
        self._register_builtin_specs()

    def _register_builtin_specs(self):
        from . import models as M

        class _Calls(list):
            def __getitem__(self, i):
                if isinstance(i, int) and not (-len(self) <= i < len(self)):
                    # total spec functions: an out-of-range call index denotes a dummy event
                    d = VObj(Z.const('no-such-call', Z.Obj))
                    return ['call', d, [], {}, None, None]
                return list.__getitem__(self, i)

        def calls(ctx):
            return _Calls(e for e in ctx.trace if e[0] == 'call')

        def _idx(ctx, i):
            n = Z.simp(TInt.to_z(i))
            return n.as_long()

        @self.spec('ncalls')
        def ncalls(I, ctx):
            return VInt(len(calls(ctx)))

        @self.spec('call_fn')
        def call_fn(I, ctx, i):
            return calls(ctx)[_idx(ctx, i)][1]

        @self.spec('call_nargs')
        def call_nargs(I, ctx, i):
            return VInt(len(calls(ctx)[_idx(ctx, i)][2]))

        @self.spec('call_arg')
        def call_arg(I, ctx, i, j):
            return calls(ctx)[_idx(ctx, i)][2][_idx(ctx, j)]

        @self.spec('call_ret')
        def call_ret(I, ctx, i):
            o = calls(ctx)[_idx(ctx, i)][5]
            return o[1] if o and o[0] == 'ret' else VObj(Z.const('no-return', Z.Obj))

        @self.spec('call_raised')
        def call_raised(I, ctx, i):
            o = calls(ctx)[_idx(ctx, i)][5]
            return VBool(bool(o and o[0] == 'exc'))

        @self.spec('call_exc')
        def call_exc(I, ctx, i):
            o = calls(ctx)[_idx(ctx, i)][5]
            return o[1] if o and o[0] == 'exc' else VObj(Z.const('no-exception', Z.Obj))

        @self.spec('isinstance_of')
        def isinstance_of(I, ctx, v, clsname):
            return VBool(I.isinstance_z(ctx, v, clsname.const()))

        @self.spec('call_kw')
        def call_kw(I, ctx, i):
            ev = calls(ctx)[_idx(ctx, i)]
            kwargs, star = ev[3], ev[4]
            if star is not None:
                dom, arr, kt, vt = M.dict_sym(I, ctx, star)
            else:
                kt, vt = TStr, TObj()
                dom, arr = Z.empty_set(Z.Str), z3.K(Z.Str, Z.NONE)
            for k, x in kwargs.items():
                dom = z3.SetAdd(dom, z3.StringVal(k))
                arr = z3.Store(arr, z3.StringVal(k), vt.to_z(x, ctx))
            return VMap(dom, arr, kt, vt)

        @self.spec('split_at')
        def split_at(I, ctx, seq, idx):
            """(seq[:idx], seq[idx:]) in decomposition form: two fresh sequences with
            seq == pre ++ post and len(pre) == the clamped index."""
            q = I._as_seq(ctx, I.resolve(ctx, seq))
            z, et = q
            n = z3.Length(z)
            idx = I.resolve(ctx, idx)
            iz = TInt.to_z(idx)
            pos = z3.If(iz < 0, z3.If(n + iz < 0, z3.IntVal(0), n + iz), z3.If(iz > n, n, iz))
            pre = Z.fresh('split_pre', z.sort())
            post = Z.fresh('split_post', z.sort())
            p = Z.fresh('split_pos', Z.Int)
            ctx.assume(p == pos)
            ctx.assume(z == z3.Concat(pre, post))
            ctx.assume(z3.Length(pre) == p)
            return VTuple([VSeq(pre, et), VSeq(post, et)])

        @self.spec('implies')
        def implies(I, ctx, a, b):
            return VBool(z3.Implies(I.truth(ctx, a), I.truth(ctx, b)))

        @self.spec('keys')
        def keys(I, ctx, d):
            d = I.resolve(ctx, d)
            if isinstance(d, VNone):
                return VSet(Z.empty_set(Z.Str), TStr)       # total
            dm = M.dict_sym(I, ctx, d)
            return VSet(dm[0], dm[2])

        @self.spec('subset')
        def subset(I, ctx, a, b):
            sa = M.iterable_as_set(I, ctx, a)
            sb = M.iterable_as_set(I, ctx, b)
            if sa[0] is None:
                return VBool(True)
            if sb[0] is None:
                return VBool(sa[0] == Z.empty_set(sa[1].zsort))
            return VBool(z3.IsSubset(sa[0], sb[0]))

        @self.spec('forall_keys')
        def forall_keys(I, ctx, d, fn):
            """forall k in keys(d): fn(k, d[k])"""
            dom, arr, kt, vt = M.dict_sym(I, ctx, I.resolve(ctx, d))
            k = z3.Const(self._qname(ctx, 'k%s' % kt.zsort), kt.zsort)
            self._qenter(ctx)
            try:
                body = I.call(ctx, self._specframe_for_lambda(fn), fn, [kt.wrap(k), vt.wrap(z3.Select(arr, k))], {})
            finally:
                self._qleave(ctx)
            return VBool(z3.ForAll([k], z3.Implies(z3.IsMember(k, dom), I.truth(ctx, body))))

        @self.spec('forall_str')
        def forall_str(I, ctx, fn):
            k = z3.Const(self._qname(ctx, 's'), Z.Str)
            self._qenter(ctx)
            try:
                body = I.call(ctx, self._specframe_for_lambda(fn), fn, [VStr(k)], {})
            finally:
                self._qleave(ctx)
            return VBool(z3.ForAll([k], I.truth(ctx, body)))

        @self.spec('exists_str')
        def exists_str(I, ctx, fn):
            k = z3.Const(self._qname(ctx, 's'), Z.Str)
            self._qenter(ctx)
            try:
                body = I.call(ctx, self._specframe_for_lambda(fn), fn, [VStr(k)], {})
            finally:
                self._qleave(ctx)
            return VBool(z3.Exists([k], I.truth(ctx, body)))

        @self.spec('forall_int')
        def forall_int(I, ctx, lo, hi, fn):
            k = z3.Int(self._qname(ctx, 'i'))
            self._qenter(ctx)
            try:
                body = I.call(ctx, self._specframe_for_lambda(fn), fn, [VInt(k)], {})
            finally:
                self._qleave(ctx)
            return VBool(z3.ForAll([k], z3.Implies(z3.And(k >= TInt.to_z(lo), k < TInt.to_z(hi)), I.truth(ctx, body))))

        @self.spec('forall_in')
        def forall_in(I, ctx, s, fn):
            z, et = M.iterable_as_set(I, ctx, s)
            if z is None:
                return VBool(True)
            k = z3.Const(self._qname(ctx, 'e%s' % et.zsort), et.zsort)
            self._qenter(ctx)
            try:
                body = I.call(ctx, self._specframe_for_lambda(fn), fn, [et.wrap(k)], {})
            finally:
                self._qleave(ctx)
            return VBool(z3.ForAll([k], z3.Implies(z3.IsMember(k, z), I.truth(ctx, body))))

    def _qname(self, ctx, kind):
        d = getattr(ctx, 'qdepth', 0)
        return 'q!%s!%d' % (kind, d)

    def _qenter(self, ctx):
        ctx.qdepth = getattr(ctx, 'qdepth', 0) + 1

    def _qleave(self, ctx):
        ctx.qdepth -= 1

    def _specframe_for_lambda(self, fn):
        fr = fn.closure if getattr(fn, 'closure', None) is not None else Frame(None, 'spec')
        return fr

    # ------------------------------------------------------------------
    def push(self, trail):
        self.worklist.append(trail)

    def add_contract(self, c, key=None):
        self.contracts[key or c.target] = c
        return c

    def add_opaque(self, oc):
        self.opaque[oc.name] = oc
        return oc

    def spec(self, name=None):
        """Decorator registering a spec function (python over V values)."""
        def deco(fn):
            self.specns[name or fn.__name__] = VSpecFn(fn, name or fn.__name__)
            return fn
        return deco

    # ------------------------------------------------------------------
    # spec evaluation

    def spec_frame(self, fr, ghosts):
        lg = getattr(fr, 'loop_ghosts', None)
        if lg:
            ghosts = dict(lg, **ghosts)
        eg = getattr(fr, 'entry_ghosts', None)
        if eg:
            ghosts = dict(eg, **ghosts)
        sfr = Frame(fr.module, fr.qualname, dict(ghosts), parent=fr, cls=fr.cls, spec=True)
        sfr.selfv = fr.selfv
        ns = dict(self.specns)
        if self.current is not None:
            ns.update(self.current.specns)
        sfr.specns = ns
        return sfr

    def eval_spec(self, ctx, sfr, text):
        """Evaluate a spec expression (text or callable) to a z3 Bool.  A spec function that
        cannot be applied to the values the (changed) code produced is undecided, never a crash."""
        try:
            return self._eval_spec(ctx, sfr, text)
        except (AttributeError, TypeError, KeyError, IndexError) as e:
            raise Unsupported('spec expression %r cannot be evaluated on this path: %r' % (text, e))
        except RaiseSig as rs:
            raise Unsupported('spec expression %r raises on this path: %s' % (text, self.describe_exc(ctx, rs.exc)))

    def _eval_spec(self, ctx, sfr, text):
        if callable(text):
            v = text(self.interp, ctx, sfr)
        else:
            node = ast.parse(text.strip(), mode='eval').body
            ctx.no_branch = getattr(ctx, 'no_branch', 0) + 1
            try:
                v = self.interp.ev(ctx, sfr, node)
            finally:
                ctx.no_branch -= 1
        if z3.is_expr(v):
            return v
        return self.interp.truth(ctx, v)

    # ------------------------------------------------------------------
    # hooks used by the interpreter

    def truth_of_obj(self, ctx, v):
        oc = self.opaque.get(v.cls)
        if oc is not None and oc.truthy is True:
            return v.z != Z.NONE
        if oc is not None and oc.truthy is False:
            return Z.FALSE
        if oc is not None and callable(oc.truthy):
            return oc.truthy(ctx, v)
        return truthy(v.z)

    def callable_of_obj(self, ctx, v):
        oc = self.opaque.get(v.cls)
        if oc is not None and oc.callable_ is not None:
            if oc.callable_ is True:
                return v.z != Z.NONE
            if oc.callable_ is False:
                return Z.FALSE
            return oc.callable_(ctx, v)
        return is_callable(v.z)

    def eq_hook(self, a, b):
        for v in (a, b):
            oc = self.opaque.get(getattr(v, 'cls', None))
            if oc is not None and oc.eq is not None:
                return oc.eq
        return None

    def ne_hook(self, a, b):
        for v in (a, b):
            oc = self.opaque.get(getattr(v, 'cls', None))
            if oc is not None and oc.ne is not None:
                return oc.ne
        return None

    def contains_hook(self, et):
        oc = self.opaque.get(getattr(et, 'cls', None))
        if oc is not None:
            return oc.contains
        return None

    def on_box_inst(self, ctx, c, h):
        if self.classes.has(h.cls):
            ctx.assume(cls_of(c) == self.classes.const(h.cls))

    def on_box_callable(self, ctx, c, v):
        ctx.assume(is_callable(c))
        ctx.assume(truthy(c))

    def class_value(self, dotted):
        got = self.repo.find_class(dotted)
        if got:
            return VClass(dotted, got[1], got[0])
        return VClass(dotted)

    def repo_static_sub(self, a, b):
        if self.classes.has(a):
            return self.classes.static_sub(a, b)
        return a == b

    def inst_repr(self, ctx, ref, h, use_str, node):
        return None

    def module_object(self, ctx, mod, name):
        return VObj(Z.const('modobj:%s.%s' % (mod.name, name), Z.Obj), 'modobj:%s.%s' % (mod.name, name))

    def type_of_obj(self, ctx, v):
        return VObj(Z.func('type_obj', Z.Obj, Z.Obj)(v.z), 'type')

    # -- attribute access on opaque objects ---------------------------------------
    def read_typed_attr(self, ctx, key, t, objz):
        if isinstance(t, TOpt):
            isnone = ctx.attr_read(key + '?none', Z.Bool, objz)
            inner = self.read_typed_attr(ctx, key, t.t, objz)
            return VOpt(isnone, inner)
        if isinstance(t, TMap):
            ks, vs = t.kt.zsort, t.vt.zsort
            dom = ctx.attr_read(key + '#dom', Z.SetSort(ks), objz)
            arr = ctx.attr_read(key + '#arr', z3.ArraySort(ks, vs), objz)
            return VMap(dom, arr, t.kt, t.vt)
        if t.zsort is None:
            raise ContractError('attribute type %r of %s is not embeddable' % (t, key))
        term = ctx.attr_read(key, t.zsort, objz)
        inv = t.inv(term)
        if inv is not None:
            ctx.assume(inv)
        return t.wrap(term)

    def opaque_getattr(self, ctx, fr, v, name, node):
        I = self.interp
        oc = self.opaque.get(v.cls)
        if oc is not None:
            if name in oc.attrs:
                return self.read_typed_attr(ctx, '%s.%s' % (oc.name, name), oc.attrs[name], v.z)
            if name in oc.methods:
                m = oc.methods[name]
                if isinstance(m, str):
                    got = self.repo.find(m)
                    if got is None:
                        raise ContractError('method %s of opaque class %s not found in the source' % (m, oc.name))
                    fn = VRepoFunc(m, got[1], got[0], cls=m.rsplit('.', 1)[0])
                    return VBound(v, fn)
                return VBound(v, VSpecFn(m, '%s.%s' % (oc.name, name)))
            if name in oc.props:
                return oc.props[name](I, ctx, v)
            if name == '__class__':
                return VObj(Z.func('type_obj', Z.Obj, Z.Obj)(v.z), 'type')
            if oc.dotted is not None:
                if name in self.classes.attrs(oc.dotted):
                    return VObj(ctx.attr_read('%s.%s' % (oc.name, name), Z.Obj, v.z))
                # an attribute this very path stored on this very object exists from then on
                if any(name == n_ and v.z.eq(o_) for (o_, n_) in getattr(ctx, 'attr_set', [])):
                    return VObj(ctx.attr_read('%s.%s' % (oc.name, name), Z.Obj, v.z))
                return None
            if oc.closed:
                return None
        if v.cls == 'type' and name == '__name__':
            return VStr(Z.func('type_name', Z.Obj, Z.Str)(v.z))
        if name == '__class__':
            return VObj(Z.func('type_obj', Z.Obj, Z.Obj)(v.z), 'type')
        has = Z.func('hasattr:' + name, Z.Obj, Z.Bool)(v.z)
        if not ctx.branch(has):
            return None
        t = getattr(self, 'attr_types', {}).get(name)
        if t is not None and not isinstance(t, TObj):
            return self.read_typed_attr(ctx, '*.' + name, t, v.z)
        return VObj(ctx.attr_read('*.' + name, Z.Obj, v.z), t.cls if t is not None else None)

    def opaque_setattr(self, ctx, v, name, val, node):
        oc = self.opaque.get(v.cls)
        if oc is not None and name in oc.attrs:
            t = oc.attrs[name]
            key = '%s.%s' % (oc.name, name)
            if isinstance(t, TOpt):
                val = self.interp.resolve(ctx, val)
                ctx.attr_write(key + '?none', Z.Bool, v.z, z3.BoolVal(isinstance(val, VNone)), node)
                if not isinstance(val, VNone):
                    ctx.attr_write(key, t.t.zsort, v.z, t.t.to_z(val, ctx), node)
                return
            ctx.attr_write(key, t.zsort, v.z, t.to_z(val, ctx), node)
            return
        key = ('%s.%s' % (oc.name, name)) if (oc is not None and oc.dotted) else '*.' + name
        ctx.attr_write(key, Z.Obj, v.z, box(val, ctx), node)
        hk = 'hasattr:' + name
        # after the store the attribute exists
        ctx.assume(Z.TRUE)
        ctx.attr_set = getattr(ctx, 'attr_set', [])
        ctx.attr_set.append((v.z, name))

    def getattr_symbolic(self, ctx, fr, obj, name, default, node):
        raise Unsupported('getattr with a symbolic attribute name', node)

    def opaque_contains(self, ctx, container, x, node):
        oc = self.opaque.get(container.cls)
        if oc is not None and '__contains__' in oc.methods and not isinstance(oc.methods['__contains__'], str):
            return self.interp.truth(ctx, oc.methods['__contains__'](self.interp, ctx, container, x))
        f = Z.func('obj_contains', Z.Obj, Z.Obj, Z.Bool)
        return f(container.z, box(x, ctx))

    def opaque_len(self, ctx, v, node):
        n = Z.func('obj_len', Z.Obj, Z.Int)(v.z)
        ctx.assume(n >= 0)
        return VInt(n)

    def opaque_getitem(self, ctx, v, idx, node):
        I = self.interp
        oc = self.opaque.get(v.cls)
        if oc is not None and '__getitem__' in oc.methods and not isinstance(oc.methods['__getitem__'], str):
            return oc.methods['__getitem__'](I, ctx, v, idx)
        ok = Z.func('obj_hasitem', Z.Obj, Z.Obj, Z.Bool)(v.z, box(idx, ctx))
        if not ctx.branch(ok):
            # any of the lookup errors
            I.raise_exc(ctx, ['KeyError', 'IndexError', 'TypeError'][ctx.nondet(3)], 'subscript failed', node)
        return VObj(Z.func('obj_getitem', Z.Obj, Z.Obj, Z.Obj)(v.z, box(idx, ctx)))

    def opaque_slice(self, ctx, v, lo, hi, node):
        return VObj(Z.fresh('slice', Z.Obj))

    def opaque_setitem(self, ctx, v, idx, val, node):
        oc = self.opaque.get(v.cls)
        if oc is not None and '__setitem__' in oc.methods and not isinstance(oc.methods['__setitem__'], str):
            return oc.methods['__setitem__'](self.interp, ctx, v, idx, val)
        ctx.writes.append((v.z, '[]', getattr(node, 'lineno', None)))
        if getattr(ctx, 'frame_mark', None) is not None:
            from .state import SHAREDP
            ctx.frame_conds.append((Z.Not(SHAREDP(v.z)), 'item of a shared object stored (line %s)' % getattr(node, 'lineno', '?')))

    def opaque_int(self, ctx, v, node):
        ok = Z.func('obj_intable', Z.Obj, Z.Bool)(v.z)
        if not ctx.branch(ok):
            self.interp.raise_exc(ctx, ['TypeError', 'ValueError'][ctx.nondet(2)], 'int() failed', node)
        return VInt(Z.func('obj_int', Z.Obj, Z.Int)(v.z))

    def opaque_next(self, ctx, v, node):
        m = self.externals.get('next:' + str(v.cls))
        if m is not None:
            return m(self.interp, ctx, v, node)
        return self.unknown_outcome(ctx, 'next', node)

    def func_attr(self, ctx, v, name, node):
        for h in self.func_attr_hooks:
            r = h(self, ctx, v, name, node)
            if r is not None:
                return r
        return None

    # -- class attribute lookup -----------------------------------------------------
    def class_attr(self, ctx, fr, clsname, name, selfv, node, after=False, on_class=None):
        """Look `name` up along the MRO of a class.  selfv: the instance for
        binding (None when accessed on the class itself)."""
        I = self.interp
        if not self.classes.has(clsname):
            got = self.repo.find_class(clsname)
            mro = [clsname] if got else []
        else:
            mro = self.classes.mro(clsname)
        if after:
            mro = mro[1:]
        for c in mro:
            got = self.repo.find_class(c)
            if got is None:
                # an external base class
                r = self.external_class_attr(ctx, fr, c, name, selfv, node, clsname)
                if r is not None:
                    return r
                continue
            mod, cnode = got
            for sub in cnode.body:
                if isinstance(sub, ast.FunctionDef) and sub.name == name:
                    decos = [ast.unparse(d) for d in sub.decorator_list]
                    fn = VRepoFunc('%s.%s' % (c, name), sub, mod, cls=c)
                    if 'staticmethod' in decos:
                        return fn
                    if 'classmethod' in decos:
                        return VBound(on_class or self.class_value(clsname), fn)
                    if 'property' in decos or 'cached_property' in decos:
                        if selfv is None:
                            return fn
                        return self.call_repo(ctx, fr, fn, [selfv], {}, node, None, selfv)
                    if decos:
                        raise Unsupported('decorator %s on %s.%s' % (decos, c, name), node)
                    if selfv is None:
                        return fn
                    return VBound(selfv, fn)
                if isinstance(sub, ast.Assign):
                    for t in sub.targets:
                        if isinstance(t, ast.Name) and t.id == name:
                            cfr = Frame(mod, c, {}, cls=c)
                            val = I.ev(ctx, cfr, sub.value)
                            if isinstance(val, VRepoFunc) and selfv is not None:
                                return VBound(selfv, val)
                            return val
        return None

    def external_class_attr(self, ctx, fr, c, name, selfv, node, clsname):
        """Attribute found on an external base class of a repo class."""
        key = '%s.%s' % (c, name)
        if name == '__init__' and c.startswith('builtins.') and selfv is not None and \
                (c == 'builtins.object' or self.classes.static_sub(c, 'builtins.BaseException')):
            def exc_init(I, ctx, self_, *args, **kwargs):
                h = ctx.heap[self_.rid]
                h.fields['args'] = VTuple(list(args))
                return NONE
            return VBound(selfv, VSpecFn(exc_init, key))
        m = self.externals.get(key)
        if m is None and self.classes.has(c):
            # a model registered for a base class is inherited
            for b in self.classes.mro(c)[1:]:
                m = self.externals.get('%s.%s' % (b, name))
                if m is not None:
                    break
        if m is not None:
            if selfv is None:
                return VSpecFn(m, key)
            return VBound(selfv, VSpecFn(m, key))
        if self.classes.has(c) and name in self.refl['classes'][c]['attrs'] and c != 'builtins.object':
            if selfv is None:
                return VExternal(key)
            return VBound(selfv, VExternal(key))
        return None

    # -- calls -------------------------------------------------------------------------
    def unknown_outcome(self, ctx, label, node, rtype=None, may_raise=True):
        """Result of code we know nothing about: any object, or any Exception."""
        I = self.interp
        if may_raise and ctx.nondet(2, label) == 1:
            e = ctx.new_obj('exc', distinct=False)
            ctx.assume(issub(cls_of(e), self.classes.const('builtins.Exception')))
            raise RaiseSig(VObj(e, None), node)
        if rtype is not None:
            return rtype.fresh(ctx, 'ret_' + label)
        r = Z.fresh('ret_' + label, Z.Obj)
        return VObj(r)

    def call_opaque(self, ctx, fr, fv, args, kwargs, node, star):
        I = self.interp
        oc = self.opaque.get(fv.cls)
        if oc is not None and '__call__' in oc.methods:
            m = oc.methods['__call__']
            if not isinstance(m, str):
                return m(I, ctx, fv, *args, **kwargs)
        if not Z.is_true(Z.simp(self.callable_of_obj(ctx, fv))):
            if not ctx.branch(self.callable_of_obj(ctx, fv)):
                I.raise_exc(ctx, 'TypeError', 'object is not callable', node)
        ev = ['call', fv, list(args), dict(kwargs), star, None]
        ctx.trace.append(ev)
        try:
            r = self.unknown_outcome(ctx, 'call', node)
        except RaiseSig as rs:
            ev[5] = ('exc', rs.exc)
            raise
        ev[5] = ('ret', r)
        return r

    def call_external(self, ctx, fr, fv, args, kwargs, node, star, is_class=False):
        I = self.interp
        m = self.externals.get(fv.name)
        if m is not None:
            args = [I.resolve(ctx, a) for a in args]
            kwargs = dict((k, I.resolve(ctx, v)) for k, v in kwargs.items())
            if star is not None:
                kwargs = dict(kwargs)
                kwargs['__star__'] = star
            from .models2 import _run_model
            return _run_model(m, fv.name, node, I, ctx, *args, **kwargs)
        ctx.trace.append(('external', fv.name, list(args), dict(kwargs), star))
        ctx.notes.append('external %s: default contract (any result, may raise any Exception)' % fv.name)
        self.used_default_externals = getattr(self, 'used_default_externals', set())
        self.used_default_externals.add(fv.name)
        try:
            r = self.unknown_outcome(ctx, fv.name, node)
        except RaiseSig as rs:
            # an exception invented by the default contract of an unmodelled external is not a counterexample:
            # remember it, so that an obligation it refutes ends undecided ("needs a contract"), never a violation
            z = getattr(rs.exc, 'z', None)
            if z is not None:
                ctx.__dict__.setdefault('default_ext_excs', {})[z.get_id()] = fv.name
            raise
        if is_class and self.classes.has(fv.name):
            ctx.assume(issub(cls_of(r.z), self.classes.const(fv.name)))
            ctx.assume(r.z != Z.NONE)
        return r

    def at_call_obligations(self, ctx, fr, fv, args, kwargs, node, star):
        """Obligations a contract places on the calls its function makes (stated over the
        caller's state; `_kw` is the keyword mapping handed over, `_args` the positionals)."""
        from .interp import VSpecFn
        cur = self.current
        name = None
        selfv = None
        f = fv
        if isinstance(f, VBound):
            selfv, f = f.selfv, f.func
        if isinstance(f, VRepoFunc):
            name = f.qualname
        elif isinstance(f, VSpecFn):
            name = f.name
        specs = cur.at_call.get(name)
        if not specs:
            return
        if star is not None and kwargs:
            raise ContractError('at_call(%s): mixed explicit and ** keywords are not supported' % name)
        kw = star if star is not None else ctx.alloc(HDict(conc=dict(kwargs)))
        ghosts = {'_kw': kw, '_args': VTuple(list(args))}
        if selfv is not None:
            ghosts['_callee_self'] = selfv
        sfr = self.spec_frame(fr, ghosts)
        short = name.split('clastic.', 1)[-1]
        for i, text in enumerate(specs):
            g = self.eval_spec(ctx, sfr, text)
            ctx.oblige('%s/at-call(%s)[%d]' % (ctx.func, short, i), g, 'K', node,
                       note='at every call of %s: %s' % (short, text))

    def call_repo(self, ctx, fr, fv, args, kwargs, node, star, selfv):
        I = self.interp
        cur = self.current
        c = self.contracts.get(fv.qualname)
        if fr.spec:
            return I.call_inline(ctx, fr, fv, args, kwargs, node, star, selfv)
        if c is not None and c.model is not None:
            if star is not None:
                kwargs = dict(kwargs)
                kwargs['__star__'] = star
            from .models2 import _run_model
            return _run_model(c.model, fv.qualname, node, I, ctx, *args, **kwargs)
        if c is not None and (cur is None or fv.qualname not in cur.inline):
            return self.call_contract(ctx, fr, fv, c, args, kwargs, node, star, selfv)
        if cur is not None and fv.qualname == cur.target:
            raise Unsupported('recursive call of %s needs its own contract' % fv.qualname, node)
        return I.call_inline(ctx, fr, fv, args, kwargs, node, star, selfv)

    def call_contract(self, ctx, fr, fv, c, args, kwargs, node, star, selfv):
        I = self.interp
        dfr = Frame(fv.module, fv.qualname)
        loc = I.bind_args(ctx, fr, fv.node, args, kwargs, star, dfr, node)
        sfr = Frame(fv.module, fv.qualname, loc, cls=fv.cls, spec=True)
        sfr.selfv = selfv
        ns = dict(self.specns)
        ns.update(c.specns)
        sfr.specns = ns
        caller = ctx.func
        for i, r in enumerate(c.requires):
            g = self.eval_spec(ctx, sfr, r)
            ctx.oblige('%s/call(%s)/requires[%d]' % (caller, c.target.split('clastic.', 1)[-1], i), g, 'K', node,
                       note='precondition %r of %s' % (r if isinstance(r, str) else r.__name__, c.target))
        old_heap = ctx.snapshot_heap()
        old_attr = dict(ctx.attr)
        sfr.old = (old_heap, dict(loc), old_attr)
        # exceptional outcomes
        for cls, cond in c.raises.items():
            if cond is None:
                if ctx.nondet(2, 'raises ' + cls) == 1:
                    if cls in c.raises_only_if:
                        ctx.assume(self.eval_spec(ctx, sfr, c.raises_only_if[cls]))
                    ex = self.fresh_exception(ctx, cls)
                    if isinstance(ex, VRef):
                        ctx.heap[ex.rid].fields.update(c.exc_fields)
                    raise RaiseSig(ex, node)
            else:
                cz = self.eval_spec(ctx, sfr, cond)
                if ctx.branch(cz):
                    raise RaiseSig(self.fresh_exception(ctx, cls), node)
        if c.may_raise_any:
            if ctx.nondet(2, 'raises any') == 1:
                e = ctx.new_obj('exc', distinct=False)
                ctx.assume(issub(cls_of(e), self.classes.const('builtins.Exception')))
                raise RaiseSig(VObj(e, None), node)
        # frame
        for a in c.assigns:
            v = I.resolve(ctx, I.ev(ctx, self._nonspec(sfr), ast.parse(a, mode='eval').body))
            if isinstance(v, VRef):
                self.loops._havoc_ref(I, ctx, v, None, a)
            else:
                raise ContractError('assigns entry %r of %s is not a heap object' % (a, c.target))
        result = c.returns.fresh(ctx, 'ret_' + fv.node.name) if c.returns is not None else NONE
        sfr.locals['result'] = result
        for e in ([] if c.trace_ensures else c.ensures):
            g = self.eval_spec(ctx, sfr, e)
            if Z.is_false(Z.simp(g)):
                # vacuity guard: a postcondition that is literally false at a call site would
                # silently kill the path and "discharge" everything after it
                raise ContractError('postcondition %r of %s is false at a call site (contract not usable by callers)'
                                    % (e, c.target))
            ctx.assume(g)
        ctx.trace.append(('contract', c.target, loc))
        return result

    def _nonspec(self, sfr):
        f = Frame(sfr.module, sfr.qualname, sfr.locals, parent=sfr.parent, cls=sfr.cls, spec=False)
        f.selfv = sfr.selfv
        f.specns = sfr.specns
        return f

    def fresh_exception(self, ctx, cls):
        if self.classes.has(cls) and cls.startswith('builtins.'):
            return self.interp.make_exc(ctx, cls, [VStr(Z.fresh('msg', Z.Str))])
        if self.classes.has(cls):
            h = HInst(cls, {'args': VTuple([])})
            return ctx.alloc(h)
        e = ctx.new_obj('exc', distinct=False)
        return VObj(e, None)

    def eval_old(self, ctx, fr, node, attr='old'):
        f = fr
        while f is not None and not hasattr(f, attr):
            f = f.parent
        if f is None:
            raise ContractError('%s() is not available here' % attr)
        old_heap, old_locals, old_attr = getattr(f, attr)
        cur_heap, cur_attr = ctx.heap, ctx.attr
        ofr = Frame(fr.module, fr.qualname, dict(old_locals), parent=None, cls=fr.cls, spec=True)
        ofr.selfv = fr.selfv
        ofr.specns = f.specns if f.specns is not None else self.specns
        ctx.heap = dict((rid, h.copy()) for rid, h in old_heap.items())
        ctx.attr = dict(old_attr)
        try:
            return self.freeze(ctx, self.interp.ev(ctx, ofr, node))
        finally:
            ctx.heap, ctx.attr = cur_heap, cur_attr

    def freeze(self, ctx, v):
        """Immutable snapshot of a value in the current heap (old()/at_entry())."""
        from . import models as M
        if isinstance(v, VRef):
            h = ctx.heap.get(v.rid)
            if isinstance(h, HDict):
                d = M.dict_sym(self.interp, ctx, v)
                if d is not None:
                    return VMap(d[0], d[1], d[2], d[3])
            if isinstance(h, HSet):
                return VSet(h.z, h.et)
            if isinstance(h, HList):
                if h.items is not None:
                    return VTuple([self.freeze(ctx, i) for i in h.items])
                return VSeq(h.z, h.et)
        if isinstance(v, VTuple):
            return VTuple([self.freeze(ctx, i) for i in v.items])
        return v

    def instantiate_repo(self, ctx, fr, cv, args, kwargs, node, star):
        I = self.interp
        hook = self.externals.get('new:' + cv.name)
        if hook is not None:
            return hook(I, ctx, cv, args, kwargs, node, star)
        ref = ctx.alloc(HInst(cv.name))
        init = self.class_attr(ctx, fr, cv.name, '__init__', ref, node)
        if init is not None:
            I.call(ctx, fr, init, args, kwargs, node, star)
        return ref

    def loop_spec(self, fr, node):
        from .loops import loop_key
        c = self.current
        if c is None:
            return None
        k = loop_key(node)
        sp = c.loops.get(k)
        if sp is None:
            # inlined callee's loops may be given by that callee's contract
            cc = self.contracts.get(fr.qualname)
            if cc is not None:
                sp = cc.loops.get(k)
        return sp

    # ------------------------------------------------------------------
    # verification of one function against its contract

    def verify(self, target, budget_paths=4000, ground=None, only_case=None, initial_worklist=None, bfs=False,
               keep_frontier=False):
        """ground=n: refutation mode -- every sequence parameter gets concrete
        length n (loops unroll, spec folds unfold).  Ground runs only ever
        produce counterexamples; nothing is proved by them."""
        self.ground = ground
        c = self.contracts[target]
        target = c.target
        res = FunctionResult(target)
        got = self.repo.find(target)
        if got is None:
            res.undecided.append(('function %s not found in the source (contract out of date)' % target, None))
            return res
        mod, fnode = got
        res.hash = func_hash(mod, fnode)
        res.span = (fnode.lineno, fnode.end_lineno)
        res.file = os.path.relpath(mod.path, self.repo.root)
        self._check_loop_keys(c, fnode, res)
        cases = c.cases or [('', {})]
        res.frontier = []
        for ci, (label, over) in enumerate(cases):
            if only_case is not None and ci != only_case:
                continue
            params = dict(c.params)
            params.update(over)
            self._verify_case(c, mod, fnode, params, label, res, budget_paths, initial_worklist, bfs, keep_frontier)
        return res

    def verify_node(self, c, mod, fnode, label='', budget_paths=2000):
        """Verify a FunctionDef obtained from text the real code generates
        (e.g. the instantiated _REQ_INNER_TMPL) against a contract."""
        self.ground = None
        res = FunctionResult(c.target)
        res.file, res.span, res.hash = 'generated:' + c.target, (fnode.lineno, fnode.end_lineno), None
        self._verify_case(c, mod, fnode, dict(c.params), label, res, budget_paths)
        return res

    def _check_loop_keys(self, c, fnode, res):
        from .loops import loop_key
        present = set()
        for n in ast.walk(fnode):
            if isinstance(n, ast.For):
                present.add(loop_key(n))
        for k in c.loops:
            if k not in present and not getattr(c.loops[k], 'optional', False):
                # a loop named by the contract no longer exists: its invariant is
                # unused; obligations depending on it fail on their own
                res.notes = getattr(res, 'notes', [])
                res.notes.append('loop %r of the contract is not in the source' % (k,))

    def _verify_case(self, c, mod, fnode, params, label, res, budget_paths, initial_worklist=None, bfs=False,
                     keep_frontier=False):
        I = self.interp
        self.current = c
        self.worklist = [list(t) for t in initial_worklist] if initial_worklist else [[]]
        qual = c.target
        cls = None
        short = qual[len(mod.name) + 1:]
        if '.' in short:
            cls = '%s.%s' % (mod.name, short.rsplit('.', 1)[0])
        fname = qual.split('clastic.', 1)[-1] + (('[%s]' % label) if label else '')
        npaths = 0
        seen_obls = {}
        while self.worklist:
            if npaths >= budget_paths:
                if keep_frontier:
                    res.frontier = list(self.worklist)
                else:
                    res.undecided.append(('path budget exceeded (%d)' % budget_paths, None))
                break
            trail = self.worklist.pop(0) if bfs else self.worklist.pop()
            npaths += 1
            Z.reset_names()
            ctx = Ctx(self, trail)
            ctx.func = fname
            try:
                self._run_path(ctx, c, mod, fnode, params, cls, qual, fname)
            except PathEnd:
                pass
            except Unsupported as u:
                res.undecided.append((u.why, u.where()))
            except ContractError as e:
                res.undecided.append(('contract error: %s' % e, None))
            except RecursionError:
                res.undecided.append(('recursion limit', None))
            for o in ctx.obls:
                key = (o.clause, o.goal.get_id(), tuple(p.get_id() for p in o.pc))
                if key in seen_obls:
                    continue
                seen_obls[key] = o      # keeps the terms (and so their ids) alive
                res.obligations.append(o)
        res.paths += npaths
        self.stats['paths'] += npaths
        self.current = None

    def _run_path(self, ctx, c, mod, fnode, params, cls, qual, fname):
        I = self.interp
        a = fnode.args
        names = [p.arg for p in a.posonlyargs + a.args] + [p.arg for p in a.kwonlyargs]
        if a.vararg:
            names.append(a.vararg.arg)
        if a.kwarg:
            names.append(a.kwarg.arg)
        loc = {}
        for n in names:
            if n not in params:
                raise ContractError('no type for parameter %r of %s' % (n, qual))
        fr = Frame(mod, qual, loc, cls=cls)
        for n in names:
            t = params[n]
            if getattr(self, 'ground', None) is not None and isinstance(t, (TSeq, TList)):
                items = [t.et.fresh(ctx, '%s_%d' % (n, k)) for k in range(self.ground)]
                loc[n] = VTuple(items) if isinstance(t, TSeq) else ctx.alloc(HList(items=items))
                continue
            loc[n] = t.fresh(ctx, n) if isinstance(t, T) else t(self, ctx, n)
        if names and names[0] in ('self', 'cls') and cls is not None:
            fr.selfv = loc[names[0]]
        if c.setup is not None:
            c.setup(self, ctx, fr)
        sfr = self.spec_frame(fr, {})
        for r in c.requires:
            ctx.assume(self.eval_spec(ctx, sfr, r))
        fr.entry_ghosts = {}
        for gname, gexpr in c.ghost.items():
            ctx.no_branch = getattr(ctx, 'no_branch', 0) + 1
            try:
                fr.entry_ghosts[gname] = self.freeze(ctx, I.ev(ctx, sfr, ast.parse(gexpr, mode='eval').body))
            finally:
                ctx.no_branch -= 1
        if c.frame is not None:
            self._frame_setup(ctx, c, sfr, loc)
        old = (ctx.snapshot_heap(), dict(loc), dict(ctx.attr))
        try:
            try:
                I.exec_block(ctx, fr, fnode.body)
                result = NONE
            except ReturnSig as r:
                result = r.value
        except RaiseSig as rs:
            self._exit_raise(ctx, c, fr, rs, old, fname)
            return
        except (BreakSig, ContinueSig):
            raise Unsupported('break/continue outside a loop')
        self._exit_normal(ctx, c, fr, result, old, fname)

    def _frame_setup(self, ctx, c, sfr, loc):
        """Confinement frame (C12): objects named 'shared' are visible to other requests; storing
        into them, or into any heap object that existed before the call (other than the parameters
        listed under may_store), violates the frame."""
        from .state import SHAREDP
        I = self.interp
        ctx.frame_conds = []
        ctx.frame_ok = set()
        for n in c.frame.get('may_store', ()):
            v = loc.get(n)
            if isinstance(v, VRef):
                ctx.frame_ok.add(v.rid)
                h = ctx.heap.get(v.rid)
                # containers the object owns (its list / set / dict fields) belong to it
                for fv in (getattr(h, 'fields', None) or {}).values():
                    if isinstance(fv, VRef):
                        ctx.frame_ok.add(fv.rid)
        for kind in ('shared', 'private'):
            for text in c.frame.get(kind, ()):
                ctx.no_branch = getattr(ctx, 'no_branch', 0) + 1
                try:
                    v = I.resolve(ctx, I.ev(ctx, sfr, ast.parse(text, mode='eval').body))
                finally:
                    ctx.no_branch -= 1
                if isinstance(v, VOpt):
                    v = v.val
                q = I._as_seq(ctx, v) if not isinstance(v, VObj) else None
                if q is not None:
                    k = z3.Int('q!frame!i')
                    body = SHAREDP(q[0][k]) if kind == 'shared' else Z.Not(SHAREDP(q[0][k]))
                    ctx.assume(z3.ForAll([k], z3.Implies(z3.And(k >= 0, k < z3.Length(q[0])), body)))
                elif isinstance(v, VObj):
                    ctx.assume(SHAREDP(v.z) if kind == 'shared' else Z.Not(SHAREDP(v.z)))
                elif isinstance(v, VRef):
                    if kind == 'private':
                        ctx.frame_ok.add(v.rid)
                elif not isinstance(v, VNone):
                    raise ContractError('frame entry %r of %s is not an object or a sequence of objects' % (text, c.target))
        ctx.frame_mark = ctx.next_rid

    def _frame_exit(self, ctx, c, fname, node=None):
        if c.frame is None:
            return
        conds = getattr(ctx, 'frame_conds', [])
        goal = Z.And(*[g for g, _ in conds]) if conds else Z.TRUE
        ctx.oblige('%s/frame' % fname, goal, 'K', node,
                   note='confinement: stores only into objects of this call / this request; checked stores: %s'
                        % ('; '.join(w for _, w in conds) or 'none'))

    def _post_frame(self, fr, old, extra):
        sfr = self.spec_frame(fr, extra)
        sfr.old = (old[0], old[1], old[2])
        return sfr

    def _exit_normal(self, ctx, c, fr, result, old, fname):
        sfr = self._post_frame(fr, old, {'result': result})
        self._frame_exit(ctx, c, fname)
        for i, e in enumerate(c.ensures):
            g = self.eval_spec(ctx, sfr, e)
            ctx.oblige('%s/ensures[%d]' % (fname, i), g, 'K', None,
                       note=e if isinstance(e, str) else getattr(e, '__name__', 'ensures'))
        for cls, cond in c.raises.items():
            if cond is not None:
                g = self._eval_in_old(ctx, sfr, cond)
                ctx.oblige('%s/raises[%s]/must' % (fname, cls.rsplit('.', 1)[-1]), Z.Not(g), 'K', None,
                           note='returns normally only when the raise condition %r is false' % cond)

    def _eval_in_old(self, ctx, sfr, text):
        old_heap, old_locals, old_attr = sfr.old
        cur_heap, cur_attr = ctx.heap, ctx.attr
        ofr = Frame(sfr.module, sfr.qualname, dict(old_locals), parent=None, cls=sfr.cls, spec=True)
        ofr.selfv = sfr.selfv
        ofr.specns = sfr.specns
        ctx.heap = dict((rid, h.copy()) for rid, h in old_heap.items())
        ctx.attr = dict(old_attr)
        try:
            return self.eval_spec(ctx, ofr, text)
        finally:
            ctx.heap, ctx.attr = cur_heap, cur_attr

    def _exit_raise(self, ctx, c, fr, rs, old, fname):
        I = self.interp
        exc = rs.exc
        lineno = getattr(rs.node, 'lineno', None)
        sfr = self._post_frame(fr, old, {'_exc': exc})
        ctx.raise_frame = fr
        self._frame_exit(ctx, c, fname, rs.node)
        matches = []
        for cls, cond in c.raises.items():
            m = Z.simp(I.exc_isinstance(ctx, exc, cls))
            matches.append((cls, cond, m))
        allowed = Z.Or(*[m for _, _, m in matches]) if matches else Z.FALSE
        if c.may_raise_any:
            allowed = Z.TRUE
        desc = self.describe_exc(ctx, exc)
        xtra = {'exception': desc, 'line': lineno}
        dz = getattr(exc, 'z', None)
        dflt = getattr(ctx, 'default_ext_excs', {}).get(dz.get_id()) if dz is not None and not isinstance(exc, VRef) else None
        if dflt is not None:
            xtra['default_external'] = dflt
        ctx.oblige('%s/raises' % fname, allowed, 'K', rs.node,
                   note='exception %s escapes at line %s; allowed: %s' % (desc, lineno, sorted(c.raises) or 'none'),
                   extra=xtra)
        for cls, cond, m in matches:
            if cond is not None and not Z.is_false(m):
                g = self._eval_in_old(ctx, sfr, cond)
                ctx.oblige('%s/raises[%s]/only-if' % (fname, cls.rsplit('.', 1)[-1]), z3.Implies(m, g), 'K', rs.node,
                           note='%s raised at line %s only when %r' % (cls, lineno, cond))
            if cls in c.raises_ensures and not Z.is_false(m):
                for j, e in enumerate(c.raises_ensures[cls]):
                    g = self.eval_spec(ctx, sfr, e)
                    ctx.oblige('%s/raises[%s]/ensures[%d]' % (fname, cls.rsplit('.', 1)[-1], j), z3.Implies(m, g), 'K', rs.node,
                               note=str(e))
        for j, e in enumerate(c.exc_ensures):
            g = self.eval_spec(ctx, sfr, e)
            ctx.oblige('%s/exc_ensures[%d]' % (fname, j), g, 'K', rs.node, note=str(e))
        for cls, cond in c.raises_only_if.items():
            m = Z.simp(I.exc_isinstance(ctx, exc, cls))
            if Z.is_false(m):
                continue
            g = self._eval_in_old(ctx, sfr, cond)
            ctx.oblige('%s/raises[%s]/only-if' % (fname, cls.rsplit('.', 1)[-1]), z3.Implies(m, g), 'K', rs.node,
                       note='%s raised at line %s only when %r' % (cls, lineno, cond))
        for cls, cond in c.raises_local.items():
            m = Z.simp(I.exc_isinstance(ctx, exc, cls))
            if Z.is_false(m):
                continue
            g = self.eval_spec(ctx, sfr, cond)
            ctx.oblige('%s/raises[%s]/only-if' % (fname, cls.rsplit('.', 1)[-1]), z3.Implies(m, g), 'K', rs.node,
                       note='%s raised at line %s only when %r' % (cls, lineno, cond))

    def describe_exc(self, ctx, exc):
        if isinstance(exc, VRef):
            h = ctx.heap[exc.rid]
            msg = ''
            a = h.fields.get('args')
            if isinstance(a, VTuple) and a.items and isinstance(a.items[0], VStr):
                msg = a.items[0].const() or ''
            return '%s(%s)' % (h.cls.rsplit('.', 1)[-1], msg)
        return 'exception of an unknown class (%s)' % exc.z
