"""Loops: unrolling over concrete collections, cut points with invariants over
symbolic ones, and canonical filter-map functions for comprehensions."""
import ast
import hashlib

import z3

from . import z as Z
from .values import *   # noqa
from .state import Unsupported, ContractError, PathEnd, ReturnSig, RaiseSig, BreakSig, ContinueSig


class LoopSpec(object):
    def __init__(self, inv=(), modifies=None, havoc=None, havoc_attrs=(), note='', ghost=None, post=None):
        self.inv = [inv] if isinstance(inv, str) else list(inv)
        self.modifies = modifies or {}      # expression text -> T or None
        if isinstance(self.modifies, (list, tuple)):
            self.modifies = dict((m, None) for m in self.modifies)
        self.havoc = havoc or {}            # local name -> T
        self.havoc_attrs = list(havoc_attrs)
        self.post = list(post) if post else None     # loop postcondition: cut point after the loop
        self.ghost = ghost or {}            # name -> expression evaluated (and frozen) at loop entry
        self.note = note


def loop_key(node):
    return (ast.unparse(node.target), ast.unparse(node.iter))


def assigned_names(stmts):
    names = []

    class W(ast.NodeVisitor):
        def visit_Name(self, n):
            if isinstance(n.ctx, (ast.Store, ast.Del)) and n.id not in names:
                names.append(n.id)

        def visit_FunctionDef(self, n):
            if n.name not in names:
                names.append(n.name)

        def visit_Lambda(self, n):
            pass

        def visit_ListComp(self, n):
            pass
        visit_SetComp = visit_DictComp = visit_GeneratorExp = visit_ListComp

    for s in stmts:
        W().visit(s)
    return names


def fresh_like(ctx, v, name):
    if isinstance(v, VInt):
        return VInt(Z.fresh(name, Z.Int))
    if isinstance(v, VBool):
        return VBool(Z.fresh(name, Z.Bool))
    if isinstance(v, VStr):
        return VStr(Z.fresh(name, Z.Str))
    if isinstance(v, VBytes):
        return VBytes(Z.fresh(name, Z.Str))
    if isinstance(v, VFloat):
        return VFloat(Z.fresh(name, Z.Flt))
    if isinstance(v, VObj):
        return VObj(Z.fresh(name, Z.Obj), v.cls)
    if isinstance(v, VSeq):
        return VSeq(Z.fresh(name, v.z.sort()), v.et)
    if isinstance(v, VSet):
        return VSet(Z.fresh(name, v.z.sort()), v.et)
    if isinstance(v, VOpt):
        return VOpt(Z.fresh(name + '_isnone', Z.Bool), fresh_like(ctx, v.val, name))
    return None


class Loops(object):
    def __init__(self, engine):
        self.engine = engine

    # ------------------------------------------------------------------
    def exec_for(self, I, ctx, fr, node):
        from . import models as M
        itv = I.resolve(ctx, I.ev(ctx, fr, node.iter))
        try:
            items = I.iter_concrete(ctx, itv, node)
        except Unsupported:
            items = None
        if items is not None:
            broke = False
            for it in items:
                I.assign(ctx, fr, node.target, it, node)
                try:
                    I.exec_block(ctx, fr, node.body)
                except BreakSig:
                    broke = True
                    break
                except ContinueSig:
                    continue
            if not broke:
                I.exec_block(ctx, fr, node.orelse)
            return
        if isinstance(itv, M.VIter):
            itv = itv.sym
        spec = self.engine.loop_spec(fr, node)
        if spec is None:
            raise Unsupported('loop over a symbolic collection without an invariant: for %s in %s'
                              % loop_key(node), node)
        return self.cut_for(I, ctx, fr, node, itv, spec)

    def exec_while(self, I, ctx, fr, node):
        # bounded unrolling is only allowed when the condition becomes decidable
        for _ in range(64):
            c = I.ev(ctx, fr, node.test)
            t = Z.simp(I.truth(ctx, c))
            if Z.is_false(t):
                I.exec_block(ctx, fr, node.orelse)
                return
            if not Z.is_true(t):
                raise Unsupported('while loop with a symbolic condition (needs an invariant)', node)
            try:
                I.exec_block(ctx, fr, node.body)
            except BreakSig:
                return
            except ContinueSig:
                continue
        raise Unsupported('while loop did not terminate in 64 concrete iterations', node)

    # ------------------------------------------------------------------
    def _iteration_model(self, I, ctx, itv, node):
        """Describe a symbolic iterable.  Returns dict with:
        kind, ghosts_for(mode) -> (ghost locals, element value(s), facts)."""
        from . import models as M
        from .models2 import VZipLazy, VItems, VRange
        from .models2 import VReversed
        if isinstance(itv, VReversed):
            # reversed(s): a sequence r with len(r) == len(s) and r[i] == s[len(s)-1-i]
            z, et = itv.seq.z, itv.seq.et
            r = Z.func('rev<%s>' % z.sort(), z.sort(), z.sort())(z)
            n = z3.Length(z)
            i = z3.Int('q!rev!i')
            ctx.assume(z3.Length(r) == n)
            ctx.assume(z3.ForAll([i], z3.Implies(z3.And(i >= 0, i < n), r[i] == z[n - 1 - i])))
            return ('seq', (r, et))
        if isinstance(itv, VZipLazy):
            return ('zip', itv.seqs)
        if isinstance(itv, VItems):
            return ('items', M.dict_sym(I, ctx, itv.dv))
        if isinstance(itv, VRange):
            return ('range', itv.bounds)
        if isinstance(itv, VNames):
            return ('set', (nset(itv.z), TStr))
        q = I._as_seq(ctx, itv)
        if q is not None:
            return ('seq', q)
        s = I._as_set(ctx, itv)
        if s is not None:
            return ('set', s)
        if isinstance(itv, VMap) or isinstance(I.hobj(ctx, itv), HDict):
            d = M.dict_sym(I, ctx, itv)
            return ('set', (d[0], d[2]))
        if isinstance(itv, VZip):
            return ('zipcols', itv.cols)
        raise Unsupported('iteration over %r' % (itv,), node)

    def cut_for(self, I, ctx, fr, node, itv, spec):
        from .interp import Frame
        key = loop_key(node)
        lid = 'loop(%s in %s)' % key
        fname = ctx.func
        kind, data = self._iteration_model(I, ctx, itv, node)

        def ghosts(done, idx, rest=None, extra=None):
            g = dict(entry_ghosts)
            g['_i'] = VInt(idx)
            if done is not None:
                g['_done'] = done
            if rest is not None:
                g['_rest'] = rest
            g.update(extra or {})
            return g

        entry = (ctx.snapshot_heap(), dict(fr.locals), dict(ctx.attr))
        entry_ghosts = {}
        for gname, gexpr in spec.ghost.items():
            gfr = self.engine.spec_frame(fr, {})
            ctx.no_branch = getattr(ctx, 'no_branch', 0) + 1
            try:
                entry_ghosts[gname] = self.engine.freeze(ctx, I.ev(ctx, gfr, ast.parse(gexpr, mode='eval').body))
            finally:
                ctx.no_branch -= 1

        def check_inv(tag, g):
            sfr = self.engine.spec_frame(fr, g)
            sfr.entry = entry
            for j, inv in enumerate(spec.inv):
                val = self.engine.eval_spec(ctx, sfr, inv)
                ctx.oblige('%s/%s/%s[%d]' % (fname, lid, tag, j), val, 'K', node,
                           note='invariant %r' % inv)

        def check_post(g):
            sfr = self.engine.spec_frame(fr, g)
            sfr.entry = entry
            for j, pexpr in enumerate(spec.post):
                val = self.engine.eval_spec(ctx, sfr, pexpr)
                ctx.oblige('%s/%s/post[%d]' % (fname, lid, j), val, 'K', node, note='loop postcondition %r' % pexpr)

        def assume_inv(g):
            sfr = self.engine.spec_frame(fr, g)
            sfr.entry = entry
            for inv in spec.inv:
                ctx.assume(self.engine.eval_spec(ctx, sfr, inv))

        # 1. invariant holds on entry
        if kind == 'seq':
            entry_ghosts['_seq'] = VSeq(data[0], data[1])
            z, et = data
            g0 = ghosts(VSeq(Z.empty_seq(et.zsort), et), z3.IntVal(0), VSeq(z, et))
        elif kind in ('set', 'items'):
            dom = data[0]
            kt = data[1] if kind == 'set' else data[2]
            g0 = ghosts(VSet(Z.empty_set(kt.zsort), kt), z3.IntVal(0))
        elif kind == 'range':
            g0 = ghosts(None, data[0] if len(data) > 1 else z3.IntVal(0))
        else:
            g0 = ghosts(None, z3.IntVal(0))
        check_inv('init', g0)

        # 2. resolve modifies to heap objects, before the fork
        mod_refs = {}
        for expr, t in spec.modifies.items():
            sfr = self.engine.spec_frame(fr, {})
            sfr.spec = False
            v = I.resolve(ctx, I.ev(ctx, sfr, ast.parse(expr, mode='eval').body))
            if not isinstance(v, VRef):
                raise ContractError('loop modifies entry %r is not a heap object' % expr)
            mod_refs[expr] = (v, t)

        mode = ctx.nondet(3 if spec.post is not None else 2, lid)
        if spec.post is not None and node.orelse:
            raise ContractError('loop postconditions are not supported for loops with an else clause')

        # 3. havoc
        names = assigned_names(node.body + [ast.Expr(node.target)] )
        tnames = assigned_names([ast.Assign(targets=[node.target], value=ast.Constant(0))])
        for nme in names:
            if nme in tnames:
                continue
            if nme in spec.havoc:
                fr.locals[nme] = spec.havoc[nme].fresh(ctx, nme + '#')
                continue
            cur = fr.locals.get(nme)
            if cur is None:
                continue
            nv = fresh_like(ctx, cur, nme + '#')
            if nv is None:
                if isinstance(cur, VRef) and any(cur.rid == r.rid for r, _ in mod_refs.values()):
                    continue
                if isinstance(cur, (VNone, VTuple, VRef, VCallable)):
                    raise ContractError('loop %s assigns %r (currently %r): give its type in havoc'
                                        % (lid, nme, cur))
                raise ContractError('cannot havoc %r' % nme)
            fr.locals[nme] = nv
        for nme, t in spec.havoc.items():
            if nme not in names:
                fr.locals[nme] = t.fresh(ctx, nme + '#')
        for expr, (ref, t) in mod_refs.items():
            self._havoc_ref(I, ctx, ref, t, expr)
        for a in spec.havoc_attrs:
            for k in list(ctx.attr.keys()):
                if k.split('.')[-1] == a:
                    ctx.attr[k] = Z.fresh('H:%s' % k, ctx.attr[k].sort())

        if mode == 1:
            # after the loop: every element has been processed
            if kind == 'seq':
                z, et = data
                g = ghosts(VSeq(z, et), z3.Length(z), VSeq(Z.empty_seq(et.zsort), et))
            elif kind in ('set', 'items'):
                dom = data[0]
                kt = data[1] if kind == 'set' else data[2]
                g = ghosts(VSet(dom, kt), Z.fresh('_n', Z.Int))
            elif kind == 'zip':
                n = Z.fresh('_n', Z.Int)
                ctx.assume(n >= 0)
                for s in data:
                    ctx.assume(n <= z3.Length(s.z))
                ctx.assume(Z.Or(*[n == z3.Length(s.z) for s in data]))
                g = ghosts(None, n)
            elif kind == 'zipcols':
                g = ghosts(None, z3.Length(data[0].z))
            elif kind == 'range':
                lo = data[0] if len(data) > 1 else z3.IntVal(0)
                hi = data[1] if len(data) > 1 else data[0]
                g = ghosts(None, z3.If(hi > lo, hi, lo))
            assume_inv(g)
            # the ghosts of the finished loop stay visible to later spec expressions
            fr.loop_ghosts = dict(getattr(fr, 'loop_ghosts', None) or {}, **g)
            if spec.post is not None:
                check_post(g)
                self._end_path(ctx, fname, node)
            I.exec_block(ctx, fr, node.orelse)
            return

        if mode == 2:
            # continuation after the loop: everything the loop may have changed is havocked
            # (done above) and only the loop postcondition is known
            gi = Z.fresh('_i', Z.Int)
            ctx.assume(gi >= 0)
            g = ghosts(None, gi)
            sfr = self.engine.spec_frame(fr, g)
            sfr.entry = entry
            for pexpr in spec.post:
                ctx.assume(self.engine.eval_spec(ctx, sfr, pexpr))
            fr.loop_ghosts = dict(getattr(fr, 'loop_ghosts', None) or {}, **g)
            return

        # an arbitrary iteration
        if kind == 'seq':
            z, et = data
            done = Z.fresh('_done', z.sort())
            rest = Z.fresh('_rest', z.sort())
            x = Z.fresh('_x', et.zsort)
            ctx.assume(z == z3.Concat(done, z3.Unit(x), rest))
            idx = z3.Length(done)
            # redundant consequences, stated to spare the sequence solver the derivation
            ctx.assume(z[idx] == x)
            ctx.assume(z3.Length(z) == idx + 1 + z3.Length(rest))
            # the iterated sequence is a concatenation: say which part the element comes from
            zs = Z.simp(z)
            if z3.is_app(zs) and zs.decl().kind() == z3.Z3_OP_SEQ_CONCAT:
                off = z3.IntVal(0)
                for pi in range(zs.num_args()):
                    part = zs.arg(pi)
                    ln = z3.Length(part)
                    inpart = z3.And(idx >= off, idx < off + ln)
                    if z3.is_app(part) and part.decl().kind() == z3.Z3_OP_SEQ_UNIT:
                        ctx.assume(z3.Implies(idx == off, x == part.arg(0)))
                    else:
                        ctx.assume(z3.Implies(inpart, x == part[idx - off]))
                    off = Z.simp(off + ln)
            g = ghosts(VSeq(done, et), idx, VSeq(rest, et))
            inv_e = et.inv(x)
            if inv_e is not None:
                ctx.assume(inv_e)
            elem = et.wrap(x)
            g2 = ghosts(VSeq(z3.Concat(done, z3.Unit(x)), et), idx + 1, VSeq(rest, et))
        elif kind == 'set':
            dom, kt = data
            done = Z.fresh('_done', dom.sort())
            x = Z.fresh('_x', kt.zsort)
            ctx.assume(z3.IsSubset(done, dom))
            ctx.assume(z3.IsMember(x, dom))
            ctx.assume(Z.Not(z3.IsMember(x, done)))
            idx = Z.fresh('_i', Z.Int)
            ctx.assume(idx >= 0)
            g = ghosts(VSet(done, kt), idx)
            elem = kt.wrap(x)
            g2 = ghosts(VSet(z3.SetAdd(done, x), kt), idx + 1)
        elif kind == 'items':
            dom, arr, kt, vt = data
            done = Z.fresh('_done', dom.sort())
            x = Z.fresh('_k', kt.zsort)
            ctx.assume(z3.IsSubset(done, dom))
            ctx.assume(z3.IsMember(x, dom))
            ctx.assume(Z.Not(z3.IsMember(x, done)))
            idx = Z.fresh('_i', Z.Int)
            ctx.assume(idx >= 0)
            g = ghosts(VSet(done, kt), idx)
            val = vt.wrap(Z.simp(z3.Select(arr, x)))
            iv = vt.inv(z3.Select(arr, x))
            if iv is not None:
                ctx.assume(iv)
            elem = VTuple([kt.wrap(x), val])
            g2 = ghosts(VSet(z3.SetAdd(done, x), kt), idx + 1)
        elif kind in ('zip', 'zipcols'):
            idx = Z.fresh('_i', Z.Int)
            ctx.assume(idx >= 0)
            for s in data:
                ctx.assume(idx < z3.Length(s.z))
            g = ghosts(None, idx)
            elems = []
            for s in data:
                e = s.z[idx]
                iv = s.et.inv(e)
                if iv is not None:
                    ctx.assume(iv)
                elems.append(s.et.wrap(e))
            elem = VTuple(elems)
            g2 = ghosts(None, idx + 1)
        elif kind == 'range':
            lo = data[0] if len(data) > 1 else z3.IntVal(0)
            hi = data[1] if len(data) > 1 else data[0]
            idx = Z.fresh('_i', Z.Int)
            ctx.assume(idx >= lo)
            ctx.assume(idx < hi)
            g = ghosts(None, idx)
            elem = VInt(idx)
            g2 = ghosts(None, idx + 1)
        assume_inv(g)
        I.assign(ctx, fr, node.target, elem, node)
        saved_ghosts = getattr(fr, 'loop_ghosts', None)
        fr.loop_ghosts = dict(saved_ghosts or {}, **g)
        mark = ctx.next_rid
        ctx.loop_guard.append((mark, set(r.rid for r, _ in mod_refs.values()), '%s/%s/frame' % (fname, lid)))
        attr_before = dict(ctx.attr)
        try:
            try:
                I.exec_block(ctx, fr, node.body)
            except ContinueSig:
                pass
        except BreakSig:
            ctx.loop_guard.pop()
            if spec.post is not None:
                check_post(g)
                self._end_path(ctx, fname, node)
            return      # the ghosts of the interrupted iteration stay visible (which element answered)
        except (ReturnSig, RaiseSig):
            ctx.loop_guard.pop()
            raise
        ctx.loop_guard.pop()
        fr.loop_ghosts = saved_ghosts
        for k, a in ctx.attr.items():
            changed = (not attr_before[k].eq(a)) if k in attr_before else (not a.eq(Z.const('H0:%s' % k, a.sort())))
            if changed and k.split('.')[-1] not in spec.havoc_attrs:
                raise Unsupported('loop body writes attribute %r of an opaque object; list it in '
                                  'havoc_attrs' % k, node)
        check_inv('preserve', g2)
        ctx.oblige('%s/%s/frame' % (fname, lid), Z.TRUE, 'K', node, note='loop frame: only the objects listed in modifies are stored into')
        self._end_path(ctx, fname, node)

    def _end_path(self, ctx, fname, node):
        # a path that ends at a cut point still owes the frame obligation for its stores
        cur = self.engine.current
        if cur is not None and cur.frame is not None:
            self.engine._frame_exit(ctx, cur, fname, node)
        raise PathEnd()

    def _havoc_ref(self, I, ctx, ref, t, expr):
        from . import models as M
        h = ctx.heap[ref.rid]
        nm = expr.replace('.', '_') + '#'
        if isinstance(h, HList):
            if h.items is not None:
                et = t.et if t is not None else I.guess_elem_type(h.items)
                if et is None:
                    raise ContractError('loop modifies %r: give the list type' % expr)
                M.list_to_sym(I, ctx, ref, et)
            h.z = Z.fresh(nm, h.z.sort())
        elif isinstance(h, HSet):
            if t is not None and t.et.zsort != h.et.zsort:
                M.set_retype(h, t.et)
            elif t is not None:
                h.et = t.et
            h.z = Z.fresh(nm, h.z.sort())
        elif isinstance(h, HDict):
            if h.conc is not None:
                if t is not None:
                    if h.conc:
                        M.dict_to_sym(I, ctx, ref, vt=t.vt)
                    else:
                        h.conc = None
                        h.kt, h.vt = t.kt, t.vt
                        h.dom = Z.empty_set(t.kt.zsort)
                        h.arr = z3.K(t.kt.zsort, Z.fresh('dflt', t.vt.zsort))
                else:
                    M.dict_to_sym(I, ctx, ref)
            h.dom = Z.fresh(nm + 'dom', h.dom.sort())
            h.arr = Z.fresh(nm + 'arr', h.arr.sort())
        else:
            raise ContractError('loop modifies %r: instances must be listed field by field' % expr)

    # ------------------------------------------------------------------
    def symbolic_comprehension(self, I, ctx, fr, node, kind, gen, itv):
        from .interp import Frame
        from . import models as M
        from .models2 import VItems
        if isinstance(itv, VItems):
            return self.items_comprehension(I, ctx, fr, node, kind, gen, itv)
        q = I._as_seq(ctx, itv)
        if q is None:
            s = I._as_set(ctx, itv)
            if s is not None and kind in ('set',):
                q = None
            raise Unsupported('comprehension over %r' % (itv,), node)
        z, et = q
        # memo: the result depends only on the iterated term, the comprehension node, the
        # attribute heap and the free locals the body mentions
        free = []
        for nme in sorted(set(n.id for n in ast.walk(node) if isinstance(n, ast.Name))):
            v = fr.lookup(nme)
            free.append((nme, v.z.get_id() if hasattr(v, 'z') and z3.is_expr(getattr(v, 'z', None)) else
                         (('rid', v.rid, id(ctx.heap.get(v.rid))) if isinstance(v, VRef) else id(v))))
        mkey = (id(node), kind, z.get_id(), tuple(sorted((k, a.get_id()) for k, a in ctx.attr.items())), tuple(free), fr.spec)
        memo = self.engine.comp_memo.get(mkey)
        if memo is not None and not any(isinstance(fr.lookup(nme), VRef) for nme, _ in free):
            cols, is_tuple, facts, infos = memo[1]
            for f_ in facts:
                ctx.assume(f_)
            ctx.comp_info = getattr(ctx, 'comp_info', {})
            ctx.comp_info.update(infos)
            # re-create attribute arrays the body reads (they are created lazily)
            for k_, a_ in memo[2].items():
                ctx.attr.setdefault(k_, a_)
            return self._finish_comp(ctx, fr, kind, cols, is_tuple)
        attr_keys_before = set(ctx.attr.keys())
        xv = z3.Const('comp!x', et.zsort)
        cfr = Frame(fr.module, fr.qualname, {}, parent=fr, cls=fr.cls, spec=True)
        cfr.selfv = fr.selfv
        saved_pc = len(ctx.pc)
        saved_trail = (ctx.pos, len(ctx.trail))
        ctx.no_branch = getattr(ctx, 'no_branch', 0) + 1
        try:
            I.assign(ctx, cfr, gen.target, et.wrap(xv), node)
            conds = [I.truth(ctx, I.ev(ctx, cfr, c)) for c in gen.ifs]
            cond = Z.simp(Z.And(*conds)) if conds else Z.TRUE
            if kind == 'dict':
                raise Unsupported('dict comprehension over a symbolic sequence', node)
            eltv = I.resolve(ctx, I.ev(ctx, cfr, node.elt))
        finally:
            ctx.no_branch -= 1
        # facts assumed while evaluating the body mention the bound variable:
        # they are type invariants of attribute reads; drop them from the path
        del ctx.pc[saved_pc:]
        comps = eltv.items if isinstance(eltv, VTuple) else [eltv]
        cols = []
        infos = {}
        for c in comps:
            ct, cz = self._embed(I, ctx, c, node)
            fm = self.filter_map(et.zsort, ct.zsort, xv, cond, cz)
            out = fm(z)
            infos[out.get_id()] = (z, et, xv, cond, cz, ct, out)
            cols.append(VSeq(out, ct))
        ctx.comp_info = getattr(ctx, 'comp_info', {})
        ctx.comp_info.update(infos)
        facts = []
        if isinstance(eltv, VTuple):
            for c in cols[1:]:
                facts.append(z3.Length(c.z) == z3.Length(cols[0].z))
        for f_ in facts:
            ctx.assume(f_)
        new_attrs = dict((k, a) for k, a in ctx.attr.items() if k not in attr_keys_before)
        self.engine.comp_memo[mkey] = (node, (cols, isinstance(eltv, VTuple), facts, infos), new_attrs)
        return self._finish_comp(ctx, fr, kind, cols, isinstance(eltv, VTuple))

    def _finish_comp(self, ctx, fr, kind, cols, is_tuple):
        from . import models as M
        if is_tuple:
            return VZip(cols)
        if kind == 'set':
            return ctx.alloc(HSet(M.elems_of(cols[0].z), cols[0].et))
        if kind == 'gen' or fr.spec:
            return cols[0]
        return ctx.alloc(HList(z=cols[0].z, et=cols[0].et))

    def items_comprehension(self, I, ctx, fr, node, kind, gen, itv):
        """[(k, v) for k, v in d.items() if cond(k)] over a symbolic dict: the
        result is the restriction of d to the keys satisfying cond."""
        from .interp import Frame
        from . import models as M
        from .models2 import VPairs
        dom, arr, kt, vt = M.dict_sym(I, ctx, itv.dv)
        kx = z3.Const('comp!k', kt.zsort)
        cfr = Frame(fr.module, fr.qualname, {}, parent=fr, cls=fr.cls, spec=True)
        cfr.selfv = fr.selfv
        saved_pc = len(ctx.pc)
        ctx.no_branch = getattr(ctx, 'no_branch', 0) + 1
        try:
            kv = kt.wrap(kx)
            vv = vt.wrap(z3.Select(arr, kx))
            I.assign(ctx, cfr, gen.target, VTuple([kv, vv]), node)
            conds = [I.truth(ctx, I.ev(ctx, cfr, c)) for c in gen.ifs]
            cond = Z.simp(Z.And(*conds)) if conds else Z.TRUE
            elt = I.ev(ctx, cfr, node.elt) if kind != 'dict' else VTuple([I.ev(ctx, cfr, node.key), I.ev(ctx, cfr, node.value)])
        finally:
            ctx.no_branch -= 1
        del ctx.pc[saved_pc:]
        def same(a, b):
            return a is b or (hasattr(a, 'z') and hasattr(b, 'z') and a.z.sort() == b.z.sort() and Z.simp(a.z).eq(Z.simp(b.z)))
        if not (isinstance(elt, VTuple) and len(elt.items) == 2 and same(elt.items[0], kv) and same(elt.items[1], vv)):
            raise Unsupported('comprehension over dict items that is not a key/value filter', node)
        ndom = z3.Lambda([kx], z3.And(z3.IsMember(kx, dom), cond))
        if kind == 'dict':
            return ctx.alloc(HDict(dom=ndom, arr=arr, kt=kt, vt=vt))
        return VPairs(ndom, arr, kt, vt)

    def _embed(self, I, ctx, v, node):
        if isinstance(v, VInt):
            return TInt, v.z
        if isinstance(v, VBool):
            return TBool, v.z
        if isinstance(v, VStr):
            return TStr, v.z
        if isinstance(v, VObj):
            return TObj(v.cls), v.z
        if isinstance(v, VSeq):
            return TSeq(v.et), v.z
        if isinstance(v, VSet):
            return TSet(v.et), v.z
        if isinstance(v, VNames):
            return TNames, v.z
        if isinstance(v, (VRef, VNone, VCallable, VOpt, VTuple)):
            return TObj(), box(v, ctx)
        raise Unsupported('comprehension element %r' % (v,), node)

    def filter_map(self, in_sort, out_sort, xv, cond, elt):
        key = 'fm|%s|%s|%s|%s' % (in_sort, out_sort, cond.sexpr(), elt.sexpr())
        name = 'fm_' + hashlib.sha1(key.encode()).hexdigest()[:10]
        rk = ('rec', name)
        f = Z._FUNCS.get(rk)
        if f is None:
            seqs = Z.SeqSort(in_sort)
            f = z3.RecFunction(name, seqs, Z.SeqSort(out_sort))
            s = z3.Const('fm!s', seqs)
            n = z3.Length(s)
            last = s[n - 1]
            c = z3.substitute(cond, (xv, last))
            e = z3.substitute(elt, (xv, last))
            body = z3.If(n <= 0, Z.empty_seq(out_sort),
                         z3.Concat(f(z3.Extract(s, 0, n - 1)),
                                   z3.If(c, z3.Unit(e), Z.empty_seq(out_sort))))
            z3.RecAddDefinition(f, [s], body)
            Z._FUNCS[rk] = f
            self.engine.fm_defs[name] = (in_sort, out_sort, xv, cond, elt)
        return f
