"""Symbolic values ("types concrete, values symbolic") and type descriptors.

A V is what an expression evaluates to on one path.  Its Python-level kind is
known on the path; only the content is a z3 term.  Mutable containers and
instances with concrete identity live in the path's heap and are referred to
by VRef; objects whose structure is not modelled are terms of sort Obj.
"""
import z3

from . import z as Z


class V(object):
    kind = '?'

    def __repr__(self):
        return '<%s>' % self.kind


class VInt(V):
    kind = 'int'

    def __init__(self, z):
        self.z = z if z3.is_expr(z) else z3.IntVal(z)

    def __repr__(self):
        return 'VInt(%s)' % self.z


class VBool(V):
    kind = 'bool'

    def __init__(self, z):
        self.z = z if z3.is_expr(z) else z3.BoolVal(bool(z))

    def __repr__(self):
        return 'VBool(%s)' % self.z


class VStr(V):
    kind = 'str'

    def __init__(self, z):
        self.z = z if z3.is_expr(z) else z3.StringVal(z)

    def const(self):
        s = Z.simp(self.z)
        if z3.is_string_value(s):
            return s.as_string()
        return None

    def __repr__(self):
        return 'VStr(%s)' % self.z


class VBytes(V):
    kind = 'bytes'

    def __init__(self, z):
        self.z = z if z3.is_expr(z) else z3.StringVal(z)

    def __repr__(self):
        return 'VBytes(%s)' % self.z


class VFloat(V):
    kind = 'float'

    def __init__(self, z=None):
        self.z = z if z is not None else Z.fresh('flt', Z.Flt)


class VNone(V):
    kind = 'None'

    def __repr__(self):
        return 'VNone'


NONE = VNone()


class VObj(V):
    """An object of sort Obj.  `cls` is a static class hint (key of the opaque
    class table) used to type attribute reads; None = nothing known."""
    kind = 'obj'

    def __init__(self, z, cls=None):
        self.z = z
        self.cls = cls

    def __repr__(self):
        return 'VObj(%s:%s)' % (self.z, self.cls)


class VTuple(V):
    kind = 'tuple'

    def __init__(self, items):
        self.items = list(items)

    def __repr__(self):
        return 'VTuple(%r)' % (self.items,)


class VSeq(V):
    """Immutable sequence of symbolic length (a tuple, or a list nobody
    mutates)."""
    kind = 'seq'

    def __init__(self, z, et):
        self.z = z
        self.et = et

    def __repr__(self):
        return 'VSeq(%s)' % self.z


class VZip(V):
    """Sequence of k-tuples in struct-of-arrays form: k parallel sequences of
    equal length."""
    kind = 'zipseq'

    def __init__(self, cols):
        self.cols = list(cols)   # list of VSeq


class VSet(V):
    """Immutable set value (frozenset, dict-keys view snapshot, spec-level set)."""
    kind = 'setval'

    def __init__(self, z, et):
        self.z = z
        self.et = et

    def __repr__(self):
        return 'VSet(%s)' % self.z


class VNames(V):
    """An ordered collection of distinct names whose order is abstracted: a
    term of the uninterpreted sort Names with nset(n) its set of elements.
    (z3's sequence solver cannot build models once Seq-valued functions are
    nested, so name tuples are sequences only where iteration order matters.)"""
    kind = 'names'

    def __init__(self, z):
        self.z = z

    def __repr__(self):
        return 'VNames(%s)' % self.z


class VMap(V):
    """Immutable map value: domain set + array."""
    kind = 'mapval'

    def __init__(self, dom, arr, kt, vt):
        self.dom = dom
        self.arr = arr
        self.kt = kt
        self.vt = vt


class VRef(V):
    kind = 'ref'

    def __init__(self, rid):
        self.rid = rid

    def __repr__(self):
        return 'VRef(%d)' % self.rid


class VOpt(V):
    """Either None (when isnone) or val.  Resolved by a branch when used."""
    kind = 'opt'

    def __init__(self, isnone, val):
        self.isnone = isnone
        self.val = val


class VCallable(V):
    kind = 'callable'


class VRepoFunc(VCallable):
    """A function defined in the repository source (or a nested def / lambda)."""

    def __init__(self, qualname, node, module, closure=None, defaults=None, cls=None):
        self.qualname = qualname
        self.node = node
        self.module = module
        self.closure = closure      # enclosing Frame, for nested defs
        self.defaults = defaults    # evaluated defaults of nested defs
        self.cls = cls              # owning class name, for methods

    def __repr__(self):
        return 'VRepoFunc(%s)' % self.qualname


class VBound(VCallable):
    def __init__(self, selfv, func):
        self.selfv = selfv
        self.func = func            # VRepoFunc or a model name

    def __repr__(self):
        return 'VBound(%r, %r)' % (self.selfv, self.func)


class VMethod(VCallable):
    """Bound built-in method: obj.method, resolved at call time."""

    def __init__(self, selfv, name):
        self.selfv = selfv
        self.name = name

    def __repr__(self):
        return 'VMethod(%r.%s)' % (self.selfv, self.name)


class VBuiltin(VCallable):
    def __init__(self, name):
        self.name = name

    def __repr__(self):
        return 'VBuiltin(%s)' % self.name


class VExternal(VCallable):
    """Something imported from outside the repository (dotted name)."""

    def __init__(self, name):
        self.name = name

    def __repr__(self):
        return 'VExternal(%s)' % self.name


class VClass(VCallable):
    """A class: repo class (node set) or external/builtin (name only)."""

    def __init__(self, name, node=None, module=None):
        self.name = name
        self.node = node
        self.module = module

    def __repr__(self):
        return 'VClass(%s)' % self.name


class VModule(V):
    kind = 'module'

    def __init__(self, name):
        self.name = name


class VSuper(V):
    kind = 'super'

    def __init__(self, cls, selfv):
        self.cls = cls
        self.selfv = selfv


# ---------------------------------------------------------------------------
# heap objects


class HList(object):
    """Mutable list: concrete (items) or symbolic (z: Seq, et)."""

    def __init__(self, items=None, z=None, et=None):
        self.items = items
        self.z = z
        self.et = et

    def copy(self):
        return HList(list(self.items) if self.items is not None else None, self.z, self.et)


class HSet(object):
    def __init__(self, z, et):
        self.z = z
        self.et = et

    def copy(self):
        return HSet(self.z, self.et)


class HDict(object):
    """Mutable dict.  Concrete form: ordered python dict from python constant
    keys to V.  Symbolic form: domain set + array over (kt, vt)."""

    def __init__(self, conc=None, dom=None, arr=None, kt=None, vt=None, default=None):
        self.conc = conc
        self.dom = dom
        self.arr = arr
        self.kt = kt
        self.vt = vt
        self.default = default   # defaultdict factory tag

    def copy(self):
        return HDict(dict(self.conc) if self.conc is not None else None,
                     self.dom, self.arr, self.kt, self.vt, self.default)


class HInst(object):
    """Instance with concrete identity: class name + field map."""

    def __init__(self, cls, fields=None, ftypes=None):
        self.cls = cls
        self.fields = dict(fields or {})
        self.ftypes = ftypes or {}
        self.z = None   # Obj constant standing for this object when boxed

    def copy(self):
        h = HInst(self.cls, dict(self.fields), self.ftypes)
        h.z = self.z
        return h


# ---------------------------------------------------------------------------
# type descriptors


class T(object):
    zsort = None          # z3 sort when the type embeds into a term, else None

    def wrap(self, z):
        raise NotImplementedError(self)

    def to_z(self, v, ctx=None):
        raise NotImplementedError((self, v))

    def inv(self, z):
        return None

    def fresh(self, ctx, name):
        zt = Z.fresh(name, self.zsort)
        i = self.inv(zt)
        if i is not None and ctx is not None:
            ctx.assume(i)
        return self.wrap(zt)


class _TInt(T):
    zsort = Z.Int

    def wrap(self, z):
        return VInt(z)

    def to_z(self, v, ctx=None):
        if isinstance(v, VInt):
            return v.z
        if isinstance(v, VBool):
            return z3.If(v.z, z3.IntVal(1), z3.IntVal(0))
        raise TypeError('not an int: %r' % v)

    def __repr__(self):
        return 'TInt'


class _TBool(T):
    zsort = Z.Bool

    def wrap(self, z):
        return VBool(z)

    def to_z(self, v, ctx=None):
        if isinstance(v, VBool):
            return v.z
        raise TypeError('not a bool: %r' % v)

    def __repr__(self):
        return 'TBool'


class _TStr(T):
    zsort = Z.Str

    def wrap(self, z):
        return VStr(z)

    def to_z(self, v, ctx=None):
        if isinstance(v, VStr):
            return v.z
        raise TypeError('not a str: %r' % v)

    def __repr__(self):
        return 'TStr'


class _TBytes(T):
    zsort = Z.Str

    def wrap(self, z):
        return VBytes(z)

    def to_z(self, v, ctx=None):
        if isinstance(v, VBytes):
            return v.z
        raise TypeError('not bytes: %r' % v)

    def __repr__(self):
        return 'TBytes'


class _TFloat(T):
    zsort = Z.Flt

    def wrap(self, z):
        return VFloat(z)

    def to_z(self, v, ctx=None):
        if isinstance(v, VFloat):
            return v.z
        raise TypeError('not a float: %r' % v)

    def __repr__(self):
        return 'TFloat'


TInt = _TInt()
TBool = _TBool()
TStr = _TStr()
TBytes = _TBytes()
TFloat = _TFloat()


class TObj(T):
    """Opaque object; `cls` keys the opaque class table; `inv` is an optional
    function term -> Bool assumed of every inhabitant."""
    zsort = Z.Obj

    def __init__(self, cls=None, inv=None):
        self.cls = cls
        self._inv = inv

    def wrap(self, z):
        return VObj(z, self.cls)

    def inv(self, z):
        return self._inv(z) if self._inv else None

    def to_z(self, v, ctx=None):
        return box(v, ctx)

    def __repr__(self):
        return 'TObj(%s)' % self.cls


class TSeq(T):
    def __init__(self, et):
        self.et = et
        self.zsort = Z.SeqSort(et.zsort)

    def wrap(self, z):
        return VSeq(z, self.et)

    def to_z(self, v, ctx=None):
        return seq_term(v, self.et, ctx)

    def __repr__(self):
        return 'TSeq(%r)' % self.et


class TSet(T):
    def __init__(self, et):
        self.et = et
        self.zsort = Z.SetSort(et.zsort)

    def wrap(self, z):
        return VSet(z, self.et)

    def to_z(self, v, ctx=None):
        return set_term(v, self.et, ctx)

    def __repr__(self):
        return 'TSet(%r)' % self.et


NamesSort = z3.DeclareSort('Names')
nset = Z.func('nset', NamesSort, Z.SetSort(Z.Str))
nfirst = Z.func('nfirst', NamesSort, Z.Str)
nnth = Z.func('nnth', NamesSort, Z.Int, Z.Str)     # k-th name (k >= 1; the 0-th is nfirst)


def names_of(items, ctx):
    """Names value for a concrete collection of VStr."""
    key = 'names:' + '|'.join(sorted(str(i.z) for i in items))
    n = Z.const(key, NamesSort)
    fact = nset(n) == Z.set_of(Z.Str, [i.z for i in items])
    if ctx is not None:
        ctx.assume(fact)
        if items:
            ctx.assume(nfirst(n) == items[0].z)
    return n


class _TNames(T):
    zsort = NamesSort

    def wrap(self, z):
        return VNames(z)

    def to_z(self, v, ctx=None):
        if isinstance(v, VNames):
            return v.z
        items = None
        if isinstance(v, VTuple):
            items = v.items
        elif isinstance(v, VRef) and ctx is not None:
            h = ctx.heap[v.rid]
            if isinstance(h, HList) and h.items is not None:
                items = h.items
        if items is not None and all(isinstance(i, VStr) for i in items):
            return names_of(items, ctx)
        sz = None
        if isinstance(v, VSet) and v.et.zsort == Z.Str:
            sz = v.z
        elif isinstance(v, VRef) and ctx is not None and isinstance(ctx.heap[v.rid], HSet) \
                and ctx.heap[v.rid].et.zsort == Z.Str:
            sz = ctx.heap[v.rid].z
        if sz is not None:
            # a set of names listed in some order
            n = Z.func('names_of_set', Z.SetSort(Z.Str), NamesSort)(sz)
            if ctx is not None:
                ctx.assume(nset(n) == sz)
            return n
        raise TypeError('not a collection of names: %r' % (v,))

    def __repr__(self):
        return 'TNames'


TNames = _TNames()


class TOpt(T):
    """Optional value.  Not embeddable in a single term; as an attribute type
    it takes two heap arrays (isnone, value)."""

    def __init__(self, t):
        self.t = t

    def fresh(self, ctx, name):
        isnone = Z.fresh(name + '_isnone', Z.Bool)
        return VOpt(isnone, self.t.fresh(ctx, name))

    def __repr__(self):
        return 'TOpt(%r)' % self.t


class TTuple(T):
    def __init__(self, ts):
        self.ts = list(ts)

    def fresh(self, ctx, name):
        return VTuple([t.fresh(ctx, '%s_%d' % (name, i)) for i, t in enumerate(self.ts)])


class TList(T):
    """Mutable list of symbolic length, freshly allocated (no aliasing with
    any other parameter: stated assumption of every contract using it)."""

    def __init__(self, et):
        self.et = et

    def fresh(self, ctx, name):
        z = Z.fresh(name, Z.SeqSort(self.et.zsort))
        return ctx.alloc(HList(z=z, et=self.et))


class TMSet(T):
    def __init__(self, et):
        self.et = et

    def fresh(self, ctx, name):
        z = Z.fresh(name, Z.SetSort(self.et.zsort))
        return ctx.alloc(HSet(z, self.et))


class TDict(T):
    def __init__(self, kt, vt):
        self.kt = kt
        self.vt = vt

    def fresh(self, ctx, name):
        dom = Z.fresh(name + '_dom', Z.SetSort(self.kt.zsort))
        arr = Z.fresh(name + '_arr', z3.ArraySort(self.kt.zsort, self.vt.zsort))
        return ctx.alloc(HDict(dom=dom, arr=arr, kt=self.kt, vt=self.vt))


class TMap(T):
    """Immutable map value."""

    def __init__(self, kt, vt):
        self.kt = kt
        self.vt = vt

    def fresh(self, ctx, name):
        dom = Z.fresh(name + '_dom', Z.SetSort(self.kt.zsort))
        arr = Z.fresh(name + '_arr', z3.ArraySort(self.kt.zsort, self.vt.zsort))
        return VMap(dom, arr, self.kt, self.vt)


class TInst(T):
    """Instance of a repo class with concrete identity and typed symbolic
    fields."""

    def __init__(self, cls, fields):
        self.cls = cls
        self.fields = fields

    def fresh(self, ctx, name):
        h = HInst(self.cls, ftypes=self.fields)
        for f, t in self.fields.items():
            h.fields[f] = t.fresh(ctx, '%s.%s' % (name, f))
        return ctx.alloc(h)


class TConst(T):
    """A fixed value (e.g. a parameter pinned by a contract case)."""

    def __init__(self, v):
        self.v = v

    def fresh(self, ctx, name):
        return self.v


# ---------------------------------------------------------------------------
# boxing into Obj

box_int = Z.func('box_int', Z.Int, Z.Obj)
unbox_int = Z.func('unbox_int', Z.Obj, Z.Int)
box_str = Z.func('box_str', Z.Str, Z.Obj)
unbox_str = Z.func('unbox_str', Z.Obj, Z.Str)
box_bytes = Z.func('box_bytes', Z.Str, Z.Obj)
unbox_bytes = Z.func('unbox_bytes', Z.Obj, Z.Str)
box_bool = Z.func('box_bool', Z.Bool, Z.Obj)
unbox_bool = Z.func('unbox_bool', Z.Obj, Z.Bool)
box_flt = Z.func('box_flt', Z.Flt, Z.Obj)
# kind tag of an Obj: 0 other, 1 None, 2 int, 3 str, 4 bytes, 5 bool, 6 float,
# 7 tuple/list/seq, 8 set, 9 dict
tag = Z.func('tag', Z.Obj, Z.Int)
TAG = {'other': 0, 'None': 1, 'int': 2, 'str': 3, 'bytes': 4, 'bool': 5, 'float': 6,
       'seq': 7, 'set': 8, 'dict': 9}
Z.AXIOMS.add('tag(None)', tag(Z.NONE) == 1)

box_seq_obj = Z.func('box_seq_obj', Z.SeqSort(Z.Obj), Z.Obj)
unbox_seq_obj = Z.func('unbox_seq_obj', Z.Obj, Z.SeqSort(Z.Obj))
box_seq_str = Z.func('box_seq_str', Z.SeqSort(Z.Str), Z.Obj)
unbox_seq_str = Z.func('unbox_seq_str', Z.Obj, Z.SeqSort(Z.Str))
box_set_str = Z.func('box_set_str', Z.SetSort(Z.Str), Z.Obj)
unbox_set_str = Z.func('unbox_set_str', Z.Obj, Z.SetSort(Z.Str))


box_map = Z.func('box_map', Z.SetSort(Z.Str), z3.ArraySort(Z.Str, Z.Obj), Z.Obj)
unbox_map_dom = Z.func('unbox_map_dom', Z.Obj, Z.SetSort(Z.Str))
unbox_map_arr = Z.func('unbox_map_arr', Z.Obj, z3.ArraySort(Z.Str, Z.Obj))


def box(v, ctx=None):
    """Embed a value into sort Obj.  Injectivity facts are assumed at the
    point of boxing (quantifier-free instances of unbox(box(x)) == x)."""
    def fact(f):
        if ctx is not None:
            ctx.assume(f)

    if isinstance(v, VObj):
        return v.z
    if isinstance(v, VNone):
        return Z.NONE
    if isinstance(v, VBool):
        b = box_bool(v.z)
        fact(z3.And(unbox_bool(b) == v.z, tag(b) == 5))
        return b
    if isinstance(v, VInt):
        b = box_int(v.z)
        fact(z3.And(unbox_int(b) == v.z, tag(b) == 2))
        return b
    if isinstance(v, VStr):
        b = box_str(v.z)
        fact(z3.And(unbox_str(b) == v.z, tag(b) == 3))
        return b
    if isinstance(v, VBytes):
        b = box_bytes(v.z)
        fact(z3.And(unbox_bytes(b) == v.z, tag(b) == 4))
        return b
    if isinstance(v, VFloat):
        b = box_flt(v.z)
        fact(tag(b) == 6)
        return b
    if isinstance(v, VOpt):
        return z3.If(v.isnone, Z.NONE, box(v.val, ctx))
    if isinstance(v, VRef) and ctx is not None:
        return ctx.box_ref(v)
    if isinstance(v, VSeq):
        if v.et.zsort == Z.Obj:
            b = box_seq_obj(v.z)
            fact(z3.And(unbox_seq_obj(b) == v.z, tag(b) == 7))
            return b
        if v.et.zsort == Z.Str:
            b = box_seq_str(v.z)
            fact(z3.And(unbox_seq_str(b) == v.z, tag(b) == 7))
            return b
    if isinstance(v, VSet) and v.et.zsort == Z.Str:
        b = box_set_str(v.z)
        fact(z3.And(unbox_set_str(b) == v.z, tag(b) == 8))
        return b
    if isinstance(v, VTuple):
        items = [box(i, ctx) for i in v.items]
        b = box_seq_obj(Z.seq_of(Z.Obj, items))
        fact(z3.And(unbox_seq_obj(b) == Z.seq_of(Z.Obj, items), tag(b) == 7))
        return b
    if isinstance(v, VCallable) and ctx is not None:
        return ctx.box_callable(v)
    if isinstance(v, VMap) and v.kt.zsort == Z.Str and v.vt.zsort == Z.Obj:
        b = box_map(v.dom, v.arr)
        fact(z3.And(unbox_map_dom(b) == v.dom, unbox_map_arr(b) == v.arr, tag(b) == 9, b != Z.NONE))
        return b
    if ctx is not None and isinstance(v, (VMap, VSet, VSeq, VNames, VZip)):
        # a value whose structure is not needed once it is stored in an Obj slot
        b = Z.fresh('boxed', Z.Obj)
        fact(b != Z.NONE)
        return b
    raise TypeError('cannot box %r' % (v,))


def seq_term(v, et, ctx=None):
    """A z3 Seq term of element type et for a sequence-like value."""
    if isinstance(v, VSeq):
        if v.et.zsort != et.zsort:
            raise TypeError('element sort mismatch %r vs %r' % (v.et, et))
        return v.z
    if isinstance(v, VTuple):
        return Z.seq_of(et.zsort, [et.to_z(i, ctx) for i in v.items])
    if isinstance(v, VRef) and ctx is not None:
        h = ctx.heap[v.rid]
        if isinstance(h, HList):
            if h.items is not None:
                return Z.seq_of(et.zsort, [et.to_z(i, ctx) for i in h.items])
            if h.et.zsort != et.zsort:
                raise TypeError('element sort mismatch')
            return h.z
    raise TypeError('not a sequence: %r' % (v,))


def set_term(v, et, ctx=None):
    if isinstance(v, VSet):
        return v.z
    if isinstance(v, VRef) and ctx is not None:
        h = ctx.heap[v.rid]
        if isinstance(h, HSet):
            return h.z
    raise TypeError('not a set: %r' % (v,))
