"""String models.  Native z3 string operations where they exist and are exact
for Python; otherwise uninterpreted functions (assumption A-str in DESIGN.md
5.2).  Formatting produces *terms* (concatenations of template literals and
str()/repr() images of the arguments) so that taint-style obligations can be
stated over them."""
import re as _re
import string as _string

import z3

from . import z as Z
from .values import *   # noqa
from .state import Unsupported

str_of = Z.func('str_of', Z.Obj, Z.Str)          # str(o) for an opaque object
repr_of = Z.func('repr_of', Z.Obj, Z.Str)        # repr(o)
repr_str = Z.func('repr_str', Z.Str, Z.Str)      # repr of a str
repr_bytes = Z.func('repr_bytes', Z.Str, Z.Str)
str_of_int = Z.func('str_of_int', Z.Int, Z.Str)
str_of_flt = Z.func('str_of_flt', Z.Flt, Z.Str)
repr_seq = {}


def to_str(I, ctx, v, node=None):
    """str(v) as a VStr."""
    v = I.resolve(ctx, v)
    if isinstance(v, VStr):
        return v
    if isinstance(v, VInt):
        s = Z.simp(v.z)
        if z3.is_int_value(s):
            return VStr(str(s.as_long()))
        return VStr(str_of_int(v.z))
    if isinstance(v, VBool):
        return VStr(z3.If(v.z, z3.StringVal('True'), z3.StringVal('False')))
    if isinstance(v, VNone):
        return VStr('None')
    if isinstance(v, VFloat):
        return VStr(str_of_flt(v.z))
    if isinstance(v, VBytes):
        return VStr(repr_bytes(v.z))
    return to_repr(I, ctx, v, node, use_str=True)


def to_repr(I, ctx, v, node=None, use_str=False):
    v = I.resolve(ctx, v)
    if isinstance(v, VStr):
        return VStr(repr_str(v.z))
    if isinstance(v, VBytes):
        return VStr(repr_bytes(v.z))
    if isinstance(v, (VInt, VBool, VNone, VFloat)):
        return to_str(I, ctx, v, node)
    if isinstance(v, VObj):
        return VStr((str_of if use_str else repr_of)(v.z))
    if isinstance(v, VRef):
        h = ctx.heap[v.rid]
        if isinstance(h, HInst):
            r = I.engine.inst_repr(ctx, v, h, use_str, node)
            if r is not None:
                return r
    # containers and everything else: an opaque string determined by the boxed value
    try:
        b = box(v, ctx)
        return VStr((str_of if use_str else repr_of)(b))
    except TypeError:
        return VStr(Z.fresh('repr', Z.Str))


_PCT = _re.compile(r'%(\([^)]*\))?[-#0 +]*(\*|\d+)?(\.\d+)?([srdifx%])')


def percent_format(I, ctx, tmpl, arg, node):
    t = tmpl.const()
    if t is None:
        return VStr(Z.fresh('fmt', Z.Str))
    arg = I.resolve(ctx, arg)
    if isinstance(arg, VTuple):
        args = list(arg.items)
    else:
        args = [arg]
    out = []
    pos = 0
    ai = 0
    for m in _PCT.finditer(t):
        out.append(VStr(t[pos:m.start()]))
        pos = m.end()
        conv = m.group(4)
        if conv == '%':
            out.append(VStr('%'))
            continue
        if m.group(1):
            key = m.group(1)[1:-1]
            from . import models
            a = models.dict_get(I, ctx, arg, VStr(key), node)
        else:
            if ai >= len(args):
                I.raise_exc(ctx, 'TypeError', 'not enough arguments for format string', node)
            a = args[ai]
            ai += 1
        if conv == 's':
            out.append(to_str(I, ctx, a, node))
        elif conv == 'r':
            out.append(to_repr(I, ctx, a, node))
        else:
            a = I.resolve(ctx, a)
            if isinstance(a, (VInt, VBool)):
                out.append(to_str(I, ctx, VInt(TInt.to_z(a)), node))
            elif isinstance(a, VFloat):
                out.append(VStr(str_of_flt(a.z)))
            else:
                out.append(VStr(Z.fresh('fmtnum', Z.Str)))
    out.append(VStr(t[pos:]))
    if not m_all_consumed(args, ai, t):
        I.raise_exc(ctx, 'TypeError', 'not all arguments converted during string formatting', node)
    return concat(out)


def m_all_consumed(args, ai, t):
    if '%(' in t:
        return True
    return ai == len(args)


def concat(parts):
    zs = [p.z for p in parts if not (z3.is_string_value(p.z) and p.z.as_string() == '')]
    if not zs:
        return VStr('')
    if len(zs) == 1:
        return VStr(zs[0])
    return VStr(z3.Concat(*zs))


def brace_format(I, ctx, tmpl, args, kwargs, star, node):
    """str.format with {name}, {0}, {} fields (no format specs beyond !r)."""
    t = tmpl.const()
    if t is None:
        return VStr(Z.fresh('fmt', Z.Str))
    out = []
    auto = 0
    fmtr = _string.Formatter()
    try:
        pieces = list(fmtr.parse(t))
    except ValueError:
        I.raise_exc(ctx, 'ValueError', 'bad format string', node)
    from . import models
    for lit, field, spec, conv in pieces:
        if lit:
            out.append(VStr(lit))
        if field is None:
            continue
        if spec:
            raise Unsupported('format spec %r' % spec, node)
        if field == '':
            a = args[auto]
            auto += 1
        elif field.isdigit():
            a = args[int(field)]
        else:
            if '.' in field or '[' in field:
                raise Unsupported('format field %r' % field, node)
            if field in kwargs:
                a = kwargs[field]
            elif star is not None:
                a = models.dict_get(I, ctx, star, VStr(field), node)
            else:
                I.raise_exc(ctx, 'KeyError', field, node)
        out.append(to_repr(I, ctx, a, node) if conv == 'r' else to_str(I, ctx, a, node))
    return concat(out)


# -- split / join ----------------------------------------------------------------

split_fn = Z.func('str_split', Z.Str, Z.Str, Z.SeqSort(Z.Str))
join_fn = Z.func('str_join', Z.Str, Z.SeqSort(Z.Str), Z.Str)


def split(I, ctx, s, sep):
    """s.split(sep): uninterpreted, with the ground facts every use needs:
    at least one piece; no piece contains sep; join(sep, split(s, sep)) == s."""
    r = split_fn(s.z, sep.z)
    ctx.assume(z3.Length(r) >= 1)
    ctx.assume(join_fn(sep.z, r) == s.z)
    # first piece is a prefix of s; pieces are separator-free (instantiated on use)
    return VSeq(r, TStr)


def join(I, ctx, sep, parts_z):
    n = Z.simp(z3.Length(parts_z))
    if z3.is_int_value(n):
        k = n.as_long()
        if k == 0:
            return VStr('')
        zs = []
        for i in range(k):
            if i:
                zs.append(sep.z)
            zs.append(Z.simp(parts_z[i]))
        return VStr(Z.simp(z3.Concat(*zs)) if len(zs) > 1 else zs[0])
    return VStr(join_fn(sep.z, parts_z))


_UNARY = {}


def unary(name, z, kind=VStr):
    f = Z.func('str_' + name, Z.Str, Z.Str)
    return kind(f(z))


def method(I, ctx, fr, s, name, args, kwargs, node):
    """Call of a str/bytes method.  Returns V."""
    K = type(s)
    a = [I.resolve(ctx, x) for x in args]

    def same(i):
        if i < len(a) and isinstance(a[i], VTuple):
            return None
        if i >= len(a) or not isinstance(a[i], K):
            I.raise_exc(ctx, 'TypeError', '%s.%s argument %d has the wrong type' % (s.kind, name, i), node)
        return a[i]

    if name == 'startswith':
        if a and isinstance(a[0], VTuple):
            return VBool(Z.Or(*[z3.PrefixOf(x.z, s.z) for x in a[0].items]))
        return VBool(z3.PrefixOf(same(0).z, s.z))
    if name == 'endswith':
        if a and isinstance(a[0], VTuple):
            return VBool(Z.Or(*[z3.SuffixOf(x.z, s.z) for x in a[0].items]))
        return VBool(z3.SuffixOf(same(0).z, s.z))
    if name in ('upper', 'lower', 'title', 'capitalize', 'swapcase', 'casefold'):
        r = unary(name, s.z, K)
        ctx.assume(z3.Length(r.z) == z3.Length(s.z) if name in ('upper', 'lower') and K is VBytes else Z.TRUE)
        f = Z.func('str_' + name, Z.Str, Z.Str)
        if name in ('upper', 'lower'):
            ctx.assume(f(r.z) == r.z)          # idempotent
            ctx.assume((z3.Length(r.z) == 0) == (z3.Length(s.z) == 0))
        c = Z.simp(s.z)
        if z3.is_string_value(c):
            return K(getattr(c.as_string(), name)())
        return r
    if name in ('strip', 'lstrip', 'rstrip'):
        c = Z.simp(s.z)
        if a and not isinstance(a[0], VNone):
            chars = same(0)
            cc = Z.simp(chars.z)
            if z3.is_string_value(c) and z3.is_string_value(cc):
                return K(getattr(c.as_string(), name)(cc.as_string()))
            f = Z.func('str_%s_chars' % name, Z.Str, Z.Str, Z.Str)
            r = f(s.z, chars.z)
            if z3.is_string_value(cc) and len(cc.as_string()) == 1:
                ch = cc.as_string()
                # exact characterisation for a single strip character
                if name == 'rstrip':
                    ctx.assume(z3.PrefixOf(r, s.z))
                    ctx.assume(Z.Not(z3.SuffixOf(z3.StringVal(ch), r)))
                    ctx.assume(z3.InRe(z3.SubString(s.z, z3.Length(r), z3.Length(s.z) - z3.Length(r)),
                                       z3.Star(z3.Re(ch))))
                elif name == 'lstrip':
                    ctx.assume(z3.SuffixOf(r, s.z))
                    ctx.assume(Z.Not(z3.PrefixOf(z3.StringVal(ch), r)))
                    ctx.assume(z3.InRe(z3.SubString(s.z, 0, z3.Length(s.z) - z3.Length(r)),
                                       z3.Star(z3.Re(ch))))
                else:
                    ctx.assume(z3.Contains(s.z, r))
                    ctx.assume(Z.Not(z3.PrefixOf(z3.StringVal(ch), r)))
                    ctx.assume(Z.Not(z3.SuffixOf(z3.StringVal(ch), r)))
            return K(r)
        if z3.is_string_value(c):
            return K(getattr(c.as_string(), name)())
        r = unary(name, s.z, K)
        ctx.assume(z3.Contains(s.z, r.z))
        return r
    if name == 'split':
        if not a or isinstance(a[0], VNone):
            r = Z.func('str_split_ws', Z.Str, Z.SeqSort(Z.Str))(s.z)
            return VSeqList(ctx, r, TStr if K is VStr else TBytes)
        if len(a) > 1:
            r = Z.func('str_splitn', Z.Str, Z.Str, Z.Int, Z.SeqSort(Z.Str))(s.z, same(0).z, TInt.to_z(a[1]))
            ctx.assume(z3.Length(r) >= 1)
            return VSeqList(ctx, r, TStr if K is VStr else TBytes)
        c, cs = Z.simp(s.z), Z.simp(a[0].z)
        if z3.is_string_value(c) and z3.is_string_value(cs) and cs.as_string():
            return ctx.alloc(HList(items=[K(x) for x in c.as_string().split(cs.as_string())]))
        v = split(I, ctx, s, same(0))
        return VSeqList(ctx, v.z, TStr if K is VStr else TBytes)
    if name == 'splitlines':
        r = Z.func('str_splitlines', Z.Str, Z.SeqSort(Z.Str))(s.z)
        ctx.assume((z3.Length(r) == 0) == (z3.Length(s.z) == 0))
        return VSeqList(ctx, r, TStr if K is VStr else TBytes)
    if name == 'join':
        from . import models
        it = a[0]
        try:
            items = I.iter_concrete(ctx, it, node)
        except Unsupported:
            items = None
        if items is not None:
            for x in items:
                if not isinstance(I.resolve(ctx, x), K):
                    I.raise_exc(ctx, 'TypeError', 'sequence item: expected %s instance' % s.kind, node)
            parts = []
            for i, x in enumerate(items):
                if i:
                    parts.append(s)
                parts.append(x)
            r = concat([VStr(p.z) for p in parts])
            return K(r.z)
        q = I._as_seq(ctx, it)
        if isinstance(it, VNames):
            f = Z.func('str_join_names', Z.Str, NamesSort, Z.Str)
            return K(f(s.z, it.z))
        if q is None:
            sset = None
            try:
                sset = models.iterable_as_set(I, ctx, it, node)
            except Unsupported:
                pass
            if sset is not None and sset[0] is not None:
                # join over an unordered collection: result depends on an arbitrary order
                f = Z.func('str_join_set', Z.Str, sset[0].sort(), Z.Int, Z.Str)
                return K(f(s.z, sset[0], Z.fresh('order', Z.Int)))
            raise Unsupported('join over %r' % (it,), node)
        if q[1].zsort != Z.Str:
            I.raise_exc(ctx, 'TypeError', 'sequence item: expected str instance', node)
        return K(join(I, ctx, s, q[0]).z)
    if name == 'replace':
        old, new = same(0), same(1)
        c, co, cn = Z.simp(s.z), Z.simp(old.z), Z.simp(new.z)
        if all(z3.is_string_value(x) for x in (c, co, cn)):
            return K(c.as_string().replace(co.as_string(), cn.as_string()))
        f = Z.func('str_replace_all', Z.Str, Z.Str, Z.Str, Z.Str)
        r = f(s.z, old.z, new.z)
        if z3.is_string_value(co) and len(co.as_string()) >= 1 and z3.is_string_value(cn) \
                and co.as_string() not in cn.as_string():
            ctx.assume(Z.Not(z3.Contains(r, old.z)))
        if z3.is_string_value(cn) and cn.as_string() == '':
            ctx.assume(z3.Length(r) <= z3.Length(s.z))
            ctx.assume(z3.Implies(Z.Not(z3.Contains(s.z, old.z)), r == s.z))
        return K(r)
    if name in ('partition', 'rpartition'):
        sep = same(0)
        c, cs = Z.simp(s.z), Z.simp(sep.z)
        if z3.is_string_value(c) and z3.is_string_value(cs) and cs.as_string():
            return VTuple([K(x) for x in getattr(c.as_string(), name)(cs.as_string())])
        h = z3.Const(Z.fresh_name('part_h'), Z.Str)
        t = z3.Const(Z.fresh_name('part_t'), Z.Str)
        found = z3.Contains(s.z, sep.z)
        if name == 'partition':
            ctx.assume(z3.If(found, Z.And(s.z == z3.Concat(h, sep.z, t), Z.Not(z3.Contains(h, sep.z))),
                             Z.And(h == s.z, t == z3.StringVal(''))))
        else:
            ctx.assume(z3.If(found, Z.And(s.z == z3.Concat(h, sep.z, t), Z.Not(z3.Contains(t, sep.z))),
                             Z.And(t == s.z, h == z3.StringVal(''))))
        return VTuple([K(h), K(z3.If(found, sep.z, z3.StringVal(''))), K(t)])
    if name == 'format':
        return brace_format(I, ctx, s, a, kwargs, None, node)
    if name == 'encode':
        errs = None
        if len(a) >= 2:
            errs = a[1].const() if hasattr(a[1], 'const') else None
        elif 'errors' in kwargs and hasattr(kwargs['errors'], 'const'):
            errs = kwargs['errors'].const()
        if K is VStr and errs in ('backslashreplace', 'replace', 'ignore', 'xmlcharrefreplace', 'namereplace'):
            # a lossy error handler: total; the result decodes (strictly) to SAN(s), and SAN is the identity on
            # encodable text (A-enc)
            san = Z.func('str_sanitised:%s' % errs, Z.Str, Z.Str)(s.z)
            r = Z.func('str_encode', Z.Str, Z.Str)(san)
            ctx.assume(Z.func('bytes_decode', Z.Str, Z.Str)(r) == san)
            ctx.assume(Z.func('bytes_decodable', Z.Str, Z.Bool)(r))
            ctx.assume((z3.Length(r) == 0) == (z3.Length(s.z) == 0))
            c = Z.simp(s.z)
            if z3.is_string_value(c) and all(ord(ch) < 128 for ch in c.as_string()):
                return VBytes(c.as_string())
            return VBytes(r)
        if K is VStr:
            f = Z.func('str_encode', Z.Str, Z.Str)
            r = f(s.z)
            ctx.assume((z3.Length(r) == 0) == (z3.Length(s.z) == 0))
            ctx.assume(Z.func('bytes_decode', Z.Str, Z.Str)(r) == s.z)
            c = Z.simp(s.z)
            if z3.is_string_value(c) and all(ord(ch) < 128 for ch in c.as_string()):
                return VBytes(c.as_string())
            return VBytes(r)
    if name == 'decode':
        if K is VBytes:
            # may raise UnicodeDecodeError for non-UTF-8 input
            ok = Z.func('bytes_decodable', Z.Str, Z.Bool)(s.z)
            c = Z.simp(s.z)
            if z3.is_string_value(c) and all(ord(ch) < 128 for ch in c.as_string()):
                return VStr(c.as_string())
            if not ctx.branch(ok):
                I.raise_exc(ctx, 'UnicodeDecodeError', 'invalid start byte', node)
            return VStr(Z.func('bytes_decode', Z.Str, Z.Str)(s.z))
    if name in ('isdigit', 'isalpha', 'isspace', 'isalnum', 'isupper', 'islower', 'isidentifier'):
        return VBool(Z.func('str_' + name, Z.Str, Z.Bool)(s.z))
    if name in ('find', 'index', 'rfind', 'count'):
        r = Z.func('str_' + name, Z.Str, Z.Str, Z.Int)(s.z, same(0).z)
        if name == 'count':
            ctx.assume(r >= 0)
            ctx.assume((r > 0) == z3.Contains(s.z, a[0].z))
        if name in ('find', 'rfind'):
            ctx.assume(r >= -1)
            ctx.assume((r >= 0) == z3.Contains(s.z, a[0].z))
        return VInt(r)
    if name == 'translate' and K is VBytes:
        r = Z.func('bytes_translate', Z.Str, Z.Str, Z.Str)(s.z, a[1].z if len(a) > 1 else z3.StringVal(''))
        return VBytes(r)
    if name == '__contains__':
        return VBool(z3.Contains(s.z, same(0).z))
    if name in ('ljust', 'rjust', 'center', 'zfill', 'expandtabs'):
        return K(Z.fresh('str_' + name, Z.Str))
    raise Unsupported('%s.%s' % (s.kind, name), node)


def VSeqList(ctx, z, et):
    """A fresh mutable list holding a symbolic sequence (str.split returns a list)."""
    return ctx.alloc(HList(z=z, et=et))
