"""Attribute lookup, call dispatch, builtin functions, container methods,
comprehensions.  Imported into models' namespace."""
import ast

import z3

from . import z as Z
from .values import *   # noqa
from .state import Unsupported, RaiseSig, ReturnSig, PathEnd, BreakSig, ContinueSig
from .classes import cls_of, issub
from . import strs

EXT_CONSTS = {'os.pardir': '..', 'os.curdir': '.', 'os.sep': '/', 'os.path.sep': '/', 'os.path.pardir': '..'}
LIST_METHODS = {'append', 'insert', 'extend', 'pop', 'index', 'count', 'sort', 'remove', 'reverse', 'copy',
                '__contains__'}
SET_METHODS = {'add', 'update', 'discard', 'remove', 'union', 'intersection', 'difference', 'copy',
               'issubset', 'issuperset', '__contains__', 'pop', 'clear'}
DICT_METHODS = {'get', 'items', 'keys', 'values', 'update', 'pop', 'setdefault', 'copy', '__contains__',
                'clear'}
SEQ_METHODS = {'index', 'count'}


def getattr_v(I, ctx, fr, v, name, node):
    from . import models as M
    if isinstance(v, VRef):
        h = ctx.heap[v.rid]
        if isinstance(h, HInst):
            if name in h.fields:
                return h.fields[name]
            if name == '__class__':
                return I.engine.class_value(h.cls)
            r = I.engine.class_attr(ctx, fr, h.cls, name, v, node)
            if r is None and h.ftypes and not fr.spec and not name.startswith('__'):
                # an object described by a contract (typed field list): a field the contract does not list is
                # not known to be absent -- the code reads something the contract says nothing about
                raise Unsupported('field %r of the %s object is not described by the contract' % (name, h.cls.rsplit('.', 1)[-1]), node)
            return r
        meths = {HList: LIST_METHODS, HSet: SET_METHODS, HDict: DICT_METHODS}[type(h)]
        if name in meths:
            return VMethod(v, name)
        if name == '__class__':
            return VClass({HList: 'builtins.list', HSet: 'builtins.set', HDict: 'builtins.dict'}[type(h)])
        return None
    if isinstance(v, (VStr, VBytes)):
        return VMethod(v, name)
    if isinstance(v, M.VListSlot):
        return VMethod(v, name)
    if isinstance(v, (VTuple, VSeq)):
        if name in SEQ_METHODS or name == '__contains__':
            return VMethod(v, name)
        return None
    if isinstance(v, (VSet,)):
        if name in SET_METHODS:
            return VMethod(v, name)
        return None
    if isinstance(v, VMap):
        if name in DICT_METHODS:
            return VMethod(v, name)
        return None
    if isinstance(v, VObj):
        return I.engine.opaque_getattr(ctx, fr, v, name, node)
    if isinstance(v, VModule):
        mod = I.repo.module(v.name)
        r = I.module_global(ctx, mod, name, node)
        if r is None and ('%s.%s' % (v.name, name)) in I.repo.modules:
            return VModule('%s.%s' % (v.name, name))
        return r
    if isinstance(v, VExternal):
        d = '%s.%s' % (v.name, name)
        if d in EXT_CONSTS:
            return M.const_value(EXT_CONSTS[d])
        if I.classes.has(d):
            return VClass(d)
        return VExternal(d)
    if isinstance(v, VClass) and v.name in ('builtins.set', 'builtins.frozenset') and name in ('union', 'intersection'):
        return VBuiltin('set.' + name)
    if isinstance(v, VClass):
        if name == '__name__':
            return VStr(v.name.rsplit('.', 1)[-1])
        if name == '__module__':
            return VStr(v.name.rsplit('.', 1)[0])
        return I.engine.class_attr(ctx, fr, v.name, name, None, node, on_class=v)
    if isinstance(v, VSuper):
        return I.engine.class_attr(ctx, fr, v.cls, name, v.selfv, node, after=True)
    if isinstance(v, VBound):
        if name == '__self__':
            return v.selfv
        if name == '__func__':
            return v.func
        if name == '__name__' and isinstance(v.func, VRepoFunc):
            return VStr(v.func.node.name)
        return I.engine.func_attr(ctx, v, name, node)
    if isinstance(v, VRepoFunc):
        if name == '__name__':
            return VStr(getattr_name(v.node))
        return I.engine.func_attr(ctx, v, name, node)
    if isinstance(v, (VInt, VBool, VFloat, VNone)):
        if name == '__class__':
            return VClass(M.PRIM_CLASSES[type(v)])
        return None
    if isinstance(v, M.VIter):
        return None
    if isinstance(v, VCallable):
        return I.engine.func_attr(ctx, v, name, node)
    raise Unsupported('attribute %s of %r' % (name, v), node)


def getattr_name(n):
    return n.name if hasattr(n, 'name') else '<lambda>'


# ---------------------------------------------------------------------------
# calls


def _run_model(fn, name, node, *a, **kw):
    """A python model (spec function, dependency summary) that cannot digest the values it is handed
    means "this call is outside what the model describes", not a checker crash."""
    from .state import PathEnd, ReturnSig, RaiseSig, BreakSig, ContinueSig, ContractError
    try:
        return fn(*a, **kw)
    except (Unsupported, PathEnd, ReturnSig, RaiseSig, BreakSig, ContinueSig, ContractError):
        raise
    except (TypeError, AttributeError, KeyError, IndexError, ValueError, z3.Z3Exception) as e:
        raise Unsupported('model of %s does not cover this call (%s: %s)' % (name, type(e).__name__, str(e)[:120]), node)


def call(I, ctx, fr, fv, args, kwargs, node, star):
    from . import models as M
    from .interp import VSpecFn
    if isinstance(fv, VSpecFn):
        if star is not None:
            kwargs = dict(kwargs)
            kwargs['__star__'] = star
        if getattr(ctx, 'no_branch', 0) and not getattr(fv, 'keep_opt', False):
            # spec functions are total: an optional argument stands for its value (the
            # formula guards the None case itself)
            args = [a.val if isinstance(a, VOpt) else a for a in args]
        return _run_model(fv.fn, fv.name, node, I, ctx, *args, **kwargs)
    if fr.spec and not isinstance(fv, (VBuiltin, VClass, VMethod, VRepoFunc, VBound)):
        raise Unsupported('call of %r inside a spec expression' % (fv,), node)
    if isinstance(fv, VRepoFunc):
        return I.engine.call_repo(ctx, fr, fv, args, kwargs, node, star, None)
    if isinstance(fv, VBound):
        if isinstance(fv.func, VRepoFunc):
            return I.engine.call_repo(ctx, fr, fv.func, [fv.selfv] + list(args), kwargs, node, star, fv.selfv)
        return call(I, ctx, fr, fv.func, [fv.selfv] + list(args), kwargs, node, star)
    if isinstance(fv, VMethod):
        return call_method(I, ctx, fr, fv.selfv, fv.name, args, kwargs, node, star)
    if isinstance(fv, VBuiltin):
        if star is not None:
            if fv.name != 'dict':
                raise Unsupported('builtin %s called with a symbolic ** mapping' % fv.name, node)
            # dict(a, k=v, **m): copy, then the keyword mapping on top (explicit keywords and **m
            # cannot collide without a TypeError; the sets are kept disjoint by the caller)
            d = _b_dict(I, ctx, fr, args, {}, node)
            dict_method(I, ctx, fr, d, I.hobj(ctx, d), 'update', [star], {}, node)
            for k, x in kwargs.items():
                M.dict_set(I, ctx, d, VStr(k), x, node)
            return d
        f = BUILTIN_FUNCS.get(fv.name)
        if f is None:
            m = I.engine.externals.get('builtins.' + fv.name)
            if m is not None:
                return m(I, ctx, *args, **kwargs)
            raise Unsupported('builtin %s' % fv.name, node)
        return f(I, ctx, fr, args, kwargs, node)
    if isinstance(fv, VClass):
        return instantiate(I, ctx, fr, fv, args, kwargs, node, star)
    if isinstance(fv, VExternal):
        return I.engine.call_external(ctx, fr, fv, args, kwargs, node, star)
    if isinstance(fv, VObj):
        return I.engine.call_opaque(ctx, fr, fv, args, kwargs, node, star)
    if isinstance(fv, VNone):
        I.raise_exc(ctx, 'TypeError', "'NoneType' object is not callable", node)
    if isinstance(fv, VRef):
        h = ctx.heap[fv.rid]
        if isinstance(h, HInst):
            m = I.engine.class_attr(ctx, fr, h.cls, '__call__', fv, node)
            if m is not None:
                return call(I, ctx, fr, m, args, kwargs, node, star)
        I.raise_exc(ctx, 'TypeError', 'object is not callable', node)
    I.raise_exc(ctx, 'TypeError', '%s object is not callable' % getattr(fv, 'kind', '?'), node)


def instantiate(I, ctx, fr, cv, args, kwargs, node, star=None):
    from . import models as M
    name = cv.name
    if name.startswith('builtins.'):
        short = name[len('builtins.'):]
        f = BUILTIN_FUNCS.get(short)
        if f is not None:
            if star is not None:
                return call(I, ctx, fr, VBuiltin(short), args, kwargs, node, star)
            return f(I, ctx, fr, args, kwargs, node)
        if I.classes.has(name) and I.classes.static_sub(name, 'builtins.BaseException'):
            return I.make_exc(ctx, name, args)
        if short == 'object':
            return ctx.alloc(HInst('builtins.object'))
        raise Unsupported('builtin class %s' % short, node)
    if cv.node is not None:
        return I.engine.instantiate_repo(ctx, fr, cv, args, kwargs, node, star)
    if I.classes.has(name) and I.classes.static_sub(name, 'builtins.BaseException'):
        return I.make_exc(ctx, name, args)      # an exception class of a dependency
    return I.engine.call_external(ctx, fr, VExternal(name), args, kwargs, node, star, is_class=True)


def call_method(I, ctx, fr, sv, name, args, kwargs, node, star=None):
    from . import models as M
    sv = I.resolve(ctx, sv)
    if isinstance(sv, (VStr, VBytes)):
        if name == 'format' and star is not None:
            return strs.brace_format(I, ctx, sv, args, kwargs, star, node)
        return strs.method(I, ctx, fr, sv, name, args, kwargs, node)
    if isinstance(sv, M.VListSlot):
        if name == 'append':
            hh = ctx.mutate(sv.ref, node)
            cur = z3.Select(hh.arr, sv.kz)
            hh.arr = z3.Store(hh.arr, sv.kz, z3.Concat(cur, z3.Unit(box(args[0], ctx))))
            return NONE
        raise Unsupported('list slot method %s' % name, node)
    h = I.hobj(ctx, sv)
    if isinstance(h, HList):
        return list_method(I, ctx, fr, sv, h, name, args, kwargs, node)
    if isinstance(h, HSet) or isinstance(sv, VSet):
        return set_method(I, ctx, fr, sv, h, name, args, kwargs, node)
    if isinstance(h, HDict) or isinstance(sv, VMap):
        return dict_method(I, ctx, fr, sv, h, name, args, kwargs, node)
    if isinstance(sv, (VTuple, VSeq)):
        if name == '__contains__':
            return VBool(M.contains(I, ctx, sv, args[0], node))
        if name == 'count':
            items = I.iter_concrete(ctx, sv, node)
            tot = z3.IntVal(0)
            for i in items:
                tot = tot + z3.If(I.eq(ctx, i, args[0]), 1, 0)
            return VInt(Z.simp(tot))
    raise Unsupported('method %s on %r' % (name, sv), node)


def list_method(I, ctx, fr, ref, h, name, args, kwargs, node):
    from . import models as M
    if name == 'append':
        ctx.mutate(ref, node)
        if h.items is not None:
            h.items.append(args[0])
        else:
            h.z = z3.Concat(h.z, z3.Unit(h.et.to_z(args[0], ctx)))
        return NONE
    if name == 'extend':
        M.list_extend(I, ctx, ref, args[0], node)
        return NONE
    if name == 'insert':
        ctx.mutate(ref, node)
        idx = Z.simp(TInt.to_z(I.resolve(ctx, args[0])))
        if h.items is not None and z3.is_int_value(idx):
            h.items.insert(idx.as_long(), args[1])
            return NONE
        if h.items is not None:
            M.list_to_sym(I, ctx, ref, I.guess_elem_type([args[1]]) if not h.items else None)
        n = z3.Length(h.z)
        # list.insert clamps the index like a slice bound
        pos = Z.simp(z3.If(idx < 0, z3.If(n + idx < 0, z3.IntVal(0), n + idx), z3.If(idx > n, n, idx)))
        # decomposition form (the Extract form stalls the sequence solver):
        # old == pre ++ post with |pre| == pos; new == pre ++ [x] ++ post
        pre = Z.fresh('ins_pre', h.z.sort())
        post = Z.fresh('ins_post', h.z.sort())
        ctx.assume(h.z == z3.Concat(pre, post))
        ctx.assume(z3.Length(pre) == pos)
        h.z = z3.Concat(pre, z3.Unit(h.et.to_z(args[1], ctx)), post)
        return NONE
    if name == 'pop':
        ctx.mutate(ref, node)
        if h.items is not None:
            if not h.items:
                I.raise_exc(ctx, 'IndexError', 'pop from empty list', node)
            i = -1
            if args:
                s = Z.simp(TInt.to_z(args[0]))
                if not z3.is_int_value(s):
                    raise Unsupported('pop at a symbolic index', node)
                i = s.as_long()
            if not (-len(h.items) <= i < len(h.items)):
                I.raise_exc(ctx, 'IndexError', 'pop index out of range', node)
            return h.items.pop(i)
        n = z3.Length(h.z)
        if args:
            raise Unsupported('pop(i) on a symbolic list', node)
        if not ctx.branch(n > 0):
            I.raise_exc(ctx, 'IndexError', 'pop from empty list', node)
        last = h.et.wrap(Z.simp(h.z[n - 1]))
        h.z = Z.simp(z3.Extract(h.z, 0, n - 1))
        return last
    if name == 'copy':
        return ctx.alloc(h.copy())
    if name == '__contains__':
        return VBool(M.contains(I, ctx, ref, args[0], node))
    if name == 'sort':
        ctx.mutate(ref, node)
        if h.items is not None and len(h.items) <= 1:
            return NONE
        if h.items is not None:
            M.list_to_sym(I, ctx, ref)
        srt = Z.func('sorted<%s>' % h.z.sort(), h.z.sort(), h.z.sort())
        new = srt(h.z)
        ctx.assume(z3.Length(new) == z3.Length(h.z))
        ctx.assume(M.elems_of(new) == M.elems_of(h.z))
        h.z = new
        return NONE
    if name == 'index':
        if h.items is not None:
            for k, it in enumerate(h.items):
                if ctx.branch(I.eq(ctx, it, args[0])):
                    return VInt(k)
            I.raise_exc(ctx, 'ValueError', 'x not in list', node)
    raise Unsupported('list.%s' % name, node)


def set_method(I, ctx, fr, sv, h, name, args, kwargs, node):
    from . import models as M
    z, et = I._as_set(ctx, sv)

    def arg_set(a):
        s, e = M.iterable_as_set(I, ctx, a, node)
        return s, e

    if name in ('add', 'discard', 'remove'):
        if h is None:
            I.raise_exc(ctx, 'AttributeError', 'frozenset is immutable', node)
        ctx.mutate(sv, node)
        x = I.resolve(ctx, args[0])
        xt = I.guess_elem_type([x])
        if h.et.zsort != xt.zsort:
            M.set_retype(h, xt)
        xz = h.et.to_z(x, ctx)
        if name == 'add':
            h.z = z3.SetAdd(h.z, xz)
        else:
            if name == 'remove' and not ctx.branch(z3.IsMember(xz, h.z)):
                I.raise_exc(ctx, 'KeyError', 'remove of a missing element', node)
            h.z = z3.SetDel(h.z, xz)
        return NONE
    if name == 'update':
        ctx.mutate(sv, node)
        for a in args:
            s, e = arg_set(a)
            if s is None:
                continue
            if h.et.zsort != e.zsort:
                M.set_retype(h, e)
            h.z = z3.SetUnion(h.z, s)
        return NONE
    if name == 'clear':
        ctx.mutate(sv, node)
        h.z = Z.empty_set(h.et.zsort)
        return NONE
    if name in ('union', 'intersection', 'difference'):
        r = z
        for a in args:
            s, e = arg_set(a)
            if s is None:
                if name == 'intersection':
                    r = Z.empty_set(et.zsort)
                continue
            if e.zsort != et.zsort:
                raise Unsupported('set.%s over different element sorts' % name, node)
            r = {'union': z3.SetUnion, 'intersection': z3.SetIntersect, 'difference': z3.SetDifference}[name](r, s)
        return VSet(r, et) if (h is None or fr.spec) else ctx.alloc(HSet(r, et))
    if name == 'copy':
        return ctx.alloc(HSet(z, et))
    if name == '__contains__':
        return VBool(M.contains(I, ctx, sv, args[0], node))
    if name in ('issubset', 'issuperset'):
        s, e = arg_set(args[0])
        if s is None:
            s = Z.empty_set(et.zsort)
        return VBool(z3.IsSubset(z, s) if name == 'issubset' else z3.IsSubset(s, z))
    raise Unsupported('set.%s' % name, node)


def dict_method(I, ctx, fr, dv, h, name, args, kwargs, node):
    from . import models as M
    if name == 'get':
        default = args[1] if len(args) > 1 else NONE
        return M.dict_get(I, ctx, dv, I.resolve(ctx, args[0]), node, default=default, raise_missing=False)
    if name == '__contains__':
        return VBool(M.contains(I, ctx, dv, args[0], node))
    if name == 'keys':
        if h is not None and h.conc is not None:
            return M.VIter(items=[M.key_value(k) for k in h.conc.keys()])
        dom, arr, kt, vt = M.dict_sym(I, ctx, dv)
        return VSet(dom, kt)
    if name == 'values':
        if h is not None and h.conc is not None:
            return M.VIter(items=list(h.conc.values()))
        raise Unsupported('values() of a symbolic dict', node)
    if name == 'items':
        if h is not None and h.conc is not None:
            return M.VIter(items=[VTuple([M.key_value(k), x]) for k, x in h.conc.items()])
        return M.VIter(sym=VItems(dv))
    if name == 'copy':
        return M.dict_copy_with(I, ctx, dv, {})
    if h is None:
        raise Unsupported('mutation of an immutable map', node)
    if name == 'update':
        M.dict_update(I, ctx, dv, args[0] if args else None, node, kwargs)
        return NONE
    if name == 'clear':
        ctx.mutate(dv, node)
        h.conc, h.dom, h.arr = {}, None, None
        return NONE
    if name == 'setdefault':
        key = I.resolve(ctx, args[0])
        default = args[1] if len(args) > 1 else NONE
        if ctx.branch(M.contains(I, ctx, dv, key, node)):
            return M.dict_get(I, ctx, dv, key, node)
        M.dict_set(I, ctx, dv, key, default, node)
        return default
    if name == 'pop':
        key = I.resolve(ctx, args[0])
        ck = M.conc_key(key)
        if h.conc is not None and ck is not None:
            if ck in h.conc:
                ctx.mutate(dv, node)
                return h.conc.pop(ck)
            if len(args) > 1:
                return args[1]
            I.raise_exc(ctx, 'KeyError', repr(ck), node)
        if h.conc is not None:
            M.dict_to_sym(I, ctx, dv)
        kz = h.kt.to_z(key, ctx)
        if ctx.branch(z3.IsMember(kz, h.dom)):
            ctx.mutate(dv, node)
            val = h.vt.wrap(Z.simp(z3.Select(h.arr, kz)))
            h.dom = Z.simp(z3.SetDel(h.dom, kz))
            return val
        if len(args) > 1:
            return args[1]
        I.raise_exc(ctx, 'KeyError', 'pop of a missing key', node)
    raise Unsupported('dict.%s' % name, node)


class VPairs(V):
    """A list of (key, value) pairs with distinct keys, order abstracted."""
    kind = 'pairs'

    def __init__(self, dom, arr, kt, vt):
        self.dom, self.arr, self.kt, self.vt = dom, arr, kt, vt


class VItems(V):
    """items() view of a symbolic dict."""
    kind = 'items'

    def __init__(self, dv):
        self.dv = dv


# ---------------------------------------------------------------------------
# builtin functions


def _b_len(I, ctx, fr, args, kwargs, node):
    from . import models as M
    return M.length(I, ctx, args[0], node)


def _b_isinstance(I, ctx, fr, args, kwargs, node):
    cv = I.resolve(ctx, args[1])
    clss = cv.items if isinstance(cv, VTuple) else [cv]
    conds = []
    for c in clss:
        if not isinstance(c, VClass):
            raise Unsupported('isinstance against %r' % (c,), node)
        conds.append(I.isinstance_z(ctx, args[0], c.name))
    return VBool(Z.Or(*conds))


def _b_issubclass(I, ctx, fr, args, kwargs, node):
    a = I.resolve(ctx, args[0])
    b = I.resolve(ctx, args[1])
    if isinstance(a, VClass) and isinstance(b, VClass) and I.classes.has(a.name):
        return VBool(I.classes.static_sub(a.name, b.name))
    if not isinstance(a, VClass):
        I.raise_exc(ctx, 'TypeError', 'issubclass() arg 1 must be a class', node)
    raise Unsupported('issubclass(%r, %r)' % (a, b), node)


def _b_getattr(I, ctx, fr, args, kwargs, node):
    name = I.resolve(ctx, args[1])
    n = name.const() if isinstance(name, VStr) else None
    if n is None:
        return I.engine.getattr_symbolic(ctx, fr, args[0], name, args[2] if len(args) > 2 else None, node)
    if len(args) > 2:
        try:
            return I.getattr(ctx, fr, args[0], n, node)
        except RaiseSig as rs:
            if Z.is_true(Z.simp(I.exc_isinstance(ctx, rs.exc, 'builtins.AttributeError'))):
                return args[2]
            raise
    return I.getattr(ctx, fr, args[0], n, node)


def _b_hasattr(I, ctx, fr, args, kwargs, node):
    name = I.resolve(ctx, args[1])
    n = name.const() if isinstance(name, VStr) else None
    if n is None:
        raise Unsupported('hasattr with a symbolic name', node)
    try:
        I.getattr(ctx, fr, args[0], n, node)
        return VBool(True)
    except RaiseSig as rs:
        if Z.is_true(Z.simp(I.exc_isinstance(ctx, rs.exc, 'builtins.AttributeError'))):
            return VBool(False)
        raise


def _b_setattr(I, ctx, fr, args, kwargs, node):
    name = I.resolve(ctx, args[1])
    n = name.const() if isinstance(name, VStr) else None
    if n is None:
        raise Unsupported('setattr with a symbolic name', node)
    I.setattr(ctx, fr, args[0], n, args[2], node)
    return NONE


def _b_callable(I, ctx, fr, args, kwargs, node):
    v = I.resolve(ctx, args[0])
    if isinstance(v, VCallable):
        return VBool(True)
    if isinstance(v, VObj):
        return VBool(I.engine.callable_of_obj(ctx, v))
    if isinstance(v, VRef):
        h = ctx.heap[v.rid]
        if isinstance(h, HInst):
            try:
                m = I.engine.class_attr(ctx, fr, h.cls, '__call__', v, node)
            except RaiseSig:
                m = None
            return VBool(m is not None)
    return VBool(False)


def _b_set(I, ctx, fr, args, kwargs, node):
    from . import models as M
    if not args:
        return M.make_set(I, ctx, [], fr)
    s, et = M.iterable_as_set(I, ctx, args[0], node)
    if s is None:
        return M.make_set(I, ctx, [], fr)
    if fr.spec:
        return VSet(s, et)
    return ctx.alloc(HSet(s, et))


def _b_frozenset(I, ctx, fr, args, kwargs, node):
    from . import models as M
    if not args:
        return VSet(Z.empty_set(Z.Str), TStr)
    s, et = M.iterable_as_set(I, ctx, args[0], node)
    if s is None:
        return VSet(Z.empty_set(Z.Str), TStr)
    return VSet(s, et)


def seq_of_iterable(I, ctx, v, node):
    """(items|None, (z, et)|None) for an iterable to be materialised in order."""
    from . import models as M
    v = I.resolve(ctx, v)
    if isinstance(v, M.VIter):
        if v.items is not None:
            return list(v.items), None
        v = v.sym
    try:
        return I.iter_concrete(ctx, v, node), None
    except Unsupported:
        pass
    q = I._as_seq(ctx, v)
    if q is not None:
        return None, q
    s = None
    try:
        s = M.iterable_as_set(I, ctx, v, node)
    except Unsupported:
        pass
    if s is not None and s[0] is not None:
        # an unordered collection listed in an arbitrary, duplicate-free order
        z, et = s
        order = Z.fresh('order', Z.SeqSort(et.zsort))
        ctx.assume(M.elems_of(order) == z)
        ctx.assume((z3.Length(order) == 0) == (z == Z.empty_set(et.zsort)))
        return None, (order, et)
    if isinstance(v, VZip):
        raise Unsupported('materialising a symbolic sequence of tuples', node)
    raise Unsupported('iterable %r' % (v,), node)


def _b_list(I, ctx, fr, args, kwargs, node):
    if not args:
        return ctx.alloc(HList(items=[]))
    a = I.resolve(ctx, args[0])
    if isinstance(a, (VZip, VUnzipped)):
        return a
    if isinstance(a, VObj):
        return I.engine.unknown_outcome(ctx, 'list', node)
    items, q = seq_of_iterable(I, ctx, a, node)
    if fr.spec:
        return VTuple(items) if items is not None else VSeq(q[0], q[1])
    if items is not None:
        return ctx.alloc(HList(items=items))
    return ctx.alloc(HList(z=q[0], et=q[1]))


def _b_tuple(I, ctx, fr, args, kwargs, node):
    if not args:
        return VTuple([])
    items, q = seq_of_iterable(I, ctx, args[0], node)
    if items is not None:
        return VTuple(items)
    return VSeq(q[0], q[1])


def _b_dict(I, ctx, fr, args, kwargs, node):
    from . import models as M
    if not args:
        return ctx.alloc(HDict(conc=dict(kwargs)))
    a0 = I.resolve(ctx, args[0])
    if isinstance(a0, VObj):
        # dict(<opaque object>): whatever its __iter__/keys protocol does
        return I.engine.unknown_outcome(ctx, 'dict', node)
    if isinstance(a0, VPairs):
        d = ctx.alloc(HDict(dom=a0.dom, arr=a0.arr, kt=a0.kt, vt=a0.vt))
        for k, x in kwargs.items():
            M.dict_set(I, ctx, d, VStr(k), x, node)
        return d
    return M.dict_copy_with(I, ctx, a0, kwargs)


def _b_str(I, ctx, fr, args, kwargs, node):
    if not args:
        return VStr('')
    return strs.to_str(I, ctx, args[0], node)


def _b_repr(I, ctx, fr, args, kwargs, node):
    return strs.to_repr(I, ctx, args[0], node)


def _b_bool(I, ctx, fr, args, kwargs, node):
    if not args:
        return VBool(False)
    return VBool(I.truth(ctx, args[0]))


def _b_int(I, ctx, fr, args, kwargs, node):
    if not args:
        return VInt(0)
    v = I.resolve(ctx, args[0])
    if isinstance(v, (VInt, VBool)):
        return VInt(TInt.to_z(v))
    if isinstance(v, (VStr, VBytes)):
        ok = Z.func('int_parsable', Z.Str, Z.Bool)(v.z)
        if not ctx.branch(ok):
            I.raise_exc(ctx, 'ValueError', 'invalid literal for int()', node)
        return VInt(Z.func('int_of_str', Z.Str, Z.Int)(v.z))
    if isinstance(v, VFloat):
        f = Z.func('flt_isfinite', Z.Flt, Z.Bool)(v.z)
        if not ctx.branch(f):
            I.raise_exc(ctx, 'OverflowError', 'cannot convert float infinity to integer', node)
        return VInt(Z.func('int_of_flt', Z.Flt, Z.Int)(v.z))
    if isinstance(v, VObj):
        return I.engine.opaque_int(ctx, v, node)
    I.raise_exc(ctx, 'TypeError', 'int() argument must be a string or a number', node)


def _b_float(I, ctx, fr, args, kwargs, node):
    v = I.resolve(ctx, args[0]) if args else VInt(0)
    if isinstance(v, VFloat):
        return v
    if isinstance(v, (VInt, VBool)):
        from . import models as M
        return VFloat(M.to_float(v))
    if isinstance(v, VStr):
        c = v.const()
        if c is not None:
            try:
                float(c)
                return VFloat(Z.const('flt:%r' % float(c), Z.Flt))
            except ValueError:
                I.raise_exc(ctx, 'ValueError', 'could not convert string to float', node)
        ok = Z.func('float_parsable', Z.Str, Z.Bool)(v.z)
        if not ctx.branch(ok):
            I.raise_exc(ctx, 'ValueError', 'could not convert string to float', node)
        return VFloat(Z.func('flt_of_str', Z.Str, Z.Flt)(v.z))
    raise Unsupported('float(%r)' % (v,), node)


def _b_sorted(I, ctx, fr, args, kwargs, node):
    from . import models as M
    items, q = seq_of_iterable(I, ctx, args[0], node)
    if items is not None:
        consts = [M.conc_key(i) for i in items]
        if all(isinstance(c, (str, int)) and not isinstance(c, bool) for c in consts) and not kwargs:
            try:
                order = sorted(range(len(items)), key=lambda i: consts[i])
                return ctx.alloc(HList(items=[items[i] for i in order]))
            except TypeError:
                pass
        if len(items) <= 1:
            return ctx.alloc(HList(items=list(items)))
        q = I._as_seq(ctx, VTuple(items))
        if q is None:
            raise Unsupported('sorted over mixed values', node)
    z, et = q
    keytag = ''
    if 'key' in kwargs:
        keytag = ':key@%s' % getattr(node, 'lineno', 0)
    srt = Z.func('sorted%s<%s>' % (keytag, z.sort()), z.sort(), z.sort())
    new = srt(z)
    ctx.assume(z3.Length(new) == z3.Length(z))
    ctx.assume(M.elems_of(new) == M.elems_of(z))
    return ctx.alloc(HList(z=new, et=et))


def _b_reversed(I, ctx, fr, args, kwargs, node):
    from . import models as M
    v = I.resolve(ctx, args[0])
    try:
        items = I.iter_concrete(ctx, v, node)
        return M.VIter(items=list(reversed(items)))
    except Unsupported:
        pass
    q = I._as_seq(ctx, v)
    if q is None:
        raise Unsupported('reversed(%r)' % (v,), node)
    z, et = q
    return M.VIter(sym=VReversed(VSeq(z, et)))


class VReversed(V):
    """reversed(seq) over a symbolic sequence: a view, iterated from the end."""
    kind = 'reversed'

    def __init__(self, seq):
        self.seq = seq


def _b_zip(I, ctx, fr, args, kwargs, node):
    from . import models as M
    if not args:
        return M.VIter(items=[])
    if len(args) == 1 and isinstance(args[0], VUnzipped):
        return args[0]
    cols = []
    conc = True
    for a in args:
        a = I.resolve(ctx, a)
        if isinstance(a, VZip):
            raise Unsupported('zip over a sequence of tuples', node)
        try:
            cols.append(I.iter_concrete(ctx, a, node))
        except Unsupported:
            conc = False
            cols.append(a)
    if conc:
        n = min(len(c) for c in cols)
        return M.VIter(items=[VTuple([c[i] for c in cols]) for i in range(n)])
    seqs = []
    for c in cols:
        if isinstance(c, list):
            q = I._as_seq(ctx, VTuple(c))
        else:
            q = I._as_seq(ctx, c)
        if q is None:
            raise Unsupported('zip over %r' % (c,), node)
        seqs.append(VSeq(q[0], q[1]))
    return M.VIter(sym=VZipLazy(seqs))


class VUnzipped(V):
    """zip(*rows) for a symbolic sequence of k-tuples: k columns when rows is
    non-empty, nothing otherwise."""
    kind = 'unzipped'

    def __init__(self, cols):
        self.cols = cols


class VZipLazy(V):
    """zip(a, b, ...) over symbolic sequences that may differ in length."""
    kind = 'ziplazy'

    def __init__(self, seqs):
        self.seqs = seqs


def _b_enumerate(I, ctx, fr, args, kwargs, node):
    from . import models as M
    items = I.iter_concrete(ctx, args[0], node)
    start = 0
    return M.VIter(items=[VTuple([VInt(i + start), x]) for i, x in enumerate(items)])


def _b_range(I, ctx, fr, args, kwargs, node):
    from . import models as M
    vals = []
    for a in args:
        s = Z.simp(TInt.to_z(I.resolve(ctx, a)))
        if not z3.is_int_value(s):
            return M.VIter(sym=VRange([TInt.to_z(I.resolve(ctx, x)) for x in args]))
        vals.append(s.as_long())
    return M.VIter(items=[VInt(i) for i in range(*vals)])


class VRange(V):
    kind = 'range'

    def __init__(self, bounds):
        self.bounds = bounds


def _b_all_any(which):
    def f(I, ctx, fr, args, kwargs, node):
        from . import models as M
        v = I.resolve(ctx, args[0])
        if isinstance(v, M.VIter) and v.items is None and isinstance(v.sym, VSeq) and v.sym.et is TBool:
            z = v.sym.z
            k = z3.Int(Z.fresh_name('q'))
            rng = z3.And(k >= 0, k < z3.Length(z))
            if which == 'all':
                return VBool(z3.ForAll([k], z3.Implies(rng, z[k])))
            return VBool(z3.Exists([k], z3.And(rng, z[k])))
        q = I._as_seq(ctx, v)
        try:
            items = I.iter_concrete(ctx, v, node)
        except Unsupported:
            items = None
        if items is None and q is not None and q[1] is TBool:
            z = q[0]
            k = z3.Int(Z.fresh_name('q'))
            rng = z3.And(k >= 0, k < z3.Length(z))
            if which == 'all':
                return VBool(z3.ForAll([k], z3.Implies(rng, z[k])))
            return VBool(z3.Exists([k], z3.And(rng, z[k])))
        if items is None:
            raise Unsupported('%s over %r' % (which, v), node)
        ts = [I.truth(ctx, i) for i in items]
        return VBool(Z.And(*ts) if which == 'all' else Z.Or(*ts))
    return f


def _b_minmax(which):
    def f(I, ctx, fr, args, kwargs, node):
        vals = args if len(args) > 1 else I.iter_concrete(ctx, args[0], node)
        vals = [I.resolve(ctx, v) for v in vals]
        if not vals:
            I.raise_exc(ctx, 'ValueError', '%s() arg is an empty sequence' % which, node)
        if all(isinstance(v, (VInt, VBool)) for v in vals):
            r = TInt.to_z(vals[0])
            for v in vals[1:]:
                x = TInt.to_z(v)
                r = z3.If(x < r, x, r) if which == 'min' else z3.If(x > r, x, r)
            return VInt(Z.simp(r))
        raise Unsupported('%s over %r' % (which, vals), node)
    return f


def _b_type(I, ctx, fr, args, kwargs, node):
    from . import models as M
    v = I.resolve(ctx, args[0])
    if isinstance(v, VRef):
        h = ctx.heap[v.rid]
        if isinstance(h, HInst):
            return I.engine.class_value(h.cls)
        return VClass({HList: 'builtins.list', HSet: 'builtins.set', HDict: 'builtins.dict'}[type(h)])
    k = M.PRIM_CLASSES.get(type(v))
    if k is not None:
        return VClass(k)
    if isinstance(v, VObj):
        return I.engine.type_of_obj(ctx, v)
    if isinstance(v, VClass):
        return VClass('builtins.type')
    raise Unsupported('type(%r)' % (v,), node)


def _b_id(I, ctx, fr, args, kwargs, node):
    v = I.resolve(ctx, args[0])
    return VInt(Z.func('id', Z.Obj, Z.Int)(box(v, ctx)))


def _b_print(I, ctx, fr, args, kwargs, node):
    return NONE


def _b_round(I, ctx, fr, args, kwargs, node):
    v = I.resolve(ctx, args[0])
    if isinstance(v, (VInt, VBool)):
        return VInt(TInt.to_z(v))
    if len(args) > 1:
        return VFloat(Z.func('flt_round', Z.Flt, Z.Int, Z.Flt)(v.z, TInt.to_z(I.resolve(ctx, args[1]))))
    return VInt(Z.func('int_round', Z.Flt, Z.Int)(v.z))


def _b_next(I, ctx, fr, args, kwargs, node):
    v = I.resolve(ctx, args[0])
    if isinstance(v, VObj):
        return I.engine.opaque_next(ctx, v, node)
    raise Unsupported('next(%r)' % (v,), node)


def _b_iter(I, ctx, fr, args, kwargs, node):
    from . import models as M
    items, q = seq_of_iterable(I, ctx, args[0], node)
    if items is not None:
        return M.VIter(items=items)
    return M.VIter(sym=VSeq(q[0], q[1]))


def _b_sum(I, ctx, fr, args, kwargs, node):
    items = I.iter_concrete(ctx, args[0], node)
    tot = z3.IntVal(0)
    for i in items:
        tot = tot + TInt.to_z(I.resolve(ctx, i))
    return VInt(Z.simp(tot))


def _b_abs(I, ctx, fr, args, kwargs, node):
    v = I.resolve(ctx, args[0])
    if isinstance(v, VInt):
        return VInt(z3.If(v.z < 0, -v.z, v.z))
    raise Unsupported('abs(%r)' % (v,), node)


def _b_bytes(I, ctx, fr, args, kwargs, node):
    if not args:
        return VBytes('')
    v = I.resolve(ctx, args[0])
    if isinstance(v, VBytes):
        return v
    raise Unsupported('bytes(%r)' % (v,), node)


def _b_defaultdict(factory_name):
    pass


def _b_set_union(I, ctx, fr, args, kwargs, node):
    from . import models as M
    z, et = None, None
    for a in args:
        s, e = M.iterable_as_set(I, ctx, a, node)
        if s is None:
            continue
        z, et = (s, e) if z is None else (z3.SetUnion(z, s), et)
    if z is None:
        return M.make_set(I, ctx, [], fr)
    return VSet(z, et) if fr.spec else ctx.alloc(HSet(z, et))


BUILTIN_FUNCS = {
    'set.union': _b_set_union,
    'len': _b_len, 'isinstance': _b_isinstance, 'issubclass': _b_issubclass, 'getattr': _b_getattr,
    'hasattr': _b_hasattr, 'setattr': _b_setattr, 'callable': _b_callable, 'set': _b_set,
    'frozenset': _b_frozenset, 'list': _b_list, 'tuple': _b_tuple, 'dict': _b_dict, 'str': _b_str,
    'repr': _b_repr, 'bool': _b_bool, 'int': _b_int, 'float': _b_float, 'sorted': _b_sorted,
    'reversed': _b_reversed, 'zip': _b_zip, 'enumerate': _b_enumerate, 'range': _b_range,
    'all': _b_all_any('all'), 'any': _b_all_any('any'), 'min': _b_minmax('min'), 'max': _b_minmax('max'),
    'type': _b_type, 'id': _b_id, 'print': _b_print, 'round': _b_round, 'next': _b_next, 'iter': _b_iter,
    'sum': _b_sum, 'abs': _b_abs, 'bytes': _b_bytes,
}

BUILTINS = dict((k, VBuiltin(k)) for k in ('len', 'isinstance', 'issubclass', 'getattr', 'hasattr', 'setattr',
                                            'callable', 'sorted', 'reversed', 'zip', 'enumerate', 'range',
                                            'all', 'any', 'min', 'max', 'id', 'print', 'round', 'next',
                                            'iter', 'repr', 'sum', 'abs'))
BUILTINS['True'] = VBool(True)
BUILTINS['False'] = VBool(False)
BUILTINS['None'] = NONE


# ---------------------------------------------------------------------------
# comprehensions


def comprehension(I, ctx, fr, node, kind):
    """List/set/dict/generator comprehension.  Over concrete-length iterables
    it is unrolled; over a symbolic sequence it becomes a canonical recursive
    filter-map function (same body => same function symbol, DESIGN.md 3)."""
    from . import models as M
    from .interp import Frame
    if len(node.generators) != 1:
        raise Unsupported('nested comprehension', node)
    gen = node.generators[0]
    itv = I.resolve(ctx, I.ev(ctx, fr, gen.iter))
    try:
        items = I.iter_concrete(ctx, itv, node)
    except Unsupported:
        items = None
    if isinstance(itv, M.VIter) and items is None:
        itv = itv.sym
    if items is not None:
        out = []
        outk = []
        for it in items:
            cfr = Frame(fr.module, fr.qualname, {}, parent=fr, cls=fr.cls, spec=fr.spec)
            cfr.selfv = fr.selfv
            I.assign(ctx, cfr, gen.target, it, node)
            ok = True
            for cond in gen.ifs:
                if not I.is_true(ctx, I.ev(ctx, cfr, cond)):
                    ok = False
                    break
            if not ok:
                continue
            if kind == 'dict':
                outk.append(I.ev(ctx, cfr, node.key))
                out.append(I.ev(ctx, cfr, node.value))
            else:
                out.append(I.ev(ctx, cfr, node.elt))
        if kind == 'list':
            return VTuple(out) if fr.spec else ctx.alloc(HList(items=out))
        if kind == 'gen':
            return M.VIter(items=out)
        if kind == 'set':
            return M.make_set(I, ctx, out, fr)
        d = ctx.alloc(HDict(conc={}))
        for k, x in zip(outk, out):
            M.dict_set(I, ctx, d, k, x, node)
        return d
    return I.engine.loops.symbolic_comprehension(I, ctx, fr, node, kind, gen, itv)
