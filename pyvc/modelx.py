"""Helpers to read concrete values out of z3 models (for concretisation)."""
import z3


def strings_in(model):
    """All string constants mentioned by the model."""
    out = set()

    def walk(e, depth=0):
        if depth > 40:
            return
        if z3.is_string_value(e):
            out.add(e.as_string())
            return
        if z3.is_app(e):
            for i in range(e.num_args()):
                walk(e.arg(i), depth + 1)
        elif z3.is_quantifier(e):
            walk(e.body(), depth + 1)

    for d in model.decls():
        v = model[d]
        if isinstance(v, z3.FuncInterp):
            for i in range(v.num_entries()):
                en = v.entry(i)
                for j in range(en.num_args()):
                    walk(en.arg_value(j))
                walk(en.value())
            try:
                walk(v.else_value())
            except Exception:
                pass
        elif v is not None and z3.is_expr(v):
            walk(v)
    return out


def eval_set(model, term, universe):
    """Members of a set-valued term among the candidate strings."""
    res = []
    for s in sorted(universe):
        try:
            b = model.eval(z3.IsMember(z3.StringVal(s), term), model_completion=True)
        except z3.Z3Exception:
            continue
        if z3.is_true(b):
            res.append(s)
    return res


def eval_int(model, term, default=0):
    v = model.eval(term, model_completion=True)
    if z3.is_int_value(v):
        return v.as_long()
    return default


def eval_bool(model, term):
    return z3.is_true(model.eval(term, model_completion=True))


def eval_str(model, term):
    v = model.eval(term, model_completion=True)
    if z3.is_string_value(v):
        return v.as_string()
    return None
