"""SMT glue: sorts, constructors, solver wrapper.

Everything z3-specific lives here so the executor never touches the API
directly except through terms.
"""
import os
import subprocess
import tempfile
import time

import z3

z3.set_param('smt.random_seed', 0)

Int = z3.IntSort()
Bool = z3.BoolSort()
Str = z3.StringSort()
Obj = z3.DeclareSort('Obj')        # every Python object whose structure we do not model
Flt = z3.DeclareSort('Float')      # floats are opaque

TRUE = z3.BoolVal(True)
FALSE = z3.BoolVal(False)

NONE = z3.Const('None', Obj)       # the object None, when it flows into Obj-typed places


def SetSort(elem):
    return z3.SetSort(elem)


def SeqSort(elem):
    return z3.SeqSort(elem)


_counter = [0]


def reset_names():
    _counter[0] = 0


def fresh_name(base):
    _counter[0] += 1
    return '%s!%d' % (base, _counter[0])


def fresh(base, sort):
    return z3.Const(fresh_name(base), sort)


_FUNCS = {}


def func(name, *sorts):
    """Global uninterpreted function, one declaration per name."""
    key = name
    if key in _FUNCS:
        f = _FUNCS[key]
        if [f.domain(i) for i in range(f.arity())] + [f.range()] != list(sorts):
            raise ValueError('function %s redeclared with another signature' % name)
        return f
    f = z3.Function(name, *sorts)
    _FUNCS[key] = f
    return f


_CONSTS = {}


def const(name, sort):
    key = (name, sort)
    if key not in _CONSTS:
        _CONSTS[key] = z3.Const(name, sort)
    return _CONSTS[key]


def empty_set(elem):
    return z3.EmptySet(elem)


def set_of(elem, items):
    s = z3.EmptySet(elem)
    for it in items:
        s = z3.SetAdd(s, it)
    return s


def empty_seq(elem):
    return z3.Empty(z3.SeqSort(elem))


def seq_of(elem, items):
    if not items:
        return z3.Empty(z3.SeqSort(elem))
    units = [z3.Unit(i) for i in items]
    if len(units) == 1:
        return units[0]
    return z3.Concat(*units)


def simp(t):
    return z3.simplify(t)


def is_true(t):
    return z3.is_true(t)


def is_false(t):
    return z3.is_false(t)


def And(*xs):
    xs = [x for x in xs if not z3.is_true(x)]
    if not xs:
        return TRUE
    if len(xs) == 1:
        return xs[0]
    return z3.And(*xs)


def Or(*xs):
    xs = [x for x in xs if not z3.is_false(x)]
    if not xs:
        return FALSE
    if len(xs) == 1:
        return xs[0]
    return z3.Or(*xs)


def Not(x):
    return z3.Not(x)


def Implies(a, b):
    return z3.Implies(a, b)


class Axioms(object):
    """Named global axioms (assumed contracts, class tables).  Every one is
    reported in evidence; satisfiability of the whole set is a vacuity check."""

    def __init__(self):
        self.items = []      # (name, term)
        self._names = set()

    def add(self, name, term):
        if name in self._names:
            return
        self._names.add(name)
        self.items.append((name, term))

    def replace(self, name, term):
        for i, (n, _) in enumerate(self.items):
            if n == name:
                self.items[i] = (name, term)
                return
        self._names.add(name)
        self.items.append((name, term))

    def terms(self):
        return [t for _, t in self.items]


AXIOMS = Axioms()


PORTFOLIO = [
    # (options, share of the budget); verdicts of the seq/arith combination are
    # seed-sensitive, so several cheap configurations are tried before a long run
    ({}, 0.02), ({'smt.arith.solver': 2}, 0.04), ({}, 0.08), ({'smt.arith.solver': 2}, 0.08),
    ({'smt.random_seed': 2}, 0.08), ({'smt.random_seed': 3}, 0.08),
    ({'smt.arith.solver': 2, 'smt.random_seed': 5}, 0.08), ({}, 0.5),
]


def _check_once(assertions, timeout_ms, want_model, opts):
    s = z3.Solver()
    s.set('timeout', int(max(timeout_ms, 100)))
    for k, v in opts.items():
        try:
            s.set(k, v)
        except z3.Z3Exception:
            pass
    for a in assertions:
        s.add(a)
    try:
        r = s.check()
    except z3.Z3Exception as e:
        return 'unknown', 'z3 exception: %s' % e
    if r == z3.unsat:
        return 'unsat', None
    if r == z3.sat:
        return 'sat', (s.model() if want_model else None)
    return 'unknown', s.reason_unknown()


def check(assertions, timeout_ms=20000, want_model=False, portfolio=True):
    """Return ('unsat'|'sat'|'unknown', model_or_reason, seconds)."""
    t0 = time.time()
    if not portfolio or timeout_ms <= 3000:
        r, m = _check_once(assertions, timeout_ms, want_model, {})
        return r, m, time.time() - t0
    reason = None
    for opts, share in PORTFOLIO:
        # every configuration gets at least 3 s of wall clock: the cheap ones decide seed-sensitive VCs in
        # milliseconds on an idle machine, but a loaded machine must not turn that into `unknown`
        r, m = _check_once(assertions, max(timeout_ms * share, min(3000, timeout_ms)), want_model, opts)
        if r != 'unknown':
            return r, m, time.time() - t0
        reason = m
        if isinstance(m, str) and 'incomplete' in m:
            # not a resource problem: other seeds will not help
            break
    return 'unknown', reason, time.time() - t0


_SYM_MEMO = {}


def symbols(t):
    """Names of the uninterpreted constants/functions occurring in a term."""
    k = t.get_id()
    m = _SYM_MEMO.get(k)
    if m is not None:
        return m[1]
    out = set()
    stack = [t]
    seen = set()
    while stack:
        e = stack.pop()
        i = e.get_id()
        if i in seen:
            continue
        seen.add(i)
        if z3.is_quantifier(e):
            stack.append(e.body())
        elif z3.is_app(e):
            d = e.decl()
            if d.kind() in (z3.Z3_OP_UNINTERPRETED, z3.Z3_OP_RECURSIVE):
                out.add(d.name())
            stack.extend(e.children())
    _SYM_MEMO[k] = (t, out)
    return out


def cone(assertions, goal_terms):
    """Cone-of-influence slice: the assertions connected to the goal through
    shared uninterpreted symbols.  The dropped assertions share no symbol with
    the slice, so (given a feasible path) slice-sat implies sat and slice-unsat
    implies unsat."""
    want = set()
    for g in goal_terms:
        want |= symbols(g)
    syms = [symbols(a) for a in assertions]
    used = [False] * len(assertions)
    changed = True
    while changed:
        changed = False
        for i, a in enumerate(assertions):
            if not used[i] and (syms[i] & want):
                used[i] = True
                want |= syms[i]
                changed = True
    return [a for i, a in enumerate(assertions) if used[i]]


def relevant_axioms(terms):
    """Global axioms that share a symbol (transitively) with the given terms.  Dropping
    the others is sound: they mention disjoint symbols and are satisfiable on their own
    (checked once per run by the vacuity check)."""
    want = set()
    for t in terms:
        want |= symbols(t)
    ax = AXIOMS.terms()
    syms = [symbols(a) for a in ax]
    used = [False] * len(ax)
    changed = True
    while changed:
        changed = False
        for i in range(len(ax)):
            if not used[i] and (syms[i] & want):
                used[i] = True
                want |= syms[i]
                changed = True
    return [a for i, a in enumerate(ax) if used[i]]


def to_smt2(assertions):
    s = z3.Solver()
    for a in assertions:
        s.add(a)
    return s.to_smt2()


def check_cli(smt2, binary, timeout_s=20, extra=()):
    """Run an external solver binary on an SMT-LIB dump."""
    with tempfile.NamedTemporaryFile('w', suffix='.smt2', delete=False) as f:
        f.write(smt2)
        path = f.name
    try:
        t0 = time.time()
        try:
            p = subprocess.run([binary] + list(extra) + [path], capture_output=True,
                               text=True, timeout=timeout_s)
            out = (p.stdout or '').strip().splitlines()
            res = out[0].strip() if out else 'unknown'
        except subprocess.TimeoutExpired:
            res = 'unknown'
        if res not in ('sat', 'unsat', 'unknown'):
            res = 'unknown'
        return res, time.time() - t0
    finally:
        os.unlink(path)
