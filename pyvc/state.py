"""Per-path execution context: path condition, heap, decision trail,
obligations.  Paths are explored by re-execution: every fork consults the
decision trail; unexplored alternatives are pushed on the engine's worklist."""
import z3

from . import z as Z
from .values import VRef, HInst, HList, HSet, HDict, VObj


_QMEMO = {}


def _has_quant(t):
    k = t.get_id()
    r = _QMEMO.get(k)
    if r is None:
        r = False
        stack = [t]
        seen = 0
        while stack and seen < 4000:
            e = stack.pop()
            seen += 1
            if z3.is_quantifier(e):
                r = True
                break
            if z3.is_app(e):
                stack.extend(e.children())
        _QMEMO[k] = (t, r)
        return r
    return r[1]


class Unsupported(Exception):
    """The source left the supported subset (never a verdict: exit 2)."""

    def __init__(self, why, node=None):
        Exception.__init__(self, why)
        self.why = why
        self.node = node

    def where(self):
        return getattr(self.node, 'lineno', None)


class ContractError(Exception):
    """A sidecar contract does not fit the code (out of date): exit 2."""


class PathEnd(Exception):
    """The current path ends here without an outcome (cut point reached, or
    the path became infeasible)."""


class Signal(Exception):
    pass


class ReturnSig(Signal):
    def __init__(self, value):
        self.value = value


class RaiseSig(Signal):
    def __init__(self, exc, node=None):
        self.exc = exc
        self.node = node


class BreakSig(Signal):
    pass


class ContinueSig(Signal):
    pass


class Obligation(object):
    __slots__ = ('clause', 'kind', 'goal', 'pc', 'func', 'lineno', 'note', 'trail', 'extra')

    def __init__(self, clause, kind, goal, pc, func, lineno, note, trail, extra=None):
        self.clause = clause
        self.kind = kind
        self.goal = goal
        self.pc = pc
        self.func = func
        self.lineno = lineno
        self.note = note
        self.trail = trail
        self.extra = extra or {}


SHAREDP = Z.func('SHARED_ACROSS_REQUESTS', Z.Obj, Z.Bool)


class Ctx(object):
    FEAS_TIMEOUT_MS = 400

    def __init__(self, engine, trail):
        self.engine = engine
        self.trail = list(trail)
        self.pos = 0
        self.pc = []
        self.heap = {}
        self.next_rid = 1
        self.obls = []
        self.attr = {}          # attribute heap: name -> z3 array term
        self.writes = []        # (obj term, attr, lineno) writes to opaque objects
        self.trace = []         # ghost call trace
        self.fresh = []         # Obj terms allocated on this path
        self.func = None
        self.depth = 0
        self.open_files = []
        self.notes = []
        self.loop_guard = []    # stack of (watermark rid, allowed rids) for loop frames
        self._boxed = {}
        self.unique_objs = []   # Obj constants known pairwise distinct

    # -- forking -----------------------------------------------------------
    def _feasible(self, cond):
        # quantified facts are left out: feasibility only prunes, "unknown" counts as feasible
        ground = [a for a in Z.AXIOMS.terms() if not _has_quant(a)]
        pc = [p for p in self.pc if not _has_quant(p)]
        r, _, _ = Z.check(ground + pc + [cond], self.FEAS_TIMEOUT_MS, portfolio=False)
        self.engine.stats['feas_checks'] += 1
        return r != 'unsat'

    def branch(self, cond):
        """Fork on a z3 Bool; returns the Python bool of the branch taken and
        records the condition in the path condition."""
        cond = Z.simp(cond)
        if Z.is_true(cond):
            return True
        if Z.is_false(cond):
            return False
        if getattr(self, 'no_branch', 0):
            raise Unsupported('a spec or comprehension body needs a case split on %s' % cond)
        if self.pos < len(self.trail):
            d = self.trail[self.pos]
            self.pos += 1
            self.pc.append(cond if d else Z.Not(cond))
            return bool(d)
        t_ok = self._feasible(cond)
        f_ok = self._feasible(Z.Not(cond))
        if t_ok and f_ok:
            self.engine.push(self.trail[:self.pos] + [0])
            d = 1
        elif t_ok:
            d = 1
        elif f_ok:
            d = 0
        else:
            raise PathEnd()
        self.trail.append(d)
        self.pos += 1
        self.pc.append(cond if d else Z.Not(cond))
        return bool(d)

    def nondet(self, n, label=''):
        """n-way unconditional choice; returns index."""
        if n == 1:
            return 0
        if self.pos < len(self.trail):
            d = self.trail[self.pos]
            self.pos += 1
            return d
        for alt in range(1, n):
            self.engine.push(self.trail[:self.pos] + [alt])
        self.trail.append(0)
        self.pos += 1
        return 0

    _SIMP_MEMO = {}

    def assume(self, fact):
        if z3.is_expr(fact):
            k = fact.get_id()
            m = Ctx._SIMP_MEMO.get(k)
            if m is None:
                m = Ctx._SIMP_MEMO[k] = (fact, Z.simp(fact))
            fact = m[1]
        if Z.is_true(fact):
            return
        self.pc.append(fact)

    def oblige(self, clause, goal, kind='K', node=None, note='', extra=None):
        goal = Z.simp(goal)
        if not Z.is_true(goal):
            gid = goal.get_id()
            for p_ in self.pc:
                if p_.get_id() == gid:
                    goal = Z.TRUE       # the goal is literally one of the assumptions of the path
                    break
        lineno = getattr(node, 'lineno', None)
        self.obls.append(Obligation(clause, kind, goal, list(self.pc), self.func, lineno, note,
                                    list(self.trail[:self.pos]), extra))
        # assert-then-assume: later obligations on this path are not polluted -- except that a goal which is
        # literally false is NOT assumed: it would make every later obligation of the path vacuously true
        # (e.g. hide a violated exc_ensures behind a violated raises clause)
        if not Z.is_true(goal) and not Z.is_false(goal):
            self.pc.append(goal)

    # -- heap ----------------------------------------------------------------
    def alloc(self, h):
        rid = self.next_rid
        self.next_rid += 1
        self.heap[rid] = h
        return VRef(rid)

    def obj(self, ref):
        return self.heap[ref.rid]

    def mutate(self, ref, node=None):
        """Called before any mutation of a heap object: enforces loop frames."""
        fm = getattr(self, 'frame_mark', None)
        if fm is not None and ref.rid in getattr(self, 'shared_rids', ()):
            self.frame_conds.append((Z.FALSE, 'store into a mutable parameter default, which all calls share (line %s)'
                                     % getattr(node, 'lineno', '?')))
        if fm is not None and ref.rid < fm and ref.rid not in self.frame_ok:
            # frame condition: an object that existed before the call is being stored into
            self.frame_conds.append((Z.FALSE, 'store into an object that existed before the call (line %s)'
                                     % getattr(node, 'lineno', '?')))
        for g in self.loop_guard:
            mark, allowed = g[0], g[1]
            if ref.rid < mark and ref.rid not in allowed:
                if len(g) > 2:
                    # the loop contract's frame is a proof obligation: the body stores into an object
                    # that lives across iterations and is not in `modifies`
                    self.oblige(g[2], Z.FALSE, 'K', node,
                                note='loop frame: the body stores into an object that outlives the iteration and is not '
                                     'listed in the loop contract\'s modifies (line %s)' % getattr(node, 'lineno', '?'))
                raise Unsupported('loop body mutates an object not listed in the loop '
                                  'contract\'s modifies (rid %d)' % ref.rid, node)
        return self.heap[ref.rid]

    def box_ref(self, ref):
        """Obj constant standing for a heap object with concrete identity."""
        if ref.rid in self._boxed:
            return self._boxed[ref.rid]
        h0 = self.heap.get(ref.rid)
        if isinstance(h0, HDict) and h0.conc is not None and h0.conc and all(isinstance(k, str) for k in h0.conc) \
                and len(h0.conc) <= 6 and not getattr(self, '_boxing_dict', False):
            # a small literal dict stored into an Obj slot keeps its content (value semantics:
            # sound as long as it is not mutated afterwards, which the frame checks would flag)
            from .values import box, box_map, unbox_map_dom, unbox_map_arr, tag
            self._boxing_dict = True
            try:
                dom = Z.set_of(Z.Str, [z3.StringVal(k) for k in h0.conc])
                arr = z3.K(Z.Str, Z.NONE)
                for k, v in h0.conc.items():
                    arr = z3.Store(arr, z3.StringVal(k), box(v, self))
            finally:
                self._boxing_dict = False
            b = box_map(dom, arr)
            self.pc.append(z3.And(unbox_map_dom(b) == dom, unbox_map_arr(b) == arr, tag(b) == 9, b != Z.NONE))
            return b
        c = Z.fresh('ref%d' % ref.rid, Z.Obj)
        for other in self.unique_objs:
            self.pc.append(c != other)
        self.pc.append(c != Z.NONE)
        self.unique_objs.append(c)
        self._boxed[ref.rid] = c
        h = self.heap.get(ref.rid)
        if isinstance(h, HInst):
            h.z = c
            self.engine.on_box_inst(self, c, h)
        return c

    def unbox_ref(self, zterm):
        for rid, c in self._boxed.items():
            if c.eq(zterm):
                return VRef(rid)
        return None

    def box_callable(self, v):
        key = ('callable', repr(v))
        if key in self._boxed:
            return self._boxed[key]
        c = Z.fresh('fn', Z.Obj)
        self.pc.append(c != Z.NONE)
        self._boxed[key] = c
        self.engine.on_box_callable(self, c, v)
        self._callables = getattr(self, '_callables', {})
        self._callables[str(c)] = v
        return c

    def unbox_callable(self, zterm):
        return getattr(self, '_callables', {}).get(str(zterm))

    def new_obj(self, base='o', distinct=True):
        c = Z.fresh(base, Z.Obj)
        if distinct:
            for other in self.unique_objs:
                self.pc.append(c != other)
            self.unique_objs.append(c)
        self.pc.append(c != Z.NONE)
        self.fresh.append(c)
        return c

    # -- attribute heap for opaque objects ----------------------------------------
    def attr_array(self, key, rsort):
        a = self.attr.get(key)
        if a is None:
            a = Z.const('H0:%s' % key, z3.ArraySort(Z.Obj, rsort))
            self.attr[key] = a
        return a

    def attr_read(self, key, rsort, obj):
        return z3.Select(self.attr_array(key, rsort), obj)

    def attr_write(self, key, rsort, obj, val, node=None):
        a = self.attr_array(key, rsort)
        self.attr[key] = z3.Store(a, obj, val)
        self.writes.append((obj, key, getattr(node, 'lineno', None)))
        if getattr(self, 'frame_mark', None) is not None:
            self.frame_conds.append((Z.Not(SHAREDP(obj)), 'attribute %s of a shared object stored (line %s)'
                                     % (key, getattr(node, 'lineno', '?'))))
        self.write_values = getattr(self, 'write_values', [])
        self.write_values.append((obj, key, val))

    def snapshot_heap(self):
        return dict((rid, h.copy()) for rid, h in self.heap.items())
