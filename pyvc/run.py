"""Check driver: builds the obligations of one property from /repo's current
working tree, discharges them, replays refutations natively, writes evidence.

Exit codes: 0 held / 1 violation / 2 undecided / 3 checker defect.
"""
import glob
import hashlib
import importlib
import json
import os
import re
import shutil
import subprocess
import sys
import tempfile
import time
import traceback

import z3

from . import z as Z
from .engine import Engine, HERE, VENV_PY
from .source import REPO

QUICK_TIMEOUT_MS = 20000
THOROUGH_TIMEOUT_MS = 120000


def load_contracts(E):
    sys.path.insert(0, HERE) if HERE not in sys.path else None
    mods = []
    for path in sorted(glob.glob(os.path.join(HERE, 'contracts', '*.py'))):
        name = os.path.basename(path)[:-3]
        if name.startswith('_'):
            continue
        m = importlib.import_module('contracts.' + name)
        m._loaded_once = True
        mods.append(m)
    E.loaded = set()

    def need(name):
        if name in E.loaded:
            return
        E.loaded.add(name)
        mod = importlib.import_module('contracts.' + name)
        for d in getattr(mod, 'DEPENDS', ()):
            need(d)
        if hasattr(mod, 'register'):
            mod.register(E)
    for m in mods:
        need(m.__name__.split('.')[-1])
    return mods


class Item(object):
    """One obligation instance ready for the solver."""

    def __init__(self, clause, kind, assertions, goal, func=None, lineno=None, note='', extra=None,
                 concretise=None, backend='z3'):
        self.clause = clause
        self.kind = kind            # K / L / T
        self.assertions = assertions
        self.goal = goal
        self.func = func
        self.lineno = lineno
        self.note = note
        self.extra = extra or {}
        self.concretise = concretise
        self.backend = backend
        self.result = None
        self.model = None
        self.seconds = 0.0
        self.by = None


_SLOW = {}      # clause -> number of instances the solver gave up on (per process)
_SPENT = [0.0]  # solver seconds spent on obligations that did not discharge (per process)
GIVE_UP_AFTER_S = 150


def discharge(item, timeout_ms, second_opinion=False):
    if _SPENT[0] > GIVE_UP_AFTER_S:
        # minutes have gone into obligations the solver cannot decide: the tree is outside what the proofs cover;
        # the remaining obligations get a short budget so that the check still ends in reasonable time
        timeout_ms = min(timeout_ms, 1000)
        second_opinion = False
        item.extra['no_slice'] = True
    if _SLOW.get(item.clause, 0) >= 2:
        # the clause is already undecided twice in this process: further instances get a short budget
        # (the verdict for the clause cannot become "discharged" any more)
        timeout_ms = min(timeout_ms, 3000)
        second_opinion = False
    r = _discharge(item, timeout_ms, second_opinion)
    if item.result == 'unknown':
        _SLOW[item.clause] = _SLOW.get(item.clause, 0) + 1
        _SPENT[0] += item.seconds
    return r


def _discharge(item, timeout_ms, second_opinion=False):
    if item.extra.get('cover'):
        # reachability check behind a set of hypotheses: an assertion that must FAIL.
        # sat = the hypotheses are satisfiable (good); unsat = they are contradictory and every
        # lemma stated under them would hold vacuously (checker defect, never "discharged")
        body = list(item.assertions)
        r, m, dt = Z.check(Z.relevant_axioms(body) + body, timeout_ms, want_model=False)
        item.seconds, item.by = dt, 'z3-%s (cover)' % z3.get_version_string()
        item.result = {'sat': 'discharged', 'unsat': 'vacuous', 'unknown': 'unknown'}[r]
        return item
    if Z.is_true(item.goal):
        item.result, item.by, item.seconds = 'discharged', 'simplifier', 0.0
        return item
    body = list(item.assertions) + [Z.Not(item.goal)]
    asserts = Z.relevant_axioms(body) + body
    r, m, dt = Z.check(asserts, timeout_ms, want_model=True)
    item.seconds = dt
    item.by = 'z3-%s' % z3.get_version_string()
    if r == 'unknown' and not item.extra.get('no_slice'):
        # cone-of-influence slice: only what shares symbols with the negated goal
        neg = Z.Not(item.goal)
        sl = Z.cone(Z.AXIOMS.terms() + list(item.assertions), [neg]) if Z.symbols(neg) else []
        if sl and len(sl) < len(asserts) - 1:
            r2, m2, dt2 = Z.check(sl + [neg], timeout_ms, want_model=True)
            item.seconds += dt2
            if r2 != 'unknown':
                r, m = r2, m2
                item.by += ' (cone-of-influence slice %d/%d)' % (len(sl), len(asserts) - 1)
    if r == 'unknown' and (second_opinion or item.backend == 'strings'):
        # second back end on the dump: cvc5 for the string fragment, old z3 otherwise
        try:
            smt2 = Z.to_smt2(asserts)
        except Exception:
            smt2 = None
        if smt2 is not None:
            for binary, extra, tag in (('/usr/bin/cvc5', ['--strings-exp', '--tlimit=%d' % timeout_ms], 'cvc5'),
                                       ('/usr/bin/z3', ['-T:%d' % max(1, timeout_ms // 1000)], 'z3-4.8.12')):
                if not os.path.exists(binary):
                    continue
                r2, dt2 = Z.check_cli(smt2, binary, timeout_s=timeout_ms / 1000.0 + 5, extra=extra)
                item.seconds += dt2
                if r2 in ('unsat', 'sat'):
                    r = r2
                    item.by = tag
                    m = None
                    break
    elif second_opinion and r in ('unsat', 'sat'):
        try:
            smt2 = Z.to_smt2(asserts)
            r2, dt2 = Z.check_cli(smt2, '/usr/bin/z3', timeout_s=30, extra=['-T:20'])
            item.seconds += dt2
            if r2 in ('unsat', 'sat') and r2 != r:
                item.result = 'disagree'
                item.extra['disagree'] = (r, r2)
                return item
            if r2 == r:
                item.by += '+z3-4.8.12'
        except Exception:
            pass
    item.result = {'unsat': 'discharged', 'sat': 'refuted', 'unknown': 'unknown'}[r]
    item.model = m if r == 'sat' else None
    if r == 'unknown' and isinstance(m, str):
        item.extra['reason_unknown'] = m
    return item


def discharge_all(items, timeout_ms, second_opinion=False):
    """Discharge a list of items, first trying runs of consecutive obligations of
    one exit point (pc_k+1 == pc_k + [goal_k]) with a single query for their
    conjunction; falls back to one query per obligation when that fails."""
    i = 0
    n = len(items)
    while i < n:
        it = items[i]
        if it.result is not None or it.assertions is None:
            i += 1
            continue
        j = i + 1
        while j < n and items[j].result is None and items[j].assertions is not None \
                and len(items[j].assertions) == len(items[j - 1].assertions) + (0 if Z.is_true(items[j - 1].goal) else 1) \
                and (len(items[j].assertions) == 0 or Z.is_true(items[j - 1].goal)
                     or items[j].assertions[-1].eq(items[j - 1].goal)) \
                and all(a.eq(b) for a, b in zip(items[j].assertions[:3], items[i].assertions[:3])):
            j += 1
        run = items[i:j]
        if len(run) >= 3:
            goals = [x.goal for x in run if not Z.is_true(x.goal)]
            if goals:
                body = list(run[0].assertions) + [Z.Not(Z.And(*goals))]
                tmo = timeout_ms if not any(_SLOW.get(x.clause, 0) >= 2 for x in run) else min(timeout_ms, 3000)
                if _SPENT[0] > GIVE_UP_AFTER_S:
                    tmo = min(tmo, 2000)
                r, m, dt = Z.check(Z.relevant_axioms(body) + body, tmo, want_model=False)
                if r == 'unknown':
                    _SPENT[0] += dt
            else:
                r, dt = 'unsat', 0.0
            if r == 'unsat':
                for x in run:
                    x.result, x.by, x.seconds = 'discharged', 'z3-%s (conjunction of %d exit obligations)' % (z3.get_version_string(), len(run)), dt / len(run)
                i = j
                continue
        for x in run:
            discharge(x, timeout_ms, second_opinion)
        i = j


class PropertyCheck(object):
    """Collects everything one property needs; subclasses/instances are built
    by the per-property files under /verif/props/."""

    def __init__(self, pid, tier, seed):
        self.pid = pid
        self.tier = tier
        self.seed = seed
        self.items = []
        self.undecided = []
        self.functions = []
        self.assumptions = []
        self.bounded = []
        self.known_lines = []
        self.violations = []
        self.notes = []
        self.canaries = {'killed': 0, 'total': 0, 'survivors': []}
        self.errors = []
        self.t0 = time.time()
        self.E = None
        self.props_mod = None

    # -- building ----------------------------------------------------------------
    def engine(self, root=None):
        E = Engine(root)
        load_contracts(E)
        return E

    def add_functions(self, E, targets):
        for t in targets:
            if getattr(self, 'canary_mode', False) and any(it.result not in (None, 'discharged') for it in self.items):
                return      # a canary needs one failing obligation only
            c = E.contracts.get(t)
            if c is None:
                self.undecided.append(('no contract registered for %s' % t, None, t))
                continue
            if c.trusted:
                self.assumptions.append('trusted contract on %s: %s' % (t, c.note))
                continue
            if c.heavy and os.environ.get('PYVC_SERIAL') != '1':
                self._add_parallel(E, t, c)
                continue
            try:
                res = E.verify(t)
            except Exception as e:
                self.errors.append('engine crash in %s: %s' % (t, traceback.format_exc()[-1500:]))
                continue
            self.functions.append({'function': t, 'file': res.file, 'lines': res.span, 'sha1': res.hash,
                                   'paths': res.paths, 'obligation_instances': len(res.obligations)})
            for why, line in res.undecided:
                self.undecided.append((why, line, t))
            for o in res.obligations:
                self.items.append(Item(o.clause, o.kind, o.pc, o.goal, o.func, o.lineno, o.note, dict(o.extra, trail=o.trail, target=t)))
            if not res.obligations and not res.undecided:
                self.errors.append('vacuity: no obligations generated for %s' % t)
            elif c.ensures and not res.undecided and not getattr(self, 'canary_mode', False) \
                    and not any('/ensures[' in o.clause for o in res.obligations):
                # every explored path ends in an exception: the postconditions were never checked
                self.errors.append('vacuity: no path of %s reaches a normal exit; its postconditions are never checked' % t)

    def _add_parallel(self, E, t, c):
        from . import par
        tmo = THOROUGH_TIMEOUT_MS if self.tier == 'thorough' else QUICK_TIMEOUT_MS
        if getattr(self, 'canary_mode', False):
            tmo = 3000
        try:
            info, records, undec, errors, paths = par.verify_parallel(
                E, t, tmo, self.pid if self.props_mod is not None else None, here=HERE,
                stop_at_first_failure=bool(getattr(self, 'canary_mode', False)))
        except Exception:
            self.errors.append('parallel engine crash in %s: %s' % (t, traceback.format_exc()[-1500:]))
            return
        self.functions.append({'function': t, 'file': info.file, 'lines': info.span, 'sha1': info.hash,
                               'paths': paths, 'obligation_instances': len(records), 'explored': 'parallel'})
        for why, line in undec:
            self.undecided.append((why, line, t))
        for e in errors:
            self.errors.append('worker crash in %s: %s' % (t, e))
        for kind, rec in records:
            if kind == 'local':
                self.items.append(rec)
                continue
            it = Item(rec['clause'], rec['kind'], None, None, rec['func'], rec['lineno'], rec['note'], rec['extra'])
            it.result, it.seconds, it.by = rec['result'], rec['seconds'], rec['by']
            it.model_text = rec.get('model')
            it.smt_tail = rec.get('smt_tail')
            self.items.append(it)
        if not records and not undec:
            self.errors.append('vacuity: no obligations generated for %s' % t)
        elif c.ensures and not undec and not getattr(self, 'canary_mode', False) \
                and not any('/ensures[' in (r.clause if k == 'local' else r['clause']) for k, r in records):
            self.errors.append('vacuity: no path of %s reaches a normal exit; its postconditions are never checked' % t)

    def refute_ground(self, E, lengths=(0, 1, 2)):
        """Refutation mode for functions with undecided clauses (DESIGN.md 2.9)."""
        tmo = 5000
        deadline = time.time() + 90          # refutation is an extra: it must not turn a check into a long run
        funcs = {}
        for it in self.items:
            if it.result == 'unknown' and it.kind == 'K' and it.extra.get('target') \
                    and not E.contracts[it.extra['target']].heavy:
                funcs.setdefault(it.extra['target'], []).append(it)
        for target, its in funcs.items():
            found = {}
            wanted = set(it.clause for it in its)
            for n in lengths:
                if time.time() > deadline:
                    break
                try:
                    res = E.verify(target, ground=n)
                except Exception:
                    continue
                for o in res.obligations:
                    if o.clause in found or o.clause not in wanted or time.time() > deadline:
                        continue
                    g = Item(o.clause, 'K', o.pc, o.goal, o.func, o.lineno, o.note, dict(o.extra, trail=o.trail, ground=n))
                    discharge(g, tmo)
                    if g.result == 'refuted':
                        found[o.clause] = g
                if found:
                    break
            E.ground = None
            for it in its:
                g = found.get(it.clause)
                if g is not None:
                    it.result, it.model, it.by = 'refuted', g.model, g.by + ' (ground instance, sequence length %d)' % g.extra['ground']
                    it.extra.update(ground=g.extra['ground'])
                    it.assertions, it.goal = g.assertions, g.goal
            # clauses unknown in proof mode whose failure shows up under another clause id
            for cl, g in found.items():
                if not any(it.clause == cl for it in its):
                    g.by += ' (ground instance, sequence length %d)' % g.extra['ground']
                    self.items.append(g)

    def native_search(self, unknown_items, script, payload, replay_script):
        """Bounded native refutation search for clauses the solver left undecided;
        a found case is a natively reproduced violation attached to the first such clause."""
        root = self.E.repo.root if self.E is not None else None
        try:
            out = native(script, payload, repo_root=root, timeout=900)
        except Exception as e:
            self.notes.append('refutation search %s crashed: %r' % (script, e))
            return None
        self.notes.append('refutation search %s: tried %s cases, found %s' % (script, out.get('tried'), bool(out.get('found'))))
        if out.get('found'):
            it = unknown_items[0]
            it.result = 'refuted'
            it.by = (it.by or '') + ' unknown -> native refutation search'
            it.extra['native_case'] = {'script': replay_script, 'case': out['found']['case']}
            it.extra['reason_unknown_before_search'] = it.extra.get('reason_unknown')
        return out

    def add_item(self, item):
        self.items.append(item)

    def bounded_native(self, clause, script, case, what, bound, cases=None):
        """Run a native oracle as a bounded stand-in (labelled bounded, never counted as proved); a failing case is a
        violation reproduced natively, with a replay file."""
        root = self.E.repo.root if self.E is not None else None
        try:
            out = native(script, case, repo_root=root, timeout=900)
        except Exception as e:
            self.errors.append('bounded stand-in %s crashed: %r' % (script, e))
            return None
        if out.get('harness_error'):
            self.errors.append('bounded stand-in %s: %s' % (script, out['harness_error'][-400:]))
            return out
        self.bounded.append({'what': what, 'bound': bound, 'cases': cases if cases is not None else out.get('cases'),
                             'failures': out.get('count', 1 if out.get('fails') else 0), 'label': 'bounded'})
        if out.get('fails'):
            fn = 'replays/%s-bounded-%s.json' % (self.pid, re.sub(r'[^A-Za-z0-9]+', '-', clause.split('/', 1)[-1]))
            os.makedirs(os.path.join(HERE, 'replays'), exist_ok=True)
            with open(os.path.join(HERE, fn), 'w') as f:
                json.dump({'property': self.pid, 'obligation': '%s (bounded stand-in)' % clause,
                           'concretised_input': {'script': script, 'case': case}, 'native_observation': out}, f, indent=1, default=str)
            self.violations.append((clause, fn, True))
        return out

    # -- solving -------------------------------------------------------------------
    def solve(self):
        tmo = THOROUGH_TIMEOUT_MS if self.tier == 'thorough' else QUICK_TIMEOUT_MS
        discharge_all(self.items, tmo, second_opinion=(self.tier == 'thorough'))
        if not getattr(self, 'canary_mode', False):
            from .par import _retry_unknown
            _retry_unknown([it for it in self.items if it.assertions is not None], tmo)
        if self.E is not None and any(it.result == 'unknown' for it in self.items):
            self.refute_ground(self.E, (0, 1, 2) if self.tier == 'quick' else (0, 1, 2, 3))
        unk = [it for it in self.items if it.result == 'unknown']
        if unk and self.props_mod is not None and hasattr(self.props_mod, 'refute'):
            self.props_mod.refute(self, unk)

    def clauses(self):
        agg = {}
        for it in self.items:
            a = agg.setdefault(it.clause, {'n': 0, 'discharged': 0, 'refuted': [], 'unknown': [], 'kind': it.kind,
                                           'seconds': 0.0, 'by': set()})
            a['n'] += 1
            a['seconds'] += it.seconds
            a['by'].add(it.by)
            if it.result == 'discharged':
                a['discharged'] += 1
            elif it.result == 'refuted':
                a['refuted'].append(it)
            else:
                a['unknown'].append(it)
        return agg


def native(script, payload, repo_root=None, timeout=300):
    """Run an oracle script under the repo's interpreter; JSON in, JSON out."""
    env = dict(os.environ)
    env['PYTHONPATH'] = (repo_root or REPO) + os.pathsep + os.path.join(HERE, 'oracle') + os.pathsep + env.get('PYTHONPATH', '')
    env['PYTHONDONTWRITEBYTECODE'] = '1'
    env['PYTHONHASHSEED'] = env.get('PYTHONHASHSEED', '0')
    p = subprocess.run([VENV_PY, '-W', 'ignore', os.path.join(HERE, 'oracle', script)],
                       input=json.dumps(payload), capture_output=True, text=True, env=env, cwd='/', timeout=timeout)
    if p.returncode != 0:
        raise RuntimeError('%s failed (%d): %s' % (script, p.returncode, (p.stderr or p.stdout)[-3000:]))
    out = p.stdout.strip().splitlines()
    return json.loads(out[-1])


def load_json(name, default):
    path = os.path.join(HERE, name)
    if not os.path.exists(path):
        return default
    with open(path) as f:
        return json.load(f)


def model_text(model, limit=6000):
    if model is None:
        return None
    try:
        s = str(model)
    except Exception as e:
        s = 'model not printable: %s' % e
    return s[:limit]


def finish(pc, props_mod):
    """Turn solved items into verdict, replay files, evidence.  Returns exit code."""
    pid = pc.pid
    os.makedirs(os.path.join(HERE, 'replays'), exist_ok=True)
    # a run against a scratch copy of the repository (PYVC_REPO) must not overwrite the evidence of /repo
    evdir = os.path.join(HERE, '.scratch', 'evidence') if os.environ.get('PYVC_REPO') else os.path.join(HERE, 'evidence')
    os.makedirs(evdir, exist_ok=True)
    baseline = load_json('baseline_obligations.json', {}).get(pid, None)
    known = [k for k in load_json('known_findings.json', {'findings': []})['findings'] if k.get('property') == pid]
    known_clauses = dict((k['clause'], k) for k in known if k.get('status') == 'known' and k.get('clause'))
    agg = pc.clauses()
    exit_code = 0
    lines = []
    n_clauses = len([c for c in agg if c not in known_clauses])
    n_discharged = sum(1 for c, a in agg.items() if a['discharged'] == a['n'] and c not in known_clauses)
    by_backend = {}
    for it in pc.items:
        if it.result == 'discharged':
            by_backend[it.by] = by_backend.get(it.by, 0) + 1
    for it in pc.items:
        if it.result == 'vacuous':
            pc.errors.append('vacuous hypotheses: cover obligation %s is unreachable' % it.clause)
    disagree = [it for it in pc.items if it.result == 'disagree']
    if disagree:
        pc.errors.append('solvers disagree on %s' % [d.clause for d in disagree])

    # known findings: replay the recorded inputs natively
    known_hit = set()
    for k in known:
        if k.get('status') != 'known':
            continue
        still = None
        if k.get('replay'):
            try:
                r = native(k['replay']['script'], k['replay']['case'])
                still = bool(r.get('fails'))
                k['_observed'] = r
            except Exception as e:
                pc.errors.append('known-finding replay crashed: %s' % e)
        if still:
            lines.append('KNOWN-FINDING: property=%s %s' % (pid, k['what']))
            known_hit.add(k.get('clause'))

    violations = []
    undecided = list(pc.undecided)
    for clause, a in sorted(agg.items()):
        if a['discharged'] == a['n']:
            continue
        if clause in known_clauses:
            # the case-split clause of a recorded finding: expected to fail
            continue
        if a['refuted'] and all((x.extra or {}).get('default_external') for x in a['refuted']):
            # every counter-model rests on an exception invented by the default contract of an unmodelled
            # external function: the code needs a contract for it, nothing is known about the property
            it = a['refuted'][0]
            undecided.append(('clause %s refuted only through the default contract of unmodelled external %s (may raise any Exception): needs a contract, not a counterexample'
                              % (clause, it.extra['default_external']), it.lineno, it.func))
        elif a['refuted']:
            it = a['refuted'][0]
            rep = {'property': pid, 'obligation': clause, 'kind': it.kind, 'function': it.func, 'line': it.lineno,
                   'note': it.note, 'solver': it.by, 'solver_verdict': 'sat (negated obligation has a model)',
                   'model': model_text(it.model) if it.model is not None else getattr(it, 'model_text', None), 'path_decisions': it.extra.get('trail'),
                   'extra': dict((k, v) for k, v in it.extra.items() if k != 'trail' and isinstance(v, (str, int, float, list, dict, type(None))))}
            reproduced = False
            conc = it.concretise or getattr(props_mod, 'concretise', None)
            if it.extra.get('native_case'):
                nc = it.extra['native_case']
                conc = lambda pc_, it_: nc
            if conc is not None:
                try:
                    case = conc(pc, it)
                    if case is not None:
                        rep['concretised_input'] = case
                        out = native(case['script'], case['case'], repo_root=(pc.E.repo.root if pc.E else None))
                        rep['native_observation'] = out
                        reproduced = bool(out.get('fails'))
                except Exception as e:
                    rep['replay_error'] = repr(e)
            if not reproduced and hasattr(props_mod, 'search'):
                # the solver refuted the clause but its model could not be concretised:
                # bounded native search for an input exhibiting the failure
                try:
                    found = props_mod.search(pc, it)
                    if found is not None:
                        rep['concretised_input'] = found
                        out = native(found['script'], found['case'], repo_root=(pc.E.repo.root if pc.E else None))
                        rep['native_observation'] = out
                        rep['input_found_by'] = 'bounded native search seeded by the refuted obligation'
                        reproduced = bool(out.get('fails'))
                except Exception as e:
                    rep['search_error'] = repr(e)
            in_baseline = baseline is not None and clause in baseline
            if baseline is not None and not in_baseline and clause.endswith('/raises'):
                # on the baselined tree no path of this function raised at all (no raises obligation was
                # generated); an escaping exception that the contract does not allow is a failed obligation
                stem = clause[:-len('raises')]
                in_baseline = any(b.startswith(stem) for b in baseline)
            own = getattr(props_mod, 'OWN', None)
            if in_baseline and own is not None and not any(re.search(rx, clause) for rx in own):
                # a proof-support clause shared with other properties: its failure breaks this
                # property's proof but is not by itself a violation of this property
                in_baseline = False
                rep['support_clause'] = True
            fn = 'replays/%s-%s.json' % (pid, hashlib.sha1(clause.encode()).hexdigest()[:10])
            with open(os.path.join(HERE, fn), 'w') as f:
                json.dump(rep, f, indent=1, default=str)
            if reproduced:
                violations.append((clause, fn, True))
            elif in_baseline:
                violations.append((clause, fn, False))
            else:
                undecided.append(('clause %s refuted but %s' % (clause, 'it is a proof-support clause shared with other properties and this property\'s native oracle found no failing input' if rep.get('support_clause') else 'neither reproduced natively nor in the baseline'), it.lineno, it.func))
        else:
            it = a['unknown'][0]
            undecided.append(('clause %s: solver %s (%s)' % (clause, it.result, it.extra.get('reason_unknown', '')), it.lineno, it.func))
    if baseline is not None:
        missing = [c for c in baseline if c not in agg]
        for c in missing:
            undecided.append(('baselined clause %s was not generated (code or contract changed shape)' % c, None, None))

    # extra violations found by evaluation-discharged or bounded checks
    for v in pc.violations:
        violations.append(v)

    # the deductive part is undecided (code left the verified subset, a proof-support clause failed, the
    # solver gave up) and nothing is refuted yet: bounded native search with the property's own oracle.
    # A failing input found this way is a reproduced violation; finding none leaves the verdict undecided.
    if undecided and not violations and hasattr(props_mod, 'fallback') and not getattr(pc, 'canary_mode', False):
        try:
            cases = props_mod.fallback(pc) or []
        except Exception as e:
            cases = []
            pc.notes.append('fallback native search crashed: %r' % (e,))
        for case in cases:
            try:
                out = native(case['script'], case['case'], repo_root=(pc.E.repo.root if pc.E else None), timeout=900)
            except Exception as e:
                pc.notes.append('fallback native case crashed: %r' % (e,))
                continue
            if out.get('found') and case.get('replay_script'):
                # a search script: replay the case it found with the single-case oracle
                case = {'script': case['replay_script'], 'case': out['found']['case']}
                try:
                    out = native(case['script'], case['case'], repo_root=(pc.E.repo.root if pc.E else None), timeout=900)
                except Exception as e:
                    pc.notes.append('fallback replay crashed: %r' % (e,))
                    continue
            if out.get('fails'):
                fn = 'replays/%s-fallback-%s.json' % (pid, hashlib.sha1(json.dumps(case, sort_keys=True).encode()).hexdigest()[:10])
                with open(os.path.join(HERE, fn), 'w') as f:
                    json.dump({'property': pid, 'obligation': 'native oracle of %s (deductive verdict undecided: %s)'
                               % (pid, '; '.join(str(u[0])[:160] for u in undecided[:3])),
                               'concretised_input': case, 'native_observation': out,
                               'input_found_by': 'bounded native search after an undecided deductive verdict'}, f, indent=1, default=str)
                violations.append(('%s.native' % pid, fn, True))
                break

    for clause, fn, reproduced in violations:
        tail = '' if reproduced else ' no-failing-input-found'
        lines.append('VIOLATION property=%s replay=%s%s' % (pid, os.path.join(HERE, fn), tail))
    if pc.errors:
        exit_code = 3
    elif violations:
        exit_code = 1
    elif undecided:
        exit_code = 2

    wall = time.time() - pc.t0
    samples = []
    for it in pc.items[:3]:
        try:
            smt = getattr(it, 'smt_tail', None) or Z.to_smt2(list(it.assertions) + [Z.Not(it.goal)])
            samples.append({'clause': it.clause, 'kind': it.kind, 'result': it.result, 'smtlib_tail': smt[-1200:]})
        except Exception:
            samples.append({'clause': it.clause, 'kind': it.kind, 'result': it.result})
    for b in pc.bounded[:2]:
        samples.append({'bounded_standin': b.get('what'), 'cases': b.get('cases')})
    trusted = ['CPython 3.12 semantics as encoded by pyvc (DESIGN.md 2.7)', 'z3 %s' % z3.get_version_string(),
               'the pyvc engine (policed by canary mutants)'] + sorted(set(pc.assumptions))
    ev = {
        'property_id': pid, 'tier': pc.tier, 'seed': pc.seed, 'level': 'proof',
        'coverage': {
            'obligations': n_clauses,
            'discharged': n_discharged,
            'obligation_instances': len(pc.items),
            'instances_discharged': sum(1 for it in pc.items if it.result == 'discharged'),
            'checker_cmd': './check %s --tier %s' % (pid, pc.tier),
            'trusted_base': trusted,
            'functions_under_contract': pc.functions,
            'by_backend': by_backend,
            'by_kind': dict((k, sum(1 for a in agg.values() if a['kind'] == k)) for k in set(a['kind'] for a in agg.values())),
            'solver_s': round(sum(it.seconds for it in pc.items), 3),
            'samples': samples,
            'bounded_standins': pc.bounded,
            'known_finding_clauses_not_counted': sorted(c for c in agg if c in known_clauses),
            'known_findings': [dict((kk, vv) for kk, vv in k.items() if not kk.startswith('_')) for k in known],
            'canaries': pc.canaries,
            'undecided': [{'why': w, 'line': l, 'function': f} for (w, l, f) in undecided],
            'notes': pc.notes,
            'explanation': 'obligations = distinct contract clauses (function/clause id); each clause is discharged '
                           'when every path instance of it is unsat under the negated goal; bounded stand-ins are '
                           'listed separately and never counted',
        },
        'assumptions': sorted(set(pc.assumptions)) + ['axiom: ' + n for n, _ in Z.AXIOMS.items][:200],
        'wall_s': round(wall, 2),
        'violations': len(violations),
    }
    if pc.errors:
        ev['coverage']['errors'] = pc.errors
    with open(os.path.join(evdir, '%s.json' % pid), 'w') as f:
        json.dump(ev, f, indent=1, default=str)
    for l in lines:
        print(l)
    print('%s tier=%s clauses=%d discharged=%d instances=%d violations=%d undecided=%d errors=%d wall=%.1fs exit=%d'
          % (pid, pc.tier, n_clauses, n_discharged, len(pc.items), len(violations), len(undecided), len(pc.errors), wall, exit_code))
    for (w, l, f) in undecided[:20]:
        print('  undecided: %s (%s:%s)' % (w, f, l))
    for e in pc.errors[:10]:
        print('  error: %s' % e)
    return exit_code


def run_canaries(pc, props_mod, limit=None):
    """Mutants of the *current real source* that must each make at least one
    obligation of the property fail.  A survivor means the contract is too weak
    or the engine skipped the code: checker defect (exit 3)."""
    cans = list(getattr(props_mod, 'CANARIES', []))
    if limit is not None:
        # rotate by seed so that quick runs cover all canaries over time
        k = pc.seed % max(1, len(cans))
        cans = (cans[k:] + cans[:k])[:limit]
    for can in cans:
        path = os.path.join(REPO, can['file'])
        with open(path, encoding='utf8') as f:
            text = f.read()
        if can['old'] not in text:
            pc.notes.append('canary %s not applicable to the current source (pattern absent)' % can['name'])
            continue
        tmp = tempfile.mkdtemp(prefix='pyvc-canary-')
        try:
            shutil.copytree(os.path.join(REPO, 'clastic'), os.path.join(tmp, 'clastic'),
                            ignore=shutil.ignore_patterns('__pycache__', 'tests'))
            with open(os.path.join(tmp, can['file']), 'w', encoding='utf8') as f:
                f.write(text.replace(can['old'], can['new'], 1))
            sub = PropertyCheck(pc.pid, pc.tier, pc.seed)
            sub.props_mod = props_mod
            sub.canary_mode = True
            try:
                E = sub.engine(tmp)
                props_mod.build(sub, E, canary=can)
                failed = bool(sub.undecided or sub.violations)
                if not failed:
                    # a baselined clause of a function that was verified in this run is no longer generated (e.g. every
                    # path of one contract case now raises, so its ensures never come up): the proof shape changed
                    base = load_json('baseline_obligations.json', {}).get(pc.pid) or []
                    got = set(it.clause for it in sub.items)
                    stems = [f['function'].split('clastic.', 1)[-1].split('#')[0] for f in sub.functions if f.get('function')]
                    for c in base:
                        if c not in got and any(c.startswith(st + '/') or c.startswith(st + '[') for st in stems):
                            failed = True
                            break
                if not failed:
                    # one failing obligation is enough; short budget, no refutation search
                    for it in sub.items:
                        if it.result is None:
                            discharge(it, 5000)
                        if it.result != 'discharged':
                            failed = True
                            break
            except Exception as e:
                failed = False
                pc.errors.append('canary %s: engine raised %r' % (can['name'], traceback.format_exc()[-800:]))
            pc.canaries['total'] += 1
            if failed:
                pc.canaries['killed'] += 1
            else:
                pc.canaries['survivors'].append(can['name'])
                pc.errors.append('canary mutant %s survived' % can['name'])
        finally:
            shutil.rmtree(tmp, ignore_errors=True)


def main(argv):
    import argparse
    ap = argparse.ArgumentParser()
    ap.add_argument('pid')
    ap.add_argument('--tier', default=os.environ.get('VERIF_TIER', 'quick'))
    ap.add_argument('--replay', default=None)
    ap.add_argument('--rebaseline', action='store_true')
    ap.add_argument('--no-canaries', action='store_true')
    ap.add_argument('--all-canaries', action='store_true', help='run every canary mutant also in the quick tier')
    ap.add_argument('-v', action='store_true')
    a = ap.parse_args(argv)
    seed = int(os.environ.get('VERIF_SEED', '0') or 0)
    if a.replay:
        with open(a.replay) as f:
            rep = json.load(f)
        case = rep.get('concretised_input')
        if not case:
            print('replay file has no concretised input; obligation %s; solver output follows' % rep.get('obligation'))
            print(rep.get('model'))
            return 0
        out = native(case['script'], case['case'])
        print(json.dumps(out, indent=1))
        return 1 if out.get('fails') else 0
    sys.path.insert(0, HERE) if HERE not in sys.path else None
    try:
        props_mod = importlib.import_module('props.%s' % a.pid)
    except ImportError as e:
        print('no check for property %s: %s' % (a.pid, e))
        return 3
    pc = PropertyCheck(a.pid, a.tier, seed)
    pc.props_mod = props_mod
    try:
        E = pc.engine()
        pc.E = E
        props_mod.build(pc, E)
        pc.solve()
        if not a.no_canaries and not a.rebaseline:
            run_canaries(pc, props_mod, limit=None if (a.tier == 'thorough' or a.all_canaries) else getattr(props_mod, 'QUICK_CANARIES', 2))
        for n in sorted(getattr(E, 'used_default_externals', ())):
            pc.assumptions.append('external %s: default contract (any result, may raise any Exception, assigns nothing)' % n)
    except Exception:
        pc.errors.append('checker crash: %s' % traceback.format_exc()[-3000:])
    if a.rebaseline:
        agg = pc.clauses()
        ok = sorted(c for c, x in agg.items() if x['discharged'] == x['n'])
        bl = load_json('baseline_obligations.json', {})
        bl[a.pid] = ok
        with open(os.path.join(HERE, 'baseline_obligations.json'), 'w') as f:
            json.dump(bl, f, indent=1, sort_keys=True)
        print('baseline for %s: %d clauses (of %d generated)' % (a.pid, len(ok), len(agg)))
        bad = sorted(c for c, x in agg.items() if x['discharged'] != x['n'])
        for c in bad:
            print('  not discharged:', c)
    if a.v:
        for it in pc.items:
            print('  %-10s %-5s %6.3fs %s' % (it.result, it.kind, it.seconds, it.clause))
    return finish(pc, props_mod)


if __name__ == '__main__':
    sys.exit(main(sys.argv[1:]))
