"""Parallel path exploration: the master expands the decision tree breadth
first until the frontier is wide enough, then worker processes (spawned, each
with its own engine and z3 context) explore the sub-trees and discharge the
obligations they generate.  Decision trails are portable between processes
because fresh names are a deterministic function of the trail."""
import importlib
import multiprocessing as mp
import os
import sys
import time
import traceback

_W = {}
_RETRIES = [0]


def _init(repo_root, here):
    sys.path.insert(0, here) if here not in sys.path else None
    from pyvc.engine import Engine
    from pyvc.run import load_contracts
    E = Engine(repo_root)
    load_contracts(E)
    _W['E'] = E


def _retry_unknown(its, timeout_ms):
    """a verdict must not flip to `unknown` because the machine is busy: obligations the solver gave up on
    get one more attempt with three times the budget (at most a handful per task)"""
    from pyvc.run import discharge, _SLOW
    for it in its:
        if it.result == 'unknown' and it.assertions is not None and _RETRIES[0] < 3 and _SLOW.get(it.clause, 0) < 3:
            _RETRIES[0] += 1            # per process: a tree that is really broken must not cost minutes per clause
            it.result = None
            _SLOW[it.clause] = 0
            discharge(it, timeout_ms * 2)


def _work(task):
    from pyvc import z as Z
    from pyvc.run import Item, discharge, model_text
    E = _W['E']
    target, case_idx, trails, timeout_ms, props_name, ground = task
    out = {'items': [], 'undecided': [], 'paths': 0, 'errors': [], 'frontier': [], 'case': task[1]}
    try:
        props_mod = importlib.import_module('props.%s' % props_name) if props_name else None
        if props_mod is not None and hasattr(props_mod, 'worker_setup') and not _W.get(('setup', props_name)):
            # contracts a property registers at build time (not at module load) must exist in the worker too
            props_mod.worker_setup(E)
            _W[('setup', props_name)] = True
        res = E.verify(target, only_case=case_idx, initial_worklist=trails, ground=ground, budget_paths=24,
                       keep_frontier=True, bfs=True)
        out['paths'] = res.paths
        out['frontier'] = [list(t) for t in res.frontier]
        out['case'] = case_idx
        out['undecided'] = list(res.undecided)
        seen_sample = 0
        from pyvc.run import discharge_all
        its = [Item(o.clause, o.kind, o.pc, o.goal, o.func, o.lineno, o.note, dict(o.extra, trail=o.trail, target=target))
               for o in res.obligations]
        discharge_all(its, timeout_ms)
        _retry_unknown(its, timeout_ms)
        for it in its:
            rec = {'clause': it.clause, 'kind': it.kind, 'func': it.func, 'lineno': it.lineno, 'note': it.note,
                   'result': it.result, 'seconds': it.seconds, 'by': it.by,
                   'extra': dict((k, v) for k, v in it.extra.items()
                                 if isinstance(v, (str, int, float, list, dict, type(None), bool)))}
            if it.result == 'refuted':
                rec['model'] = model_text(it.model)
                conc = getattr(props_mod, 'concretise', None) if props_mod else None
                if conc is not None:
                    try:
                        case = conc(None, it)
                        if case is not None:
                            rec['extra']['native_case'] = case
                    except Exception as e:
                        rec['extra']['concretise_error'] = repr(e)
            if it.result != 'discharged' or seen_sample < 1:
                try:
                    rec['smt_tail'] = Z.to_smt2(list(it.assertions) + [Z.Not(it.goal)])[-1200:]
                    seen_sample += 1
                except Exception:
                    pass
            out['items'].append(rec)
    except Exception:
        out['errors'].append(traceback.format_exc()[-2000:])
    return out


def verify_parallel(E, target, timeout_ms, props_name, nproc=None, here=None, ground=None, min_paths=24,
                    stop_at_first_failure=False):
    """Returns (function result skeleton, list of item records, undecided, errors)."""
    nproc = nproc or max(2, min(16, (os.cpu_count() or 4)))
    c = E.contracts[target]
    ncases = len(c.cases) if c.cases else 1
    records, undecided, errors = [], [], []
    paths = 0
    tasks = []
    info = None
    for ci in range(ncases):
        res = E.verify(target, only_case=ci, budget_paths=min_paths, bfs=True, keep_frontier=True, ground=ground)
        info = info or res
        frontier = res.frontier
        paths += res.paths
        from pyvc.run import Item, discharge_all
        its = [Item(o.clause, o.kind, o.pc, o.goal, o.func, o.lineno, o.note, dict(o.extra, trail=o.trail, target=target))
               for o in res.obligations]
        discharge_all(its, timeout_ms)
        for it in its:
            records.append(('local', it))
        undecided += [u for u in res.undecided if 'path budget' not in u[0]]
        if frontier:
            k = min(len(frontier), nproc * 3)
            chunks = [frontier[i::k] for i in range(k)]
            for ch in chunks:
                tasks.append((target, ci, ch, timeout_ms, props_name, ground))
    n_refuted = 0
    if tasks:
        ctx = mp.get_context('spawn')
        with ctx.Pool(min(nproc, max(len(tasks), 4)), initializer=_init, initargs=(E.repo.root, here)) as pool:
            # dynamic scheduling: a task explores at most 30 paths and hands back the rest of its
            # sub-tree, which is split into new tasks
            pending = [pool.apply_async(_work, (t,)) for t in tasks]
            while pending:
                nxt = []
                for ar in pending:
                    if not ar.ready():
                        nxt.append(ar)
                        continue
                    out = ar.get()
                    paths += out['paths']
                    undecided += [u for u in out['undecided'] if 'path budget' not in u[0]]
                    errors += out['errors']
                    for rec in out['items']:
                        records.append(('remote', rec))
                    if stop_at_first_failure and (out['undecided'] or any(r.get('result') != 'discharged' for r in out['items'])):
                        # canary mode: one failing obligation is all that is needed
                        pool.terminate()
                        return info, records, undecided, errors, paths
                    n_refuted += sum(1 for r in out['items'] if r.get('result') == 'refuted')
                    if n_refuted >= 8:
                        # the function is definitely broken (several obligation instances have counter-models): the verdict
                        # cannot improve by exploring the remaining paths; stop instead of spending minutes on them
                        pool.terminate()
                        undecided.append(('exploration of %s stopped after %d refuted obligation instances' % (target, n_refuted), None))
                        return info, records, undecided, errors, paths
                    fr = out.get('frontier') or []
                    if fr:
                        k = max(1, min(len(fr), 8))
                        for ch in [fr[i::k] for i in range(k)]:
                            nxt.append(pool.apply_async(_work, ((target, out['case'], ch, timeout_ms, props_name, ground),)))
                pending = nxt
                if pending:
                    time.sleep(0.05)
    return info, records, undecided, errors, paths
