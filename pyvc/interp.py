"""The symbolic executor: walks the Python AST of the real functions.

One Interp per engine; one Ctx per path.  Expression evaluation returns a V;
control flow uses Python exceptions (ReturnSig/RaiseSig/BreakSig/ContinueSig).
"""
import ast

import z3

from . import z as Z
from .values import *   # noqa
from .state import (Unsupported, ContractError, PathEnd, ReturnSig, RaiseSig, BreakSig,
                    ContinueSig, Ctx)
from .classes import cls_of, issub

truthy = Z.func('truthy', Z.Obj, Z.Bool)
Z.AXIOMS.add('truthy(None)', Z.Not(truthy(Z.NONE)))
is_callable = Z.func('callable', Z.Obj, Z.Bool)
Z.AXIOMS.add('callable(None)', Z.Not(is_callable(Z.NONE)))

MAX_INLINE_DEPTH = 8


class Frame(object):
    def __init__(self, module, qualname, locals_=None, parent=None, cls=None, spec=False):
        self.module = module
        self.qualname = qualname
        self.locals = locals_ if locals_ is not None else {}
        self.parent = parent          # closure parent
        self.cls = cls                # dotted name of the class a method belongs to
        self.spec = spec              # spec mode: side-effect free, logical connectives
        self.cur_exc = None
        self.selfv = None
        self.specns = None

    def lookup(self, name):
        f = self
        while f is not None:
            if name in f.locals:
                return f.locals[name]
            f = f.parent
        return None


class VSpecFn(VCallable):
    """A spec-level function written in Python over V values."""

    def __init__(self, fn, name=None):
        self.fn = fn
        self.name = name or getattr(fn, '__name__', 'spec')

    def __repr__(self):
        return 'VSpecFn(%s)' % self.name


class Interp(object):
    def __init__(self, engine):
        self.engine = engine
        self.repo = engine.repo
        self.refl = engine.refl
        self.classes = engine.classes
        from . import models
        self.models = models
        self.spec_funcs = {}

    # ------------------------------------------------------------------
    # helpers

    def unsupported(self, why, node=None):
        raise Unsupported(why, node)

    def resolve(self, ctx, v):
        """Resolve an optional by branching."""
        while isinstance(v, VOpt):
            if getattr(ctx, 'no_branch', 0):
                # spec mode: total; the formula guards the None case itself
                v = v.val
                continue
            if ctx.branch(v.isnone):
                return NONE
            v = v.val
        return v

    def hobj(self, ctx, v):
        return ctx.heap[v.rid] if isinstance(v, VRef) else None

    # -- truthiness ------------------------------------------------------------
    def truth(self, ctx, v):
        if isinstance(v, VBool):
            return v.z
        if isinstance(v, VInt):
            return v.z != 0
        if isinstance(v, (VStr, VBytes)):
            return z3.Length(v.z) > 0
        if isinstance(v, VNone):
            return Z.FALSE
        if isinstance(v, VOpt):
            return Z.And(Z.Not(v.isnone), self.truth(ctx, v.val))
        if isinstance(v, VTuple):
            return z3.BoolVal(len(v.items) > 0)
        if isinstance(v, (VSeq,)):
            return z3.Length(v.z) > 0
        if isinstance(v, VZip) or getattr(v, 'kind', '') == 'unzipped':
            return z3.Length(v.cols[0].z) > 0
        if isinstance(v, VSet):
            return v.z != Z.empty_set(v.et.zsort)
        if isinstance(v, VNames):
            return nset(v.z) != Z.empty_set(Z.Str)
        if isinstance(v, VMap) or getattr(v, 'kind', '') == 'pairs':
            return v.dom != Z.empty_set(v.kt.zsort)
        if isinstance(v, VObj):
            return self.engine.truth_of_obj(ctx, v)
        if isinstance(v, VRef):
            h = ctx.heap[v.rid]
            if isinstance(h, HList):
                if h.items is not None:
                    return z3.BoolVal(len(h.items) > 0)
                return z3.Length(h.z) > 0
            if isinstance(h, HSet):
                return h.z != Z.empty_set(h.et.zsort)
            if isinstance(h, HDict):
                if h.conc is not None:
                    return z3.BoolVal(len(h.conc) > 0)
                return h.dom != Z.empty_set(h.kt.zsort)
            return Z.TRUE
        if isinstance(v, (VCallable, VModule)):
            return Z.TRUE
        if isinstance(v, VFloat):
            return Z.func('flt_truthy', Z.Flt, Z.Bool)(v.z)
        self.unsupported('truthiness of %r' % (v,))

    def is_true(self, ctx, v):
        r = ctx.branch(self.truth(ctx, v))
        if not r:
            # an empty symbolic sequence is the empty sequence: say so explicitly,
            # the solver then rewrites concatenations with it
            zs = []
            if isinstance(v, VSeq):
                zs = [v.z]
            elif isinstance(v, VZip) or getattr(v, 'kind', '') == 'unzipped':
                zs = [c.z for c in v.cols]
            elif isinstance(v, VRef) and isinstance(ctx.heap[v.rid], HList) and ctx.heap[v.rid].items is None:
                zs = [ctx.heap[v.rid].z]
            for zt in zs:
                ctx.assume(zt == z3.Empty(zt.sort()))
        return r

    # -- equality ----------------------------------------------------------------
    def eq(self, ctx, a, b, node=None):
        """z3 Bool for Python's a == b."""
        if isinstance(a, VOpt) or isinstance(b, VOpt):
            if isinstance(a, VOpt) and isinstance(b, VNone):
                return a.isnone
            if isinstance(b, VOpt) and isinstance(a, VNone):
                return b.isnone
            a = self.resolve(ctx, a)
            b = self.resolve(ctx, b)
        if isinstance(a, VNone) or isinstance(b, VNone):
            if isinstance(a, VNone) and isinstance(b, VNone):
                return Z.TRUE
            o = b if isinstance(a, VNone) else a
            if isinstance(o, VObj):
                return o.z == Z.NONE
            return Z.FALSE
        num = (VInt, VBool)
        if isinstance(a, num) and isinstance(b, num):
            if isinstance(a, VBool) and isinstance(b, VBool):
                return a.z == b.z
            return TInt.to_z(a) == TInt.to_z(b)
        if isinstance(a, VStr) and isinstance(b, VStr):
            return a.z == b.z
        if isinstance(a, VBytes) and isinstance(b, VBytes):
            return a.z == b.z
        if isinstance(a, VFloat) and isinstance(b, VFloat):
            return a.z == b.z
        prim = (VInt, VBool, VStr, VBytes, VFloat)
        if isinstance(a, prim) and isinstance(b, prim):
            if isinstance(a, VFloat) or isinstance(b, VFloat):
                return Z.fresh('flteq', Z.Bool)
            return Z.FALSE       # e.g. int vs bytes, str vs bytes: never equal in py3
        if isinstance(a, VObj) and isinstance(b, VObj):
            hook = self.engine.eq_hook(a, b)
            if hook is not None:
                return hook(ctx, a, b)
            return a.z == b.z
        if isinstance(a, VObj) or isinstance(b, VObj):
            o, x = (a, b) if isinstance(a, VObj) else (b, a)
            if isinstance(x, prim) or isinstance(x, VRef):
                return o.z == box(x, ctx)
            if isinstance(x, VCallable):
                return o.z == box(x, ctx)
        if isinstance(a, VTuple) and isinstance(b, VTuple):
            if len(a.items) != len(b.items):
                return Z.FALSE
            return Z.And(*[self.eq(ctx, x, y) for x, y in zip(a.items, b.items)])
        sa, sb = self._as_set(ctx, a), self._as_set(ctx, b)
        if sa is not None and sb is not None:
            return sa[0] == sb[0]
        if isinstance(a, VNames) and isinstance(b, VNames):
            return a.z == b.z
        qa = self._as_seq(ctx, a) if isinstance(a, VSeq) or (isinstance(a, VRef) and isinstance(ctx.heap[a.rid], HList) and ctx.heap[a.rid].items is None) else None
        qb = self._as_seq(ctx, b) if isinstance(b, VSeq) or (isinstance(b, VRef) and isinstance(ctx.heap[b.rid], HList) and ctx.heap[b.rid].items is None) else None
        try:
            if qa is None and qb is not None:
                qa = self._as_seq(ctx, a, qb[1])
            elif qb is None and qa is not None:
                qb = self._as_seq(ctx, b, qa[1])
            elif qa is None and qb is None:
                qa, qb = self._as_seq(ctx, a), self._as_seq(ctx, b)
        except TypeError:
            qa = qb = None
        if qa is not None and qb is not None:
            if qa[1].zsort == qb[1].zsort:
                return qa[0] == qb[0]
        if isinstance(a, VRef) and isinstance(b, VRef):
            ha, hb = ctx.heap[a.rid], ctx.heap[b.rid]
            if isinstance(ha, HInst) and isinstance(hb, HInst):
                return z3.BoolVal(a.rid == b.rid)
            if isinstance(ha, HDict) and isinstance(hb, HDict):
                da, db = self.models.dict_sym(self, ctx, a), self.models.dict_sym(self, ctx, b)
                if da is not None and db is not None and da[1].sort() == db[1].sort():
                    return Z.And(da[0] == db[0], da[1] == db[1])
        if isinstance(a, VCallable) and isinstance(b, VCallable):
            return z3.BoolVal(repr(a) == repr(b))
        if isinstance(a, VClass) or isinstance(b, VClass):
            return Z.FALSE
        if type(a) != type(b):
            ka = getattr(a, 'kind', None)
            if isinstance(a, prim) or isinstance(b, prim):
                return Z.FALSE
        self.unsupported('equality of %r and %r' % (a, b), node)

    def _as_set(self, ctx, v):
        if isinstance(v, VSet):
            return v.z, v.et
        if isinstance(v, VRef):
            h = ctx.heap[v.rid]
            if isinstance(h, HSet):
                return h.z, h.et
        return None

    def _as_seq(self, ctx, v, et=None):
        """(z Seq term, elem type) for sequence-like values with an embeddable
        element type, else None."""
        if isinstance(v, VSeq):
            return v.z, v.et
        if isinstance(v, VRef):
            h = ctx.heap[v.rid]
            if isinstance(h, HList):
                if h.items is None:
                    return h.z, h.et
                v = VTuple(h.items)
            else:
                return None
        if isinstance(v, VTuple):
            if et is None:
                et = self.guess_elem_type(v.items)
                if et is None:
                    return None
            try:
                return Z.seq_of(et.zsort, [et.to_z(i, ctx) for i in v.items]), et
            except TypeError:
                return None
        return None

    def guess_elem_type(self, items):
        if not items:
            return None
        kinds = set(type(i) for i in items)
        if kinds == {VStr}:
            return TStr
        if kinds == {VInt}:
            return TInt
        if kinds <= {VObj, VRef, VNone} or True:
            cls = None
            for i in items:
                if isinstance(i, VObj) and i.cls:
                    cls = i.cls
            return TObj(cls)

    def identical(self, ctx, a, b):
        """z3 Bool for `a is b`."""
        if isinstance(a, VOpt) and isinstance(b, VNone):
            return a.isnone
        if isinstance(b, VOpt) and isinstance(a, VNone):
            return b.isnone
        a = self.resolve(ctx, a)
        b = self.resolve(ctx, b)
        if isinstance(a, VNone) and isinstance(b, VNone):
            return Z.TRUE
        if isinstance(a, VNone) or isinstance(b, VNone):
            o = b if isinstance(a, VNone) else a
            if isinstance(o, VObj):
                return o.z == Z.NONE
            return Z.FALSE
        if isinstance(a, VRef) and isinstance(b, VRef):
            return z3.BoolVal(a.rid == b.rid)
        if isinstance(a, VObj) and isinstance(b, VObj):
            return a.z == b.z
        if isinstance(a, VObj) or isinstance(b, VObj):
            o, x = (a, b) if isinstance(a, VObj) else (b, a)
            if isinstance(x, (VRef, VCallable)):
                return o.z == box(x, ctx)
            return Z.FALSE
        if isinstance(a, VBool) and isinstance(b, VBool):
            return a.z == b.z
        if isinstance(a, VCallable) and isinstance(b, VCallable):
            return z3.BoolVal(repr(a) == repr(b))
        if type(a) != type(b):
            return Z.FALSE
        if isinstance(a, (VStr, VInt, VBytes, VFloat)):
            return a.z == b.z      # interning: `is` on str/int only used against literals
        self.unsupported('identity of %r and %r' % (a, b))

    # ------------------------------------------------------------------
    # raising

    def make_exc(self, ctx, clsname, args=()):
        """Instance of a builtin/repo exception class with concrete class."""
        h = HInst(clsname, {'args': VTuple(list(args))})
        return ctx.alloc(h)

    def raise_exc(self, ctx, clsname, msg='', node=None):
        if ':' not in clsname and '.' not in clsname:
            clsname = 'builtins.' + clsname
        raise RaiseSig(self.make_exc(ctx, clsname, [VStr(msg)]), node)

    def exc_class_term(self, ctx, exc):
        """z3 Cls term of an exception value."""
        if isinstance(exc, VRef):
            h = ctx.heap[exc.rid]
            return self.classes.const(h.cls)
        if isinstance(exc, VObj):
            return cls_of(exc.z)
        self.unsupported('exception value %r' % (exc,))

    def isinstance_z(self, ctx, v, clsname):
        """z3 Bool: isinstance(v, class with dotted name)."""
        v = self.resolve(ctx, v)
        m = self.models.PRIM_CLASSES
        if isinstance(v, VRef):
            h = ctx.heap[v.rid]
            if isinstance(h, HInst):
                if self.classes.has(h.cls):
                    return z3.BoolVal(self.classes.static_sub(h.cls, clsname))
                return z3.BoolVal(self.engine.repo_static_sub(h.cls, clsname))
            k = {HList: 'builtins.list', HSet: 'builtins.set', HDict: 'builtins.dict'}[type(h)]
            return z3.BoolVal(self.models.container_isinstance(k, clsname))
        if isinstance(v, VObj):
            c = self.classes.const(clsname)
            return issub(cls_of(v.z), c)
        k = m.get(type(v))
        if k is not None:
            return z3.BoolVal(self.models.container_isinstance(k, clsname))
        if isinstance(v, VCallable):
            if isinstance(v, VClass):
                return z3.BoolVal(clsname in ('builtins.type', 'builtins.object'))
            return z3.BoolVal(clsname in ('builtins.object', 'builtins.function', 'types.FunctionType'))
        self.unsupported('isinstance(%r, %s)' % (v, clsname))

    # ------------------------------------------------------------------
    # name lookup

    def lookup(self, ctx, fr, name, node=None):
        v = fr.lookup(name)
        if v is not None:
            return v
        if fr.specns is not None and name in fr.specns:
            return fr.specns[name]
        f = fr
        while f is not None and f.specns is None:
            f = f.parent
        if f is not None and name in f.specns:
            return f.specns[name]
        v = self.module_global(ctx, fr.module, name, node)
        if v is not None:
            return v
        if name in self.models.BUILTINS:
            return self.models.BUILTINS[name]
        if name in self.refl['builtins']:
            d = 'builtins.' + {'IOError': 'OSError', 'EnvironmentError': 'OSError'}.get(name, name)
            if self.classes.has(d):
                return VClass(d)
            return VBuiltin(name)
        # NameError-freedom: the name is neither local, nor in the real module
        # namespace, nor a builtin
        self.raise_exc(ctx, 'NameError', "name '%s' is not defined" % name, node)

    def module_global(self, ctx, mod, name, node=None):
        if mod is None:
            return None
        minfo = self.refl['modules'].get(mod.name)
        live = minfo is None or name in minfo['names']
        if name in mod.funcs and '.' not in name:
            return VRepoFunc('%s.%s' % (mod.name, name), mod.funcs[name], mod)
        if name in mod.classes:
            return VClass('%s.%s' % (mod.name, name), mod.classes[name], mod)
        if minfo is not None and name in minfo['consts'] and not name.startswith('__'):
            return self.models.decode_const(self, ctx, minfo['consts'][name])
        if name in mod.imports and live:
            imp = mod.imports[name]
            if imp[0] == 'mod':
                if imp[1] in self.repo.modules:
                    return VModule(imp[1])
                return VExternal(imp[1])
            r = self.repo.resolve_import(imp[1], imp[2])
            return self.resolved_to_value(ctx, r)
        if minfo is not None and name in minfo['kinds']:
            k = minfo['kinds'][name]
            if k.startswith('class:'):
                d = k[len('class:'):]
                got = self.repo.find_class(d)
                if got:
                    return VClass(d, got[1], got[0])
                return VClass(d)
            if k.startswith('module:'):
                return VExternal(k[len('module:'):])
            if k.startswith('callable:'):
                d = k[len('callable:'):]
                got = self.repo.find(d)
                if got:
                    return VRepoFunc(d, got[1], got[0])
                return VExternal(d)
        if name in mod.assigns and live:
            # module-level object that is not a plain constant: evaluate its
            # defining expression (e.g. itertools.count(), re.compile(...))
            return self.engine.module_object(ctx, mod, name)
        if minfo is not None and name in minfo['names']:
            return VExternal('%s.%s' % (mod.name, name))
        return None

    def resolved_to_value(self, ctx, r):
        if r[0] == 'func':
            return VRepoFunc('%s.%s' % (r[1].name, r[2]), r[1].funcs[r[2]], r[1])
        if r[0] == 'class':
            return VClass('%s.%s' % (r[1].name, r[2]), r[1].classes[r[2]], r[1])
        if r[0] == 'assign':
            return self.module_global(ctx, r[1], r[2])
        if r[0] == 'module':
            return VModule(r[1].name)
        d = r[1]
        if self.classes.has(d):
            return VClass(d)
        # a class re-exported under another module path
        short = d.rsplit('.', 1)[-1]
        cands = [c for c in self.classes.by_short.get(short, []) if c.split('.')[0] == d.split('.')[0]]
        if len(cands) == 1:
            return VClass(cands[0])
        return VExternal(d)

    # ------------------------------------------------------------------
    # expressions

    def ev(self, ctx, fr, node):
        m = getattr(self, 'ev_' + type(node).__name__, None)
        if m is None:
            self.unsupported('expression %s' % type(node).__name__, node)
        return m(ctx, fr, node)

    def ev_Constant(self, ctx, fr, node):
        return self.models.const_value(node.value)

    def ev_Name(self, ctx, fr, node):
        return self.lookup(ctx, fr, node.id, node)

    def ev_Tuple(self, ctx, fr, node):
        items = []
        for e in node.elts:
            if isinstance(e, ast.Starred):
                items.extend(self.iter_concrete(ctx, self.ev(ctx, fr, e.value), e))
            else:
                items.append(self.ev(ctx, fr, e))
        return VTuple(items)

    def ev_List(self, ctx, fr, node):
        items = self.ev_Tuple(ctx, fr, node).items
        if fr.spec:
            return VTuple(items)
        return ctx.alloc(HList(items=items))

    def ev_Set(self, ctx, fr, node):
        items = [self.ev(ctx, fr, e) for e in node.elts]
        return self.models.make_set(self, ctx, items, fr)

    def ev_Dict(self, ctx, fr, node):
        conc = {}
        for k, v in zip(node.keys, node.values):
            if k is None:
                self.unsupported('dict unpacking in display', node)
            kv = self.ev(ctx, fr, k)
            key = self.models.conc_key(kv)
            if key is None:
                return self._symbolic_dict_display(ctx, fr, node)
            conc[key] = self.ev(ctx, fr, v)
        return ctx.alloc(HDict(conc=conc))

    def _symbolic_dict_display(self, ctx, fr, node):
        d = ctx.alloc(HDict(dom=Z.empty_set(Z.Str), arr=z3.K(Z.Str, Z.NONE), kt=TStr, vt=TObj()))
        for k, v in zip(node.keys, node.values):
            kv = self.resolve(ctx, self.ev(ctx, fr, k))
            if not isinstance(kv, VStr):
                self.unsupported('dict display with a symbolic non-string key', node)
            self.models.dict_set(self, ctx, d, kv, self.ev(ctx, fr, v), node)
        return d

    def ev_Lambda(self, ctx, fr, node):
        return VRepoFunc('%s.<lambda>' % fr.qualname, node, fr.module, closure=fr, cls=fr.cls)

    def ev_IfExp(self, ctx, fr, node):
        c = self.ev(ctx, fr, node.test)
        if fr.spec:
            t = self.truth(ctx, c)
            tz = Z.simp(t)
            if Z.is_true(tz):
                return self.ev(ctx, fr, node.body)
            if Z.is_false(tz):
                return self.ev(ctx, fr, node.orelse)
            a = self.ev(ctx, fr, node.body)
            b = self.ev(ctx, fr, node.orelse)
            return self.models.ite(self, ctx, t, a, b, node)
        if self.is_true(ctx, c):
            return self.ev(ctx, fr, node.body)
        return self.ev(ctx, fr, node.orelse)

    def ev_BoolOp(self, ctx, fr, node):
        if fr.spec:
            ts = [self.truth(ctx, self.ev(ctx, fr, v)) for v in node.values]
            return VBool(Z.And(*ts) if isinstance(node.op, ast.And) else Z.Or(*ts))
        v = None
        for i, e in enumerate(node.values):
            v = self.ev(ctx, fr, e)
            if i == len(node.values) - 1:
                return v
            t = self.is_true(ctx, v)
            if isinstance(node.op, ast.And) and not t:
                return self._falsy_side(ctx, v)
            if isinstance(node.op, ast.Or) and t:
                return self.resolve_truthy(ctx, v)
        return v

    def _falsy_side(self, ctx, v):
        return v

    def resolve_truthy(self, ctx, v):
        # a VOpt known truthy on this path is its value
        if isinstance(v, VOpt):
            return v.val
        return v

    def ev_UnaryOp(self, ctx, fr, node):
        v = self.ev(ctx, fr, node.operand)
        if isinstance(node.op, ast.Not):
            return VBool(Z.Not(self.truth(ctx, v)))
        if isinstance(node.op, ast.USub):
            if isinstance(v, VInt):
                return VInt(-v.z)
            if isinstance(v, VFloat):
                return VFloat()
        self.unsupported('unary %s' % type(node.op).__name__, node)

    def ev_Compare(self, ctx, fr, node):
        left = self.ev(ctx, fr, node.left)
        res = []
        for op, rnode in zip(node.ops, node.comparators):
            right = self.ev(ctx, fr, rnode)
            res.append(self.compare(ctx, fr, op, left, right, node))
            left = right
        return VBool(Z.And(*res))

    def compare(self, ctx, fr, op, a, b, node):
        if isinstance(op, ast.Eq):
            return self.eq(ctx, a, b, node)
        if isinstance(op, ast.NotEq):
            hook = self.engine.ne_hook(a, b)
            if hook is not None:
                return hook(ctx, a, b)
            return Z.Not(self.eq(ctx, a, b, node))
        if isinstance(op, ast.Is):
            return self.identical(ctx, a, b)
        if isinstance(op, ast.IsNot):
            return Z.Not(self.identical(ctx, a, b))
        if isinstance(op, ast.In):
            return self.models.contains(self, ctx, b, a, node)
        if isinstance(op, ast.NotIn):
            return Z.Not(self.models.contains(self, ctx, b, a, node))
        a = self.resolve(ctx, a)
        b = self.resolve(ctx, b)
        if isinstance(a, (VInt, VBool)) and isinstance(b, (VInt, VBool)):
            x, y = TInt.to_z(a), TInt.to_z(b)
            return {ast.Lt: x < y, ast.LtE: x <= y, ast.Gt: x > y, ast.GtE: x >= y}[type(op)]
        if isinstance(a, (VFloat, VInt)) and isinstance(b, (VFloat, VInt)):
            f = Z.func('flt_' + type(op).__name__, Z.Flt, Z.Flt, Z.Bool)
            return f(self.models.to_float(a), self.models.to_float(b))
        if isinstance(a, VObj) or isinstance(b, VObj):
            # ordering of opaque values (datetimes, floats from libraries)
            f = Z.func('obj_' + type(op).__name__, Z.Obj, Z.Obj, Z.Bool)
            return f(box(a, ctx), box(b, ctx))
        sa, sb = self._as_set(ctx, a), self._as_set(ctx, b)
        if sa is not None and sb is not None:
            if isinstance(op, ast.LtE):
                return z3.IsSubset(sa[0], sb[0])
            if isinstance(op, ast.GtE):
                return z3.IsSubset(sb[0], sa[0])
        self.unsupported('comparison %s of %r, %r' % (type(op).__name__, a, b), node)

    def ev_BinOp(self, ctx, fr, node):
        a = self.ev(ctx, fr, node.left)
        b = self.ev(ctx, fr, node.right)
        return self.models.binop(self, ctx, fr, node.op, a, b, node)

    def ev_Attribute(self, ctx, fr, node):
        v = self.ev(ctx, fr, node.value)
        return self.getattr(ctx, fr, v, node.attr, node)

    def ev_Subscript(self, ctx, fr, node):
        v = self.ev(ctx, fr, node.value)
        if isinstance(node.slice, ast.Slice):
            lo = self.ev(ctx, fr, node.slice.lower) if node.slice.lower else None
            hi = self.ev(ctx, fr, node.slice.upper) if node.slice.upper else None
            if node.slice.step is not None:
                self.unsupported('slice step', node)
            return self.models.slice(self, ctx, v, lo, hi, node)
        idx = self.ev(ctx, fr, node.slice)
        return self.models.index(self, ctx, fr, v, idx, node)

    def ev_Call(self, ctx, fr, node):
        # super() needs the frame
        if isinstance(node.func, ast.Name) and node.func.id == 'super' and fr.lookup('super') is None:
            return self.make_super(ctx, fr, node)
        if fr.spec and isinstance(node.func, ast.Name) and node.func.id == 'old':
            return self.engine.eval_old(ctx, fr, node.args[0])
        if fr.spec and isinstance(node.func, ast.Name) and node.func.id == 'at_entry':
            return self.engine.eval_old(ctx, fr, node.args[0], attr='entry')
        fv = self.ev(ctx, fr, node.func)
        args = []
        for a in node.args:
            if isinstance(a, ast.Starred):
                sv = self.resolve(ctx, self.ev(ctx, fr, a.value))
                if isinstance(sv, VZip) and len(node.args) == 1 and isinstance(fv, VBuiltin) and fv.name == 'zip':
                    from .models2 import VUnzipped
                    args.append(VUnzipped(sv.cols))
                    continue
                args.extend(self.iter_concrete(ctx, sv, a))
            else:
                args.append(self.ev(ctx, fr, a))
        kwargs = {}
        star = None
        for k in node.keywords:
            if k.arg is None:
                sv = self.resolve(ctx, self.ev(ctx, fr, k.value))
                h = self.hobj(ctx, sv)
                if isinstance(h, HDict) and h.conc is not None:
                    for kk, vv in h.conc.items():
                        if not isinstance(kk, str):
                            self.unsupported('non-string keyword', node)
                        kwargs[kk] = vv
                else:
                    if star is not None:
                        self.unsupported('two symbolic ** arguments', node)
                    star = sv
            else:
                kwargs[k.arg] = self.ev(ctx, fr, k.value)
        return self.call(ctx, fr, fv, args, kwargs, node, star)

    def ev_ListComp(self, ctx, fr, node):
        return self.models.comprehension(self, ctx, fr, node, 'list')

    def ev_GeneratorExp(self, ctx, fr, node):
        return self.models.comprehension(self, ctx, fr, node, 'gen')

    def ev_SetComp(self, ctx, fr, node):
        return self.models.comprehension(self, ctx, fr, node, 'set')

    def ev_DictComp(self, ctx, fr, node):
        return self.models.comprehension(self, ctx, fr, node, 'dict')

    def ev_JoinedStr(self, ctx, fr, node):
        parts = []
        for p in node.values:
            if isinstance(p, ast.Constant):
                parts.append(VStr(p.value))
            else:
                parts.append(self.models.to_str(self, ctx, self.ev(ctx, fr, p.value), node))
        z = parts[0].z if parts else z3.StringVal('')
        for p in parts[1:]:
            z = z3.Concat(z, p.z)
        return VStr(z)

    # -- iteration of concrete-length things --------------------------------------
    def iter_concrete(self, ctx, v, node=None):
        v = self.resolve(ctx, v)
        if isinstance(v, VTuple):
            return list(v.items)
        if isinstance(v, VRef):
            h = ctx.heap[v.rid]
            if isinstance(h, HList) and h.items is not None:
                return list(h.items)
            if isinstance(h, HDict) and h.conc is not None:
                return [self.models.const_value(k) for k in h.conc.keys()]
        if isinstance(v, VSeq):
            n = Z.simp(z3.Length(v.z))
            if z3.is_int_value(n):
                return [v.et.wrap(Z.simp(v.z[i])) for i in range(n.as_long())]
        if isinstance(v, self.models.VIter) and v.items is not None:
            return list(v.items)
        self.unsupported('iteration needs a concrete length here: %r' % (v,), node)

    # ------------------------------------------------------------------
    # attributes

    def getattr(self, ctx, fr, v, name, node=None, default=None):
        """default: None -> AttributeError is raised; else a thunk returning V."""
        v = self.resolve(ctx, v)
        r = self.models.getattr_v(self, ctx, fr, v, name, node)
        if r is not None:
            return r
        if default is not None:
            return default()
        self.raise_exc(ctx, 'AttributeError', "%s has no attribute '%s'" % (self.models.describe(self, ctx, v), name), node)

    def setattr(self, ctx, fr, v, name, val, node=None):
        v = self.resolve(ctx, v)
        if isinstance(v, VRef):
            h = ctx.mutate(v, node)
            if isinstance(h, HInst):
                h.fields[name] = val
                return
        if isinstance(v, VObj):
            return self.engine.opaque_setattr(ctx, v, name, val, node)
        self.unsupported('attribute store on %r' % (v,), node)

    def make_super(self, ctx, fr, node):
        f = fr
        while f is not None and f.selfv is None:
            f = f.parent
        if f is None or f.cls is None:
            self.unsupported('super() outside a method', node)
        if node.args:
            # super(C, self) -- C names the class to start after
            cv = self.ev(ctx, fr, node.args[0])
            if isinstance(cv, VClass):
                sv = self.ev(ctx, fr, node.args[1])
                # `super(cls, JSONCookie)`-style swapped arguments are kept as given
                if isinstance(sv, VClass):
                    return VSuper(sv.name, cv)
                return VSuper(cv.name, sv)
            if isinstance(cv, (VRef, VObj)):
                sv = self.ev(ctx, fr, node.args[1])
                if isinstance(sv, VClass):
                    return VSuper(sv.name, cv)
        return VSuper(f.cls, f.selfv)

    # ------------------------------------------------------------------
    # calls

    def call(self, ctx, fr, fv, args, kwargs, node=None, star=None):
        fv = self.resolve(ctx, fv)
        cur = self.engine.current
        if cur is not None and cur.at_call and not fr.spec and not getattr(ctx, 'no_branch', 0):
            self.engine.at_call_obligations(ctx, fr, fv, args, kwargs, node, star)
        return self.models.call(self, ctx, fr, fv, args, kwargs, node, star)

    def bind_args(self, ctx, fr, fnode, args, kwargs, star, defaults_frame, node, defaults=None):
        """Bind actuals to the formals of a FunctionDef/Lambda.  Returns locals."""
        a = fnode.args
        pos = [p.arg for p in a.posonlyargs + a.args]
        loc = {}
        args = list(args)
        kwargs = dict(kwargs)
        if len(args) > len(pos) and a.vararg is None:
            self.raise_exc(ctx, 'TypeError', 'too many positional arguments', node)
        for name, val in zip(pos, args):
            loc[name] = val
        extra_pos = args[len(pos):]
        if a.vararg is not None:
            loc[a.vararg.arg] = VTuple(extra_pos)
        ndef = len(a.defaults)
        def_exprs = dict(zip(pos[len(pos) - ndef:], a.defaults))
        for p, d in zip(a.kwonlyargs, a.kw_defaults):
            if d is not None:
                def_exprs[p.arg] = d
        allnames = pos + [p.arg for p in a.kwonlyargs]
        for name in allnames:
            if name in loc:
                if name in kwargs:
                    self.raise_exc(ctx, 'TypeError', 'multiple values for argument %s' % name, node)
                continue
            if name in kwargs:
                loc[name] = kwargs.pop(name)
                continue
            if star is not None:
                got = self.models.star_take(self, ctx, star, name)
                if got is not None:
                    star, val = got
                    if val is not None:
                        loc[name] = val
                        continue
            if name in def_exprs:
                if defaults is not None and name in defaults:
                    loc[name] = defaults[name]
                else:
                    loc[name] = self.default_value(ctx, fr, defaults_frame, def_exprs[name], name)
                continue
            self.raise_exc(ctx, 'TypeError', "missing required argument '%s'" % name, node)
        if a.kwarg is not None:
            if star is not None:
                d = self.models.dict_copy_with(self, ctx, star, kwargs)
            else:
                d = ctx.alloc(HDict(conc=dict(kwargs)))
            loc[a.kwarg.arg] = d
        else:
            if kwargs:
                self.raise_exc(ctx, 'TypeError', 'unexpected keyword argument(s) %s' % sorted(kwargs), node)
            if star is not None:
                self.models.star_must_be_empty(self, ctx, star, node)
        return loc

    def default_value(self, ctx, fr, defaults_frame, expr, name):
        """Value of a parameter default.  Python evaluates a default ONCE, when the def statement
        runs: a mutable default ([], {}, set(), ...) of a module- or class-level function is one
        object shared by every call (and every request), whose content earlier calls may have
        changed.  It is modelled as a shared object of that kind with arbitrary content."""
        if fr.spec:
            return self.ev(ctx, defaults_frame, expr)
        kind = None
        if isinstance(expr, (ast.List, ast.ListComp)):
            kind = 'list'
        elif isinstance(expr, (ast.Dict, ast.DictComp)):
            kind = 'dict'
        elif isinstance(expr, (ast.Set, ast.SetComp)):
            kind = 'set'
        elif isinstance(expr, ast.Call) and isinstance(expr.func, ast.Name) and expr.func.id in ('list', 'dict', 'set', 'defaultdict', 'OrderedDict', 'deque'):
            kind = {'list': 'list', 'deque': 'list', 'set': 'set'}.get(expr.func.id, 'dict')
        if kind is None:
            return self.ev(ctx, defaults_frame, expr)
        nm = 'shared_default_%s' % name
        if kind == 'list':
            ref = ctx.alloc(HList(z=Z.fresh(nm, Z.SeqSort(Z.Obj)), et=TObj()))
        elif kind == 'set':
            ref = ctx.alloc(HSet(Z.fresh(nm, Z.SetSort(Z.Obj)), TObj()))
        else:
            ref = ctx.alloc(HDict(dom=Z.fresh(nm + '_dom', Z.SetSort(Z.Obj)), arr=Z.fresh(nm + '_arr', z3.ArraySort(Z.Obj, Z.Obj)),
                                  kt=TObj(), vt=TObj()))
        if not hasattr(ctx, 'shared_rids'):
            ctx.shared_rids = set()
        ctx.shared_rids.add(ref.rid)
        ctx.notes.append('mutable default of parameter %r: one object shared by all calls (arbitrary content)' % name)
        return ref

    def call_inline(self, ctx, fr, fv, args, kwargs, node, star=None, selfv=None):
        if ctx.depth >= MAX_INLINE_DEPTH:
            self.unsupported('inline depth exceeded at %s' % fv.qualname, node)
        fnode = fv.node
        dfr = fv.closure or Frame(fv.module, fv.qualname)
        loc = self.bind_args(ctx, fr, fnode, args, kwargs, star, dfr, node, fv.defaults)
        nfr = Frame(fv.module, fv.qualname, loc, parent=fv.closure, cls=fv.cls)
        nfr.spec = fr.spec if fv.closure is fr else False
        if fr.spec:
            nfr.spec = True
        if selfv is not None:
            nfr.selfv = selfv
        elif fv.closure is not None:
            nfr.selfv = None
        ctx.depth += 1
        try:
            if isinstance(fnode, ast.Lambda):
                return self.ev(ctx, nfr, fnode.body)
            try:
                self.exec_block(ctx, nfr, fnode.body)
            except ReturnSig as r:
                return r.value
            return NONE
        finally:
            ctx.depth -= 1

    # ------------------------------------------------------------------
    # statements

    def exec_block(self, ctx, fr, stmts):
        for s in stmts:
            self.exec_stmt(ctx, fr, s)

    def exec_stmt(self, ctx, fr, node):
        m = getattr(self, 'st_' + type(node).__name__, None)
        if m is None:
            self.unsupported('statement %s' % type(node).__name__, node)
        return m(ctx, fr, node)

    def st_Expr(self, ctx, fr, node):
        if isinstance(node.value, ast.Constant):
            return
        self.ev(ctx, fr, node.value)

    def st_Pass(self, ctx, fr, node):
        return

    def st_Assert(self, ctx, fr, node):
        v = self.ev(ctx, fr, node.test)
        if not self.is_true(ctx, v):
            self.raise_exc(ctx, 'AssertionError', 'assert', node)

    def st_Import(self, ctx, fr, node):
        for a in node.names:
            nm = a.asname or a.name.split('.')[0]
            fr.locals[nm] = VModule(a.name) if a.name in self.repo.modules else VExternal(a.name)

    def st_ImportFrom(self, ctx, fr, node):
        mod = fr.module._resolve_rel(node.level, node.module)
        for a in node.names:
            r = self.repo.resolve_import(mod, a.name)
            fr.locals[a.asname or a.name] = self.resolved_to_value(ctx, r)

    def st_Global(self, ctx, fr, node):
        self.unsupported('global statement', node)

    def st_Return(self, ctx, fr, node):
        v = self.ev(ctx, fr, node.value) if node.value is not None else NONE
        raise ReturnSig(v)

    def st_Break(self, ctx, fr, node):
        raise BreakSig()

    def st_Continue(self, ctx, fr, node):
        raise ContinueSig()

    def st_Raise(self, ctx, fr, node):
        if node.exc is None:
            f = fr
            while f is not None and f.cur_exc is None:
                f = f.parent
            cur = f.cur_exc if f is not None else ctx.engine_cur_exc if hasattr(ctx, 'engine_cur_exc') else None
            if cur is None:
                cur = getattr(ctx, 'handling', None)
            if cur is None:
                self.raise_exc(ctx, 'RuntimeError', 'No active exception to reraise', node)
            raise RaiseSig(cur, node)
        v = self.resolve(ctx, self.ev(ctx, fr, node.exc))
        if isinstance(v, VClass):
            v = self.call(ctx, fr, v, [], {}, node)
        if isinstance(v, VRef) and isinstance(ctx.heap[v.rid], HInst):
            raise RaiseSig(v, node)
        if isinstance(v, VObj):
            raise RaiseSig(v, node)
        self.unsupported('raise of %r' % (v,), node)

    def st_FunctionDef(self, ctx, fr, node):
        for d in node.decorator_list:
            self.unsupported('decorated nested function', node)
        defaults = {}
        a = node.args
        pos = [p.arg for p in a.posonlyargs + a.args]
        for name, d in zip(pos[len(pos) - len(a.defaults):], a.defaults):
            defaults[name] = self.ev(ctx, fr, d)
        for p, d in zip(a.kwonlyargs, a.kw_defaults):
            if d is not None:
                defaults[p.arg] = self.ev(ctx, fr, d)
        fr.locals[node.name] = VRepoFunc('%s.<locals>.%s' % (fr.qualname, node.name), node,
                                         fr.module, closure=fr, defaults=defaults, cls=fr.cls)

    def st_Assign(self, ctx, fr, node):
        v = self.ev(ctx, fr, node.value)
        for t in node.targets:
            self.assign(ctx, fr, t, v, node)

    def st_AnnAssign(self, ctx, fr, node):
        if node.value is not None:
            self.assign(ctx, fr, node.target, self.ev(ctx, fr, node.value), node)

    def st_AugAssign(self, ctx, fr, node):
        t = node.target
        if isinstance(t, ast.Name):
            cur = self.lookup(ctx, fr, t.id, t)
        elif isinstance(t, ast.Attribute):
            base = self.ev(ctx, fr, t.value)
            cur = self.getattr(ctx, fr, base, t.attr, t)
        elif isinstance(t, ast.Subscript):
            base = self.ev(ctx, fr, t.value)
            idx = self.ev(ctx, fr, t.slice)
            cur = self.models.index(self, ctx, fr, base, idx, t)
        else:
            self.unsupported('augmented assignment target', node)
        rhs = self.ev(ctx, fr, node.value)
        new = self.models.augop(self, ctx, fr, node.op, cur, rhs, node)
        if new is None:
            return      # mutated in place
        if isinstance(t, ast.Name):
            self.store_name(ctx, fr, t.id, new)
        elif isinstance(t, ast.Attribute):
            self.setattr(ctx, fr, base, t.attr, new, node)
        else:
            self.models.setitem(self, ctx, fr, base, idx, new, node)

    def store_name(self, ctx, fr, name, v):
        fr.locals[name] = v

    def assign(self, ctx, fr, target, v, node):
        if isinstance(target, ast.Name):
            self.store_name(ctx, fr, target.id, v)
        elif isinstance(target, (ast.Tuple, ast.List)):
            items = self.models.unpack(self, ctx, v, len(target.elts), node)
            for t, i in zip(target.elts, items):
                self.assign(ctx, fr, t, i, node)
        elif isinstance(target, ast.Attribute):
            base = self.ev(ctx, fr, target.value)
            self.setattr(ctx, fr, base, target.attr, v, node)
        elif isinstance(target, ast.Subscript):
            base = self.ev(ctx, fr, target.value)
            if isinstance(target.slice, ast.Slice):
                self.unsupported('slice assignment', node)
            idx = self.ev(ctx, fr, target.slice)
            self.models.setitem(self, ctx, fr, base, idx, v, node)
        else:
            self.unsupported('assignment target %s' % type(target).__name__, node)

    def st_Delete(self, ctx, fr, node):
        for t in node.targets:
            if isinstance(t, ast.Subscript):
                base = self.ev(ctx, fr, t.value)
                idx = self.ev(ctx, fr, t.slice)
                self.models.delitem(self, ctx, fr, base, idx, node)
            elif isinstance(t, ast.Name):
                fr.locals.pop(t.id, None)
            else:
                self.unsupported('del target', node)

    def st_If(self, ctx, fr, node):
        c = self.ev(ctx, fr, node.test)
        if self.is_true(ctx, c):
            self.narrow(ctx, fr, node.test, True)
            self.exec_block(ctx, fr, node.body)
        else:
            self.narrow(ctx, fr, node.test, False)
            self.exec_block(ctx, fr, node.orelse)

    def narrow(self, ctx, fr, test, outcome):
        """After `if x:` / `if x is None:` on an optional local, refine it."""
        if isinstance(test, ast.Name):
            v = fr.locals.get(test.id)
            if isinstance(v, VOpt) and outcome:
                fr.locals[test.id] = v.val
        elif isinstance(test, ast.UnaryOp) and isinstance(test.op, ast.Not):
            self.narrow(ctx, fr, test.operand, not outcome)
        elif isinstance(test, ast.Compare) and len(test.ops) == 1 and isinstance(test.left, ast.Name) \
                and isinstance(test.comparators[0], ast.Constant) and test.comparators[0].value is None:
            v = fr.locals.get(test.left.id)
            if isinstance(v, VOpt):
                isnone = isinstance(test.ops[0], ast.Is) == outcome
                if isinstance(test.ops[0], (ast.Is, ast.IsNot)):
                    fr.locals[test.left.id] = NONE if isnone else v.val

    def st_While(self, ctx, fr, node):
        return self.engine.loops.exec_while(self, ctx, fr, node)

    def st_For(self, ctx, fr, node):
        return self.engine.loops.exec_for(self, ctx, fr, node)

    def st_With(self, ctx, fr, node):
        self.unsupported('with statement', node)

    def st_Try(self, ctx, fr, node):
        def run_finally():
            if node.finalbody:
                self.exec_block(ctx, fr, node.finalbody)

        try:
            try:
                self.exec_block(ctx, fr, node.body)
            except RaiseSig as rs:
                handled = False
                for h in node.handlers:
                    if self.handler_matches(ctx, fr, h, rs.exc):
                        handled = True
                        if h.name:
                            fr.locals[h.name] = rs.exc
                        prev = fr.cur_exc
                        fr.cur_exc = rs.exc
                        prevh = getattr(ctx, 'handling', None)
                        ctx.handling = rs.exc
                        try:
                            self.exec_block(ctx, fr, h.body)
                        finally:
                            fr.cur_exc = prev
                            ctx.handling = prevh
                        break
                if not handled:
                    raise
            else:
                self.exec_block(ctx, fr, node.orelse)
        except (RaiseSig, ReturnSig, BreakSig, ContinueSig):
            run_finally()
            raise
        run_finally()

    def handler_matches(self, ctx, fr, h, exc):
        if h.type is None:
            return True
        tv = self.ev(ctx, fr, h.type)
        clss = tv.items if isinstance(tv, VTuple) else [tv]
        conds = []
        for c in clss:
            if isinstance(c, VExternal):
                # an exception class of a dependency the class table does not know (e.g. binascii.Error):
                # whether it catches is left open -- both outcomes are explored
                if isinstance(exc, VRef):
                    conds.append(Z.fresh('caught_by_%s' % c.name.replace('.', '_'), Z.Bool))
                else:
                    conds.append(Z.func('isinstance_of:%s' % c.name, Z.Obj, Z.Bool)(exc.z))
                ctx.notes.append('except %s: class unknown to the class table, catch left open' % c.name)
                continue
            if not isinstance(c, VClass):
                self.unsupported('except clause with non-class %r' % (c,), h)
            conds.append(self.exc_isinstance(ctx, exc, c.name))
        return ctx.branch(Z.Or(*conds))

    def exc_isinstance(self, ctx, exc, clsname):
        if isinstance(exc, VRef):
            h = ctx.heap[exc.rid]
            if self.classes.has(h.cls):
                return z3.BoolVal(self.classes.static_sub(h.cls, clsname))
            return z3.BoolVal(self.engine.repo_static_sub(h.cls, clsname))
        return issub(cls_of(exc.z), self.classes.const(clsname))
