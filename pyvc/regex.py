"""Python `re` patterns -> z3 regular expressions, through Python's own parser
(re._parser).  Only the constructs clastic's route patterns use are translated;
anything else raises (never silently approximated).  Assumption A-re: for these
constructs (no look-around, no back-references) `re.match(p + '$')` succeeds iff the
string is in the regular language of p; '$' before a trailing newline is outside the
alphabet of the property."""
import re
try:
    import re._parser as sre_parse
    import re._constants as C
except ImportError:      # Python < 3.11
    import sre_parse
    import sre_constants as C
import z3

RE = z3.ReSort(z3.StringSort())


def allchar():
    return z3.AllChar(RE)


def char_class(items):
    neg = False
    parts = []
    for op, arg in items:
        if op is C.NEGATE:
            neg = True
        elif op is C.LITERAL:
            parts.append(z3.Re(chr(arg)))
        elif op is C.RANGE:
            parts.append(z3.Range(chr(arg[0]), chr(arg[1])))
        elif op is C.CATEGORY:
            parts.append(category(arg))
        else:
            raise ValueError('unsupported class item %r' % (op,))
    u = parts[0] if len(parts) == 1 else z3.Union(*parts)
    return z3.Diff(allchar(), u) if neg else u


def category(arg):
    # ASCII reading of the categories (the alphabet of the property is ASCII plus one non-ASCII letter)
    if arg is C.CATEGORY_DIGIT:
        return z3.Range('0', '9')
    if arg is C.CATEGORY_WORD:
        return z3.Union(z3.Range('a', 'z'), z3.Range('A', 'Z'), z3.Range('0', '9'), z3.Re('_'))
    if arg is C.CATEGORY_SPACE:
        return z3.Union(*[z3.Re(c) for c in ' \t\n\r\f\v'])
    if arg is C.CATEGORY_NOT_WORD:
        return z3.Diff(allchar(), category(C.CATEGORY_WORD))
    raise ValueError('unsupported category %r' % (arg,))


def seq(items):
    parts = [node(op, arg) for op, arg in items]
    parts = [p for p in parts if p is not None]
    if not parts:
        return z3.Re('')
    return parts[0] if len(parts) == 1 else z3.Concat(*parts)


def node(op, arg):
    if op is C.LITERAL:
        return z3.Re(chr(arg))
    if op is C.NOT_LITERAL:
        return z3.Diff(allchar(), z3.Re(chr(arg)))
    if op is C.ANY:
        return z3.Diff(allchar(), z3.Re('\n'))
    if op is C.IN:
        return char_class(arg)
    if op is C.SUBPATTERN:
        return seq(arg[3])
    if op is C.BRANCH:
        alts = [seq(a) for a in arg[1]]
        return alts[0] if len(alts) == 1 else z3.Union(*alts)
    if op in (C.MAX_REPEAT, C.MIN_REPEAT):
        lo, hi, sub = arg
        r = seq(sub)
        if hi is C.MAXREPEAT:
            if lo == 0:
                return z3.Star(r)
            if lo == 1:
                return z3.Plus(r)
            return z3.Concat(*([r] * lo + [z3.Star(r)]))
        if lo == 0 and hi == 1:
            return z3.Option(r)
        return z3.Loop(r, lo, hi)
    if op is C.AT:
        if arg in (C.AT_BEGINNING, C.AT_END, C.AT_BEGINNING_STRING, C.AT_END_STRING):
            return None
        raise ValueError('unsupported anchor %r' % (arg,))
    raise ValueError('unsupported regex construct %r' % (op,))


def to_z3(pattern):
    """z3 regex for the full-match language of a Python pattern (anchors dropped:
    the patterns under study are of the form ^...$)."""
    return seq(sre_parse.parse(pattern))
