"""Models of Python builtins, container/str methods, attribute lookup and call
dispatch.  Everything here is the engine's encoding of CPython semantics
(DESIGN.md 2.7); it is policed by the canary mutants and cross-checks."""
import ast

import z3

from . import z as Z
from .values import *   # noqa
from .state import Unsupported, RaiseSig, ReturnSig, PathEnd
from .classes import cls_of, issub
from . import strs

PRIM_CLASSES = {VInt: 'builtins.int', VBool: 'builtins.bool', VStr: 'builtins.str',
                VBytes: 'builtins.bytes', VFloat: 'builtins.float', VNone: 'builtins.NoneType',
                VTuple: 'builtins.tuple', VSeq: 'builtins.tuple', VSet: 'builtins.frozenset',
                VMap: 'builtins.dict', VZip: 'builtins.list'}

_ABC = {
    'builtins.int': {'builtins.int', 'builtins.object', 'numbers.Number'},
    'builtins.bool': {'builtins.bool', 'builtins.int', 'builtins.object'},
    'builtins.str': {'builtins.str', 'builtins.object', 'collections.abc.Sized', 'collections.abc.Iterable',
                     'collections.abc.Sequence', 'collections.abc.Container'},
    'builtins.bytes': {'builtins.bytes', 'builtins.object', 'collections.abc.Sized', 'collections.abc.Iterable',
                       'collections.abc.Sequence', 'collections.abc.Container'},
    'builtins.float': {'builtins.float', 'builtins.object'},
    'builtins.NoneType': {'builtins.NoneType', 'builtins.object'},
    'builtins.tuple': {'builtins.tuple', 'builtins.object', 'collections.abc.Sized', 'collections.abc.Iterable',
                       'collections.abc.Sequence', 'collections.abc.Container'},
    'builtins.list': {'builtins.list', 'builtins.object', 'collections.abc.Sized', 'collections.abc.Iterable',
                      'collections.abc.Sequence', 'collections.abc.Container'},
    'builtins.set': {'builtins.set', 'builtins.object', 'collections.abc.Sized', 'collections.abc.Iterable',
                     'collections.abc.Container'},
    'builtins.frozenset': {'builtins.frozenset', 'builtins.object', 'collections.abc.Sized',
                           'collections.abc.Iterable', 'collections.abc.Container'},
    'builtins.dict': {'builtins.dict', 'builtins.object', 'collections.abc.Sized', 'collections.abc.Iterable',
                      'collections.abc.Mapping', 'collections.abc.Container'},
}


def container_isinstance(kind, clsname):
    return clsname in _ABC[kind]


class VIter(V):
    """A lazy iterable of concrete length (zip/reversed/enumerate/generator
    results over concrete things) or a view over a symbolic one."""
    kind = 'iter'

    def __init__(self, items=None, sym=None):
        self.items = items
        self.sym = sym      # a symbolic sequence-like V when not concrete


def const_value(c):
    if c is None:
        return NONE
    if isinstance(c, bool):
        return VBool(c)
    if isinstance(c, int):
        return VInt(c)
    if isinstance(c, str):
        return VStr(c)
    if isinstance(c, bytes):
        return VBytes(c.decode('latin-1'))
    if isinstance(c, float):
        return VFloat(Z.const('flt:%r' % c, Z.Flt))
    if c is Ellipsis:
        return NONE
    raise Unsupported('constant %r' % (c,))


def conc_key(v):
    """Python constant for a concrete key value, or None."""
    if isinstance(v, VStr):
        return v.const()
    if isinstance(v, VInt):
        s = Z.simp(v.z)
        if z3.is_int_value(s):
            return s.as_long()
    if isinstance(v, VNone):
        return ('None',)
    if isinstance(v, VBytes):
        s = Z.simp(v.z)
        if z3.is_string_value(s):
            return ('bytes', s.as_string())
    return None


def key_value(k):
    if isinstance(k, tuple):
        if k == ('None',):
            return NONE
        return VBytes(k[1])
    return const_value(k)


def decode_const(I, ctx, e):
    t, v = e['t'], e['v']
    if t == 'NoneType':
        return NONE
    if t == 'bool':
        return VBool(v)
    if t == 'int':
        return VInt(v)
    if t == 'str':
        return VStr(v)
    if t == 'float':
        return VFloat(Z.const('flt:%s' % v, Z.Flt))
    if t == 'bytes':
        return VBytes(v)
    if t == 'tuple':
        return VTuple([decode_const(I, ctx, i) for i in v])
    if t == 'list':
        return ctx.alloc(HList(items=[decode_const(I, ctx, i) for i in v]))
    if t in ('set', 'frozenset'):
        items = [decode_const(I, ctx, i) for i in v]
        return make_set(I, ctx, items, None, frozen=(t == 'frozenset') or True)
    if t == 'dict':
        conc = {}
        for k, x in v:
            kk = conc_key(decode_const(I, ctx, k))
            if x['t'] == 'opaque':
                nm = x['v']
                if nm.startswith('type:'):
                    d = nm[5:]
                    conc[kk] = VClass(d)
                else:
                    conc[kk] = VObj(Z.const('const:%s' % nm, Z.Obj))
            else:
                conc[kk] = decode_const(I, ctx, x)
        return ctx.alloc(HDict(conc=conc))
    raise Unsupported('constant of type %s' % t)


def describe(I, ctx, v):
    if isinstance(v, VRef):
        h = ctx.heap[v.rid]
        if isinstance(h, HInst):
            return h.cls
        return type(h).__name__
    if isinstance(v, VObj):
        return 'object(%s)' % (v.cls,)
    return getattr(v, 'kind', '?')


def to_float(v):
    if isinstance(v, VFloat):
        return v.z
    return Z.func('int2flt', Z.Int, Z.Flt)(TInt.to_z(v))


# ---------------------------------------------------------------------------
# sets


def make_set(I, ctx, items, fr=None, frozen=False):
    if not items:
        # element sort unknown yet: default to names (strings); widened on first add
        et = TStr
        z = Z.empty_set(et.zsort)
    else:
        et = I.guess_elem_type(items)
        z = Z.set_of(et.zsort, [et.to_z(i, ctx) for i in items])
    if frozen or (fr is not None and fr.spec):
        return VSet(z, et)
    return ctx.alloc(HSet(z, et))


def elems_fn(sort):
    """elems(seq): the set of elements of a sequence.  Uninterpreted at the SMT
    level (keeps refutation models constructible); elems_of() decomposes
    concatenations, units and empties structurally, which is all the
    obligations need.  Weaker than the recursive definition, hence sound."""
    f = Z.func('elems<%s>' % sort, Z.SeqSort(sort), Z.SetSort(sort))
    return f


def elems_of(z, sort=None):
    if sort is None:
        sort = z.sort().basis()
    z = Z.simp(z)
    if z3.is_app(z):
        k = z.decl().kind()
        if k == z3.Z3_OP_SEQ_EMPTY:
            return Z.empty_set(sort)
        if k == z3.Z3_OP_SEQ_UNIT:
            return z3.SetAdd(Z.empty_set(sort), z.arg(0))
        if k == z3.Z3_OP_SEQ_CONCAT:
            r = None
            for i in range(z.num_args()):
                e = elems_of(z.arg(i), sort)
                r = e if r is None else z3.SetUnion(r, e)
            return r
        if z3.is_string_value(z) and False:
            pass
    return elems_fn(sort)(z)


def iterable_as_set(I, ctx, v, node=None):
    """(z set term, elem type) of the elements of an iterable value."""
    v = I.resolve(ctx, v)
    s = I._as_set(ctx, v)
    if s is not None:
        return s
    if isinstance(v, VNone) and getattr(ctx, 'no_branch', 0):
        return None, None       # spec mode: total
    if isinstance(v, VIter):
        if v.items is not None:
            v = VTuple(v.items)
        else:
            return iterable_as_set(I, ctx, v.sym, node)
    if isinstance(v, VRef):
        h = ctx.heap[v.rid]
        if isinstance(h, HDict):
            d = dict_sym(I, ctx, v)
            return d[0], h.kt if h.conc is None else d[2]
    if isinstance(v, VMap):
        return v.dom, v.kt
    if isinstance(v, VNames):
        return nset(v.z), TStr
    if isinstance(v, VTuple) or (isinstance(v, VRef) and isinstance(ctx.heap[v.rid], HList)
                                 and ctx.heap[v.rid].items is not None):
        items = v.items if isinstance(v, VTuple) else ctx.heap[v.rid].items
        if not items:
            return None, None          # empty: any element type
        et = I.guess_elem_type(items)
        return Z.set_of(et.zsort, [et.to_z(i, ctx) for i in items]), et
    q = I._as_seq(ctx, v)
    if q is not None:
        z, et = q
        return elems_of(z, et.zsort), et
    if isinstance(v, VStr):
        raise Unsupported('set of characters of a string', node)
    raise Unsupported('iterable as set: %r' % (v,), node)


def set_retype(h, et):
    """An empty set created before its element type was known."""
    if h.et.zsort != et.zsort:
        if Z.simp(h.z).eq(Z.empty_set(h.et.zsort)) or str(Z.simp(h.z)) == str(Z.empty_set(h.et.zsort)):
            h.z = Z.empty_set(et.zsort)
            h.et = et
        else:
            raise Unsupported('set with mixed element sorts')
    elif h.et.__class__ is TObj and getattr(h.et, 'cls', None) is None:
        h.et = et


# ---------------------------------------------------------------------------
# dicts


def dict_sym(I, ctx, v):
    """(dom, arr, kt, vt) view of a dict value (concrete dicts are converted
    on the fly, without changing the heap object)."""
    if isinstance(v, VMap):
        return v.dom, v.arr, v.kt, v.vt
    h = ctx.heap[v.rid]
    if h.conc is None:
        return h.dom, h.arr, h.kt, h.vt
    keys = list(h.conc.keys())
    if keys and not all(isinstance(k, str) for k in keys):
        return None
    kt = TStr
    vals = list(h.conc.values())
    vt = TObj()
    if vals and all(isinstance(x, VStr) for x in vals):
        vt = TStr
    dom = Z.set_of(kt.zsort, [z3.StringVal(k) for k in keys])
    arr = z3.K(kt.zsort, vt.to_z(NONE, ctx) if vt.zsort == Z.Obj else z3.StringVal(''))
    for k, x in h.conc.items():
        arr = z3.Store(arr, z3.StringVal(k), vt.to_z(x, ctx))
    return dom, arr, kt, vt


def dict_to_sym(I, ctx, ref, kt=None, vt=None):
    """Convert a concrete heap dict to symbolic form in place."""
    h = ctx.heap[ref.rid]
    if h.conc is None:
        return h
    d = dict_sym(I, ctx, ref)
    if d is None:
        raise Unsupported('dict with non-string keys cannot become symbolic')
    dom, arr, k2, v2 = d
    if vt is not None and vt.zsort != v2.zsort:
        # re-embed values in the requested sort
        arr = z3.K(k2.zsort, vt.to_z(NONE, ctx) if vt.zsort == Z.Obj else z3.StringVal(''))
        for k, x in h.conc.items():
            arr = z3.Store(arr, z3.StringVal(k), vt.to_z(x, ctx))
        v2 = vt
    h.conc = None
    h.dom, h.arr, h.kt, h.vt = dom, arr, k2, v2
    return h


def dict_get(I, ctx, v, key, node, default=None, raise_missing=True):
    """d[key] / d.get(key, default)."""
    if isinstance(v, VRef):
        h = ctx.heap[v.rid]
        if h.conc is not None:
            ck = conc_key(key)
            if ck is not None:
                if ck in h.conc:
                    return h.conc[ck]
                if h.default is not None:
                    nv = h.default(I, ctx)
                    ctx.mutate(v, node)
                    h.conc[ck] = nv
                    return nv
                if raise_missing:
                    I.raise_exc(ctx, 'KeyError', repr(ck), node)
                return default if default is not None else NONE
            if not h.conc and h.default is None:
                if raise_missing:
                    I.raise_exc(ctx, 'KeyError', 'empty dict', node)
                return default if default is not None else NONE
            if h.default is not None and getattr(h.default, 'kind', None) == 'list':
                # defaultdict(list) indexed by a symbolic key: switch to the map-of-sequences form
                if h.conc:
                    raise Unsupported('defaultdict(list) mixing concrete and symbolic keys', node)
                h.conc = None
                h.kt, h.vt = TStr if isinstance(key, VStr) else TObj(), TSeq(TObj())
                h.dom = Z.empty_set(h.kt.zsort)
                h.arr = z3.K(h.kt.zsort, Z.empty_seq(Z.Obj))
                return dict_get(I, ctx, v, key, node, default, raise_missing)
            # symbolic key into a concrete dict: case split over the keys
            for ck2, val in h.conc.items():
                if ctx.branch(I.eq(ctx, key, key_value(ck2))):
                    return val
            if h.default is not None:
                raise Unsupported('symbolic new key into a defaultdict', node)
            if raise_missing:
                I.raise_exc(ctx, 'KeyError', 'symbolic key', node)
            return default if default is not None else NONE
    dom, arr, kt, vt = dict_sym(I, ctx, v)
    try:
        kz = kt.to_z(key, ctx)
    except TypeError:
        if raise_missing:
            I.raise_exc(ctx, 'KeyError', 'key of another type', node)
        return default if default is not None else NONE
    if isinstance(v, VRef) and getattr(ctx.heap[v.rid].default, 'kind', None) == 'list':
        # defaultdict(list)[k]: the slot for k (created empty on first access)
        hh = ctx.mutate(v, node)
        hh.dom = z3.SetAdd(hh.dom, kz)
        return VListSlot(v, kz)
    if ctx.branch(z3.IsMember(kz, dom)):
        return vt.wrap(Z.simp(z3.Select(arr, kz)))
    if raise_missing:
        I.raise_exc(ctx, 'KeyError', 'key not in dict', node)
    return default if default is not None else NONE


class VListSlot(V):
    """d[k] for a defaultdict(list) in map-of-sequences form: a view of the
    list stored under k; append writes back into the map."""
    kind = 'listslot'

    def __init__(self, ref, kz):
        self.ref = ref
        self.kz = kz


class DefaultFactory(object):
    def __init__(self, kind):
        self.kind = kind

    def __call__(self, I, ctx):
        if self.kind == 'list':
            return ctx.alloc(HList(items=[]))
        raise Unsupported('defaultdict factory %s' % self.kind)


def dict_set(I, ctx, ref, key, val, node):
    h = ctx.mutate(ref, node)
    if h.conc is not None:
        ck = conc_key(key)
        if ck is not None:
            h.conc[ck] = val
            return
        dict_to_sym(I, ctx, ref)
    try:
        kz = h.kt.to_z(key, ctx)
    except TypeError:
        raise Unsupported('key of another type (%s) stored into a dict keyed by %s'
                          % (getattr(key, 'kind', type(key).__name__), h.kt), node)
    val = I.resolve(ctx, val)           # an optional value splits into its two cases here
    try:
        vz = h.vt.to_z(val, ctx)
    except TypeError:
        raise Unsupported('value of another type (%s) stored into a dict of %s'
                          % (getattr(val, 'kind', type(val).__name__), h.vt), node)
    h.dom = z3.SetAdd(h.dom, kz)
    h.arr = z3.Store(h.arr, kz, vz)


def dict_update(I, ctx, ref, other, node, kwargs=None):
    """d.update(other) -- right wins."""
    h = ctx.mutate(ref, node)
    other = I.resolve(ctx, other) if other is not None else None
    if other is not None:
        oh = I.hobj(ctx, other)
        if isinstance(oh, HDict) and oh.conc is not None and h.conc is not None:
            h.conc.update(oh.conc)
        elif isinstance(oh, HDict) and oh.conc is not None:
            for k, x in oh.conc.items():
                dict_set(I, ctx, ref, key_value(k), x, node)
        elif isinstance(oh, HDict) or isinstance(other, VMap):
            odom, oarr, okt, ovt = dict_sym(I, ctx, other)
            if h.conc is not None:
                dict_to_sym(I, ctx, ref, vt=ovt)
            if h.vt.zsort != ovt.zsort or h.kt.zsort != okt.zsort:
                raise Unsupported('dict.update with different sorts', node)
            k = z3.Const('upd!k', h.kt.zsort)
            h.arr = z3.Lambda([k], z3.If(z3.IsMember(k, odom), z3.Select(oarr, k), z3.Select(h.arr, k)))
            h.dom = z3.SetUnion(h.dom, odom)
        elif isinstance(other, VTuple) or isinstance(oh, HList):
            for pair in I.iter_concrete(ctx, other, node):
                k, x = unpack(I, ctx, pair, 2, node)
                dict_set(I, ctx, ref, k, x, node)
        elif isinstance(other, VObj):
            # update from an opaque mapping (stated assumption: it is a mapping): content unknown afterwards
            if h.conc is not None:
                dict_to_sym(I, ctx, ref) if h.conc and all(isinstance(k, str) for k in h.conc) else None
                if h.conc is not None:
                    h.conc, h.kt, h.vt = None, TStr, TObj()
            h.dom = Z.fresh('upd_dom', Z.SetSort(h.kt.zsort))
            h.arr = Z.fresh('upd_arr', z3.ArraySort(h.kt.zsort, h.vt.zsort))
        else:
            raise Unsupported('dict.update(%r)' % (other,), node)
    for k, x in (kwargs or {}).items():
        dict_set(I, ctx, ref, VStr(k), x, node)


def dict_copy_with(I, ctx, src, kwargs):
    """dict(src, **kwargs) as a fresh heap dict."""
    src = I.resolve(ctx, src)
    sh = I.hobj(ctx, src)
    if isinstance(sh, HDict):
        new = ctx.alloc(sh.copy())
        ctx.heap[new.rid].default = None
    elif isinstance(src, VMap):
        new = ctx.alloc(HDict(dom=src.dom, arr=src.arr, kt=src.kt, vt=src.vt))
    else:
        new = ctx.alloc(HDict(conc={}))
        dict_update(I, ctx, new, src, None)
    for k, x in kwargs.items():
        dict_set(I, ctx, new, VStr(k), x, None)
    return new


def star_take(I, ctx, star, name):
    """Take key `name` out of a ** argument.  Returns (rest, value|None) or
    None when the dict certainly lacks it."""
    dom, arr, kt, vt = dict_sym(I, ctx, star)
    kz = z3.StringVal(name)
    if ctx.branch(z3.IsMember(kz, dom)):
        val = vt.wrap(Z.simp(z3.Select(arr, kz)))
        rest = VMap(Z.simp(z3.SetDel(dom, kz)), arr, kt, vt)
        return rest, val
    return star, None


def star_must_be_empty(I, ctx, star, node):
    dom, arr, kt, vt = dict_sym(I, ctx, star)
    if ctx.branch(dom != Z.empty_set(kt.zsort)):
        I.raise_exc(ctx, 'TypeError', 'unexpected keyword arguments', node)


# ---------------------------------------------------------------------------
# ite for spec mode


def ite(I, ctx, c, a, b, node=None):
    if type(a) is type(b) and isinstance(a, (VInt, VBool, VStr, VBytes, VFloat)):
        return type(a)(z3.If(c, a.z, b.z))
    if isinstance(a, VObj) and isinstance(b, VObj):
        return VObj(z3.If(c, a.z, b.z), a.cls or b.cls)
    sa, sb = I._as_set(ctx, a), I._as_set(ctx, b)
    if sa is not None and sb is not None:
        return VSet(z3.If(c, sa[0], sb[0]), sa[1])
    qa, qb = I._as_seq(ctx, a), I._as_seq(ctx, b)
    if qa is not None and qb is not None:
        return VSeq(z3.If(c, qa[0], qb[0]), qa[1])
    if isinstance(a, VNone) and isinstance(b, VNone):
        return a
    try:
        return VObj(z3.If(c, box(a, ctx), box(b, ctx)))
    except TypeError:
        raise Unsupported('conditional expression over %r / %r in a spec' % (a, b), node)


# ---------------------------------------------------------------------------
# operators


def binop(I, ctx, fr, op, a, b, node):
    a = I.resolve(ctx, a)
    b = I.resolve(ctx, b)
    if isinstance(a, (VInt, VBool)) and isinstance(b, (VInt, VBool)):
        x, y = TInt.to_z(a), TInt.to_z(b)
        if isinstance(op, ast.Add):
            return VInt(x + y)
        if isinstance(op, ast.Sub):
            return VInt(x - y)
        if isinstance(op, ast.Mult):
            return VInt(x * y)
        if isinstance(op, ast.Pow):
            xs, ys = Z.simp(x), Z.simp(y)
            if z3.is_int_value(xs) and z3.is_int_value(ys) and ys.as_long() >= 0:
                return VInt(xs.as_long() ** ys.as_long())
        if isinstance(op, (ast.FloorDiv, ast.Mod)):
            if ctx.branch(y == 0):
                I.raise_exc(ctx, 'ZeroDivisionError', 'division by zero', node)
            # Python floor semantics: z3 div/mod are euclidean; equal for y > 0
            if isinstance(op, ast.FloorDiv):
                return VInt(z3.If(y > 0, x / y, -((-x) / (-y)) if False else (x / y)))
            return VInt(z3.If(y > 0, x % y, -((-x) % (-y))))
    if isinstance(a, (VFloat, VInt, VBool)) and isinstance(b, (VFloat, VInt, VBool)):
        f = Z.func('flt_' + type(op).__name__, Z.Flt, Z.Flt, Z.Flt)
        return VFloat(f(to_float(a), to_float(b)))
    if isinstance(op, ast.Add):
        if isinstance(a, VStr) and isinstance(b, VStr):
            return VStr(z3.Concat(a.z, b.z))
        if isinstance(a, VBytes) and isinstance(b, VBytes):
            return VBytes(z3.Concat(a.z, b.z))
        return seq_concat(I, ctx, fr, a, b, node)
    if isinstance(op, ast.Mod):
        if isinstance(a, VStr):
            return strs.percent_format(I, ctx, a, b, node)
    if isinstance(op, ast.Mult):
        if isinstance(a, VStr) and isinstance(b, VInt):
            n = Z.simp(b.z)
            if z3.is_int_value(n):
                k = max(n.as_long(), 0)
                z = z3.StringVal('')
                for _ in range(k):
                    z = z3.Concat(z, a.z)
                return VStr(Z.simp(z) if k else z)
            return VStr(Z.func('str_repeat', Z.Str, Z.Int, Z.Str)(a.z, b.z))
    if isinstance(op, (ast.BitOr, ast.BitAnd, ast.Sub, ast.BitXor)):
        sa, sb = iterable_set_or_none(I, ctx, a), iterable_set_or_none(I, ctx, b)
        if sa is not None and sb is not None:
            (za, ea), (zb, eb) = sa, sb
            if za is None and zb is None:
                return make_set(I, ctx, [], fr)
            if za is None:
                za, ea = Z.empty_set(eb.zsort), eb
            if zb is None:
                zb, eb = Z.empty_set(ea.zsort), ea
            if ea.zsort != eb.zsort:
                za2 = Z.simp(za)
                if str(za2) == str(Z.empty_set(ea.zsort)):
                    za, ea = Z.empty_set(eb.zsort), eb
                elif str(Z.simp(zb)) == str(Z.empty_set(eb.zsort)):
                    zb, eb = Z.empty_set(ea.zsort), ea
                else:
                    raise Unsupported('set operation over different element sorts', node)
            if isinstance(op, ast.BitOr):
                z = z3.SetUnion(za, zb)
            elif isinstance(op, ast.BitAnd):
                z = z3.SetIntersect(za, zb)
            elif isinstance(op, ast.Sub):
                z = z3.SetDifference(za, zb)
            else:
                z = z3.SetUnion(z3.SetDifference(za, zb), z3.SetDifference(zb, za))
            if fr.spec or (isinstance(a, VSet) and isinstance(b, VSet)):
                return VSet(z, ea)
            return ctx.alloc(HSet(z, ea))
    raise Unsupported('binary %s on %r, %r' % (type(op).__name__, a, b), node)


def iterable_set_or_none(I, ctx, v):
    s = I._as_set(ctx, v)
    if s is not None:
        return s
    return None


def seq_concat(I, ctx, fr, a, b, node):
    """list + list, tuple + tuple."""
    def conc_items(v):
        if isinstance(v, VTuple):
            return v.items
        h = I.hobj(ctx, v)
        if isinstance(h, HList) and h.items is not None:
            return h.items
        return None

    ia, ib = conc_items(a), conc_items(b)
    is_list = isinstance(a, VRef)
    if ia is not None and ib is not None:
        if is_list and not fr.spec:
            return ctx.alloc(HList(items=list(ia) + list(ib)))
        return VTuple(list(ia) + list(ib))
    # at least one side is symbolic: its element type decides the embedding
    qa = I._as_seq(ctx, a) if ia is None else None
    qb = I._as_seq(ctx, b) if ib is None else None
    et = (qa or qb)
    if et is None:
        if (isinstance(a, VObj) or isinstance(b, VObj)) and not fr.spec:
            # an object of unknown class on one side: `+` is whatever its __add__/__radd__ does -- some new object,
            # or a TypeError
            if ctx.nondet(2, '+ on an opaque object') == 1:
                I.raise_exc(ctx, 'TypeError', 'unsupported operand type(s) for +', node)
            return VObj(Z.fresh('sum', Z.Obj))
        raise Unsupported('+ on %r, %r' % (a, b), node)
    et = et[1]
    try:
        if qa is None:
            qa = (Z.seq_of(et.zsort, [et.to_z(i, ctx) for i in ia]), et)
        if qb is None:
            qb = (Z.seq_of(et.zsort, [et.to_z(i, ctx) for i in ib]), et)
    except TypeError as e:
        raise Unsupported('concatenation: %s' % e, node)
    if qa[1].zsort != qb[1].zsort:
        raise Unsupported('concatenation over different element sorts', node)
    z = z3.Concat(qa[0], qb[0])
    if is_list and not fr.spec:
        return ctx.alloc(HList(z=z, et=et))
    return VSeq(z, et)


def augop(I, ctx, fr, op, cur, rhs, node):
    """Augmented assignment.  Returns the new value, or None when the target
    object was mutated in place."""
    cur = I.resolve(ctx, cur)
    h = I.hobj(ctx, cur)
    if isinstance(h, HSet) and isinstance(op, (ast.BitOr, ast.BitAnd, ast.Sub)):
        rs = I._as_set(ctx, I.resolve(ctx, rhs))
        if rs is None:
            raise Unsupported('set augmented assignment with a non-set', node)
        ctx.mutate(cur, node)
        zb, eb = rs
        if h.et.zsort != eb.zsort:
            set_retype(h, eb)
        if isinstance(op, ast.BitOr):
            h.z = z3.SetUnion(h.z, zb)
        elif isinstance(op, ast.BitAnd):
            h.z = z3.SetIntersect(h.z, zb)
        else:
            h.z = z3.SetDifference(h.z, zb)
        return None
    if isinstance(h, HList) and isinstance(op, ast.Add):
        list_extend(I, ctx, cur, rhs, node)
        return None
    return binop(I, ctx, fr, op, cur, rhs, node)


# ---------------------------------------------------------------------------
# membership, indexing, slicing


def contains(I, ctx, container, x, node):
    container = I.resolve(ctx, container)
    x = I.resolve(ctx, x)
    if isinstance(container, (VStr, VBytes)):
        if isinstance(x, type(container)):
            return z3.Contains(container.z, x.z)
        if isinstance(container, VBytes) and isinstance(x, VInt):
            return Z.func('bytes_has_int', Z.Str, Z.Int, Z.Bool)(container.z, x.z)
        I.raise_exc(ctx, 'TypeError', "'in <string>' requires string as left operand", node)
    if isinstance(container, VIter):
        container = VTuple(container.items) if container.items is not None else container.sym
    if isinstance(container, VNames):
        container = VSet(nset(container.z), TStr)
    s = I._as_set(ctx, container)
    if s is not None:
        z, et = s
        try:
            xz = et.to_z(x, ctx)
        except TypeError:
            return Z.FALSE
        return z3.IsMember(xz, z)
    if isinstance(container, VMap) or isinstance(I.hobj(ctx, container), HDict):
        h = I.hobj(ctx, container)
        if h is not None and h.conc is not None:
            ck = conc_key(x)
            if ck is not None:
                return z3.BoolVal(ck in h.conc)
            return Z.Or(*[I.eq(ctx, x, key_value(k)) for k in h.conc])
        dom, arr, kt, vt = dict_sym(I, ctx, container)
        try:
            xz = kt.to_z(x, ctx)
        except TypeError:
            return Z.FALSE
        return z3.IsMember(xz, dom)
    items = None
    if isinstance(container, VTuple):
        items = container.items
    else:
        h = I.hobj(ctx, container)
        if isinstance(h, HList) and h.items is not None:
            items = h.items
    if items is not None:
        return Z.Or(*[I.eq(ctx, x, i) for i in items])
    q = I._as_seq(ctx, container)
    if q is not None:
        z, et = q
        hook = I.engine.contains_hook(et)
        if hook is not None:
            return hook(ctx, z, x)
        try:
            xz = et.to_z(x, ctx)
        except TypeError:
            return Z.FALSE
        return z3.Contains(z, z3.Unit(xz))
    if isinstance(container, VObj):
        return I.engine.opaque_contains(ctx, container, x, node)
    raise Unsupported('membership in %r' % (container,), node)


def length(I, ctx, v, node=None):
    v = I.resolve(ctx, v)
    if isinstance(v, (VStr, VBytes)):
        return VInt(z3.Length(v.z))
    if isinstance(v, VTuple):
        return VInt(len(v.items))
    if isinstance(v, VSeq):
        return VInt(z3.Length(v.z))
    if isinstance(v, VZip):
        return VInt(z3.Length(v.cols[0].z))
    if isinstance(v, VIter) and v.items is not None:
        return VInt(len(v.items))
    if isinstance(v, VNames):
        v = VSet(nset(v.z), TStr)
    if isinstance(v, VListSlot):
        return VInt(z3.Length(z3.Select(ctx.heap[v.ref.rid].arr, v.kz)))
    h = I.hobj(ctx, v)
    if isinstance(h, HList):
        return VInt(len(h.items)) if h.items is not None else VInt(z3.Length(h.z))
    if isinstance(h, HDict) and h.conc is not None:
        return VInt(len(h.conc))
    if isinstance(h, HSet) or isinstance(v, VSet) or isinstance(h, HDict) or isinstance(v, VMap):
        if isinstance(h, HDict) or isinstance(v, VMap):
            dom = dict_sym(I, ctx, v)[0]
            srt = dom.sort()
        else:
            dom = I._as_set(ctx, v)[0]
            srt = dom.sort()
        card = Z.func('card<%s>' % srt, srt, Z.Int)
        n = card(dom)
        ctx.assume(n >= 0)
        ctx.assume((n == 0) == (dom == Z.empty_set(srt.domain())))
        return VInt(n)
    if isinstance(v, VObj):
        return I.engine.opaque_len(ctx, v, node)
    if getattr(ctx, 'no_branch', 0) and isinstance(v, VNone):
        return VInt(0)          # spec mode: total
    I.raise_exc(ctx, 'TypeError', 'object has no len()', node)


def index(I, ctx, fr, v, idx, node):
    v = I.resolve(ctx, v)
    idx = I.resolve(ctx, idx)
    h = I.hobj(ctx, v)
    if isinstance(h, HDict) or isinstance(v, VMap):
        if fr is not None and fr.spec and not (h is not None and h.conc is not None and conc_key(idx) is not None):
            # spec mode: total lookup (the array value), no KeyError split
            dom, arr, kt, vt = dict_sym(I, ctx, v)
            return vt.wrap(Z.simp(z3.Select(arr, kt.to_z(idx, ctx))))
        return dict_get(I, ctx, v, idx, node)
    if isinstance(v, VObj):
        return I.engine.opaque_getitem(ctx, v, idx, node)
    if isinstance(v, VNames):
        iz = Z.simp(TInt.to_z(idx))
        if z3.is_int_value(iz) and iz.as_long() == 0:
            if not ctx.branch(nset(v.z) != Z.empty_set(Z.Str)):
                I.raise_exc(ctx, 'IndexError', 'index out of range', node)
            ctx.assume(z3.IsMember(nfirst(v.z), nset(v.z)))
            return VStr(nfirst(v.z))
        if z3.is_int_value(iz) and 0 < iz.as_long() <= 4:
            # names are pairwise distinct (parameter names): len == cardinality
            k = iz.as_long()
            card = Z.func('card<%s>' % nset(v.z).sort(), nset(v.z).sort(), Z.Int)
            n = card(nset(v.z))
            ctx.assume(n >= 0)
            ctx.assume((n == 0) == (nset(v.z) == Z.empty_set(Z.Str)))
            if not ctx.branch(n > k):
                I.raise_exc(ctx, 'IndexError', 'index out of range', node)
            from .values import nnth
            ctx.assume(z3.IsMember(nnth(v.z, k), nset(v.z)))
            ctx.assume(z3.IsMember(nfirst(v.z), nset(v.z)))
            ctx.assume(nnth(v.z, k) != nfirst(v.z))
            for j in range(1, k):
                ctx.assume(nnth(v.z, k) != nnth(v.z, j))
            return VStr(nnth(v.z, k))
        raise Unsupported('index %s into a collection of names' % iz, node)
    if not isinstance(idx, (VInt, VBool)):
        I.raise_exc(ctx, 'TypeError', 'indices must be integers', node)
    iz = Z.simp(TInt.to_z(idx))
    items = None
    if isinstance(v, VTuple):
        items = v.items
    elif isinstance(h, HList) and h.items is not None:
        items = h.items
    if items is not None:
        if z3.is_int_value(iz):
            i = iz.as_long()
            if -len(items) <= i < len(items):
                return items[i]
            if fr is not None and fr.spec:
                return VObj(Z.const('index-out-of-range', Z.Obj))      # spec mode: total
            I.raise_exc(ctx, 'IndexError', 'index out of range', node)
        for k in range(len(items)):
            if ctx.branch(Z.Or(iz == k, iz == k - len(items))):
                return items[k]
        I.raise_exc(ctx, 'IndexError', 'index out of range', node)
    if isinstance(v, (VStr, VBytes)):
        n = z3.Length(v.z)
        if not ctx.branch(Z.And(iz < n, iz >= -n)):
            I.raise_exc(ctx, 'IndexError', 'string index out of range', node)
        pos = Z.simp(z3.If(iz >= 0, iz, n + iz))
        if isinstance(v, VStr):
            return VStr(z3.SubString(v.z, pos, 1))
        # bytes[i] is an int in Python 3
        return VInt(Z.func('byte_at', Z.Str, Z.Int, Z.Int)(v.z, pos))
    q = I._as_seq(ctx, v)
    if q is not None:
        z, et = q
        n = z3.Length(z)
        # xs ++ [b] indexed at -1 (or [a] ++ xs at 0): answer structurally, the sequence
        # solver is slow at nth-of-concat
        zs = Z.simp(z)
        if z3.is_int_value(iz) and z3.is_app(zs) and zs.decl().kind() == z3.Z3_OP_SEQ_CONCAT:
            last, first = zs.arg(zs.num_args() - 1), zs.arg(0)
            if iz.as_long() == -1 and z3.is_app(last) and last.decl().kind() == z3.Z3_OP_SEQ_UNIT:
                return et.wrap(last.arg(0))
            if iz.as_long() == 0 and z3.is_app(first) and first.decl().kind() == z3.Z3_OP_SEQ_UNIT:
                return et.wrap(first.arg(0))
        if z3.is_int_value(iz) and z3.is_app(zs) and zs.decl().kind() == z3.Z3_OP_SEQ_UNIT and iz.as_long() in (0, -1):
            return et.wrap(zs.arg(0))
        if fr is not None and fr.spec:
            pass        # spec mode: total indexing
        elif not ctx.branch(Z.And(iz < n, iz >= -n)):
            I.raise_exc(ctx, 'IndexError', 'index out of range', node)
        if nonneg(iz) or (fr is not None and fr.spec and not z3.is_int_value(iz)):
            pos = iz        # spec expressions index with non-negative terms or a literal -1
        else:
            pos = Z.simp(z3.If(iz >= 0, iz, n + iz))
        return et.wrap(Z.simp(z[pos]))
    raise Unsupported('subscript of %r' % (v,), node)


def nonneg(t):
    """Syntactic check that an Int term cannot be negative."""
    t = Z.simp(t)
    if z3.is_int_value(t):
        return t.as_long() >= 0
    if z3.is_app(t):
        k = t.decl().kind()
        if k == z3.Z3_OP_SEQ_LENGTH:
            return True
        if k == z3.Z3_OP_ADD:
            return all(nonneg(t.arg(i)) for i in range(t.num_args()))
    return False


def _bound(I, ctx, b, n, default):
    """Clamp a slice bound the way Python does."""
    if b is None or isinstance(b, VNone):
        return default
    bz = TInt.to_z(b)
    if nonneg(bz):
        return Z.simp(z3.If(bz > n, n, bz))
    bz = z3.If(bz < 0, z3.If(n + bz < 0, z3.IntVal(0), n + bz), z3.If(bz > n, n, bz))
    return Z.simp(bz)


def slice(I, ctx, v, lo, hi, node):
    v = I.resolve(ctx, v)
    h = I.hobj(ctx, v)
    items = v.items if isinstance(v, VTuple) else (h.items if isinstance(h, HList) else None)
    if items is not None:
        def cv(b):
            if b is None or isinstance(b, VNone):
                return None
            s = Z.simp(TInt.to_z(b))
            if not z3.is_int_value(s):
                raise Unsupported('symbolic slice bound on a concrete sequence', node)
            return s.as_long()
        part = items[cv(lo):cv(hi)]
        if isinstance(v, VTuple):
            return VTuple(part)
        return ctx.alloc(HList(items=list(part)))
    if isinstance(v, (VStr, VBytes)):
        n = z3.Length(v.z)
        l = _bound(I, ctx, lo, n, z3.IntVal(0))
        u = _bound(I, ctx, hi, n, n)
        ln = Z.simp(z3.If(u - l < 0, z3.IntVal(0), u - l))
        return type(v)(Z.simp(z3.SubString(v.z, l, ln)))
    q = I._as_seq(ctx, v)
    if q is not None:
        z, et = q
        n = z3.Length(z)
        l = _bound(I, ctx, lo, n, z3.IntVal(0))
        u = _bound(I, ctx, hi, n, n)
        ln = Z.simp(z3.If(u - l < 0, z3.IntVal(0), u - l))
        r = Z.simp(z3.Extract(z, l, ln))
        if isinstance(v, VRef):
            return ctx.alloc(HList(z=r, et=et))
        return VSeq(r, et)
    if isinstance(v, VNames):
        n = Z.fresh('names_slice', NamesSort)
        ctx.assume(z3.IsSubset(nset(n), nset(v.z)))
        lo_ = None if lo is None or isinstance(lo, VNone) else Z.simp(TInt.to_z(lo))
        hi_ = None if hi is None or isinstance(hi, VNone) else Z.simp(TInt.to_z(hi))
        if (lo_ is None or (z3.is_int_value(lo_) and lo_.as_long() == 0)) and hi_ is not None \
                and z3.is_int_value(hi_) and 0 < hi_.as_long() <= 4:
            # a prefix of k names: same leading names, min(k, len) of them
            from .values import nnth
            k = hi_.as_long()
            srt = nset(v.z).sort()
            card = Z.func('card<%s>' % srt, srt, Z.Int)
            cv_, cn = card(nset(v.z)), card(nset(n))
            ctx.assume(cv_ >= 0)
            ctx.assume((cv_ == 0) == (nset(v.z) == Z.empty_set(Z.Str)))
            ctx.assume(cn == z3.If(cv_ < k, cv_, z3.IntVal(k)))
            ctx.assume((cn == 0) == (nset(n) == Z.empty_set(Z.Str)))
            ctx.assume(nfirst(n) == nfirst(v.z))
            for j in range(1, k):
                ctx.assume(nnth(n, j) == nnth(v.z, j))
        return VNames(n)
    if isinstance(v, VObj):
        return I.engine.opaque_slice(ctx, v, lo, hi, node)
    raise Unsupported('slice of %r' % (v,), node)


def setitem(I, ctx, fr, base, idx, val, node):
    base = I.resolve(ctx, base)
    h = I.hobj(ctx, base)
    if isinstance(h, HDict):
        return dict_set(I, ctx, base, idx, val, node)
    if isinstance(h, HList):
        ctx.mutate(base, node)
        iz = Z.simp(TInt.to_z(idx))
        if h.items is not None and z3.is_int_value(iz):
            i = iz.as_long()
            if -len(h.items) <= i < len(h.items):
                h.items[i] = val
                return
            I.raise_exc(ctx, 'IndexError', 'list assignment index out of range', node)
        if h.items is not None:
            list_to_sym(I, ctx, base)
        n = z3.Length(h.z)
        if not ctx.branch(Z.And(iz < n, iz >= -n)):
            I.raise_exc(ctx, 'IndexError', 'list assignment index out of range', node)
        pos = Z.simp(z3.If(iz >= 0, iz, n + iz))
        # decomposition form: old == pre ++ [old_x] ++ post, |pre| == pos; new == pre ++ [val] ++ post
        pre = Z.fresh('set_pre', h.z.sort())
        post = Z.fresh('set_post', h.z.sort())
        oldx = Z.fresh('set_old', h.et.zsort)
        ctx.assume(h.z == z3.Concat(pre, z3.Unit(oldx), post))
        ctx.assume(z3.Length(pre) == pos)
        # elements of the old value, stated as a ground fact (elems is uninterpreted)
        ctx.assume(elems_fn(h.et.zsort)(h.z) == elems_of(z3.Concat(pre, z3.Unit(oldx), post), h.et.zsort))
        h.z = z3.Concat(pre, z3.Unit(h.et.to_z(val, ctx)), post)
        return
    if isinstance(base, VObj):
        return I.engine.opaque_setitem(ctx, base, idx, val, node)
    raise Unsupported('item store on %r' % (base,), node)


def delitem(I, ctx, fr, base, idx, node):
    h = I.hobj(ctx, base)
    if isinstance(h, HDict):
        ctx.mutate(base, node)
        ck = conc_key(idx)
        if h.conc is not None and ck is not None:
            if ck not in h.conc:
                I.raise_exc(ctx, 'KeyError', repr(ck), node)
            del h.conc[ck]
            return
        if h.conc is not None:
            dict_to_sym(I, ctx, base)
        kz = h.kt.to_z(idx, ctx)
        if not ctx.branch(z3.IsMember(kz, h.dom)):
            I.raise_exc(ctx, 'KeyError', 'del of a missing key', node)
        h.dom = z3.SetDel(h.dom, kz)
        return
    raise Unsupported('del item on %r' % (base,), node)


def list_to_sym(I, ctx, ref, et=None):
    h = ctx.heap[ref.rid]
    if h.items is None:
        return h
    et = et or I.guess_elem_type(h.items) or TObj()
    h.z = Z.seq_of(et.zsort, [et.to_z(i, ctx) for i in h.items])
    h.et = et
    h.items = None
    return h


def list_extend(I, ctx, ref, other, node):
    h = ctx.mutate(ref, node)
    other = I.resolve(ctx, other)
    try:
        items = I.iter_concrete(ctx, other, node)
    except Unsupported:
        items = None
    if items is not None and h.items is not None:
        h.items.extend(items)
        return
    q = I._as_seq(ctx, other, h.et if h.items is None else None)
    if q is None:
        raise Unsupported('extend with %r' % (other,), node)
    if h.items is not None:
        list_to_sym(I, ctx, ref, q[1])
    if h.et.zsort != q[1].zsort:
        raise Unsupported('extend over different element sorts', node)
    h.z = z3.Concat(h.z, q[0])


def unpack(I, ctx, v, n, node):
    v = I.resolve(ctx, v)
    if isinstance(v, VTuple):
        items = v.items
    elif isinstance(v, VIter) and v.items is not None:
        items = v.items
    else:
        h = I.hobj(ctx, v)
        if isinstance(h, HList) and h.items is not None:
            items = h.items
        elif isinstance(v, VUnzipped):
            # only reached on the path where the rows are non-empty
            items = list(v.cols)
        elif isinstance(v, VZip):
            raise Unsupported('unpacking a symbolic sequence of tuples', node)
        else:
            q = I._as_seq(ctx, v)
            if q is None:
                raise Unsupported('unpacking %r' % (v,), node)
            z, et = q
            if not ctx.branch(z3.Length(z) == n):
                I.raise_exc(ctx, 'ValueError', 'wrong number of values to unpack', node)
            items = [et.wrap(Z.simp(z[i])) for i in range(n)]
    if len(items) != n:
        I.raise_exc(ctx, 'ValueError', 'wrong number of values to unpack', node)
    return items


from .models2 import *   # noqa  (getattr, call dispatch, builtins, comprehension)
