"""Loads the real source under $PYVC_REPO/clastic on every run.

Extraction is ast.parse + selection of FunctionDef / ClassDef nodes by
qualname.  Dropped: comments, docstrings, annotations (the executor ignores
them), decorators other than property/staticmethod/classmethod/
cached_property.  Nothing is rewritten.
"""
import ast
import hashlib
import os

REPO = os.environ.get('PYVC_REPO', '/repo')


class ModuleInfo(object):
    def __init__(self, name, path, text):
        self.name = name            # dotted, e.g. clastic.sinter
        self.path = path
        self.text = text
        self.tree = ast.parse(text, path)
        self.funcs = {}             # qualname within module -> FunctionDef
        self.classes = {}           # class name -> ClassDef
        self.assigns = {}           # module-level name -> value expr (last assignment)
        self.imports = {}           # local name -> ('mod', dotted) | ('from', dotted_module, attr)
        self.is_pkg = path.endswith('__init__.py')
        self._index()

    def _pkg(self):
        return self.name if self.is_pkg else self.name.rsplit('.', 1)[0]

    def _resolve_rel(self, level, module):
        if level == 0:
            return module
        base = self._pkg().split('.')
        if level > 1:
            base = base[:-(level - 1)]
        return '.'.join(base + ([module] if module else []))

    def _index_body(self, body):
        for node in body:
            if isinstance(node, ast.FunctionDef):
                self.funcs[node.name] = node
            elif isinstance(node, ast.ClassDef):
                self.classes[node.name] = node
                for sub in node.body:
                    if isinstance(sub, ast.FunctionDef):
                        self.funcs['%s.%s' % (node.name, sub.name)] = sub
            elif isinstance(node, ast.Assign):
                for tgt in node.targets:
                    if isinstance(tgt, ast.Name):
                        self.assigns[tgt.id] = node.value
            elif isinstance(node, ast.Import):
                for a in node.names:
                    self.imports[a.asname or a.name.split('.')[0]] = ('mod', a.name if a.asname else a.name.split('.')[0])
            elif isinstance(node, ast.ImportFrom):
                mod = self._resolve_rel(node.level, node.module)
                for a in node.names:
                    self.imports[a.asname or a.name] = ('from', mod, a.name)
            elif isinstance(node, ast.Try):
                # py2/py3 shims: index both the body and the handlers; the
                # reflected namespace decides which binding is live
                self._index_body(node.body)
                for h in node.handlers:
                    self._index_body(h.body)
            elif isinstance(node, ast.If):
                self._index_body(node.body)
                self._index_body(node.orelse)

    def _index(self):
        self._index_body(self.tree.body)

    def segment(self, node):
        return ast.get_source_segment(self.text, node)


class Repo(object):
    def __init__(self, root=None):
        self.root = root or REPO
        self.modules = {}
        pkg = os.path.join(self.root, 'clastic')
        for dirpath, dirnames, filenames in os.walk(pkg):
            dirnames[:] = [d for d in dirnames if d not in ('tests', '__pycache__', '_clastic_assets')]
            for fn in sorted(filenames):
                if not fn.endswith('.py'):
                    continue
                path = os.path.join(dirpath, fn)
                rel = os.path.relpath(path, self.root)[:-3].replace(os.sep, '.')
                if rel.endswith('.__init__'):
                    rel = rel[:-len('.__init__')]
                with open(path, encoding='utf8') as f:
                    text = f.read()
                try:
                    self.modules[rel] = ModuleInfo(rel, path, text)
                except SyntaxError as e:
                    self.modules[rel] = e

    def module(self, name):
        m = self.modules.get(name)
        if isinstance(m, SyntaxError):
            raise m
        return m

    def find(self, dotted):
        """dotted = module.qualname -> (ModuleInfo, FunctionDef) or None."""
        parts = dotted.split('.')
        for i in range(len(parts) - 1, 0, -1):
            mname = '.'.join(parts[:i])
            m = self.modules.get(mname)
            if m is not None and not isinstance(m, SyntaxError):
                q = '.'.join(parts[i:])
                node = m.funcs.get(q)
                if node is not None:
                    return m, node
        return None

    def find_class(self, dotted):
        parts = dotted.split('.')
        mname = '.'.join(parts[:-1])
        m = self.modules.get(mname)
        if m is not None and not isinstance(m, SyntaxError):
            node = m.classes.get(parts[-1])
            if node is not None:
                return m, node
        return None

    def resolve_import(self, mod, attr, depth=0):
        """Follow `from mod import attr` through repo packages to the defining
        module.  Returns ('func'|'class'|'assign'|'module', ModuleInfo, name)
        or ('external', dotted)."""
        if depth > 6:
            return ('external', '%s.%s' % (mod, attr))
        m = self.modules.get(mod)
        if m is None or isinstance(m, SyntaxError):
            sub = self.modules.get('%s.%s' % (mod, attr))
            if sub is not None:
                return ('module', sub, attr)
            return ('external', '%s.%s' % (mod, attr))
        if attr in m.funcs:
            return ('func', m, attr)
        if attr in m.classes:
            return ('class', m, attr)
        if attr in m.imports:
            imp = m.imports[attr]
            if imp[0] == 'from':
                return self.resolve_import(imp[1], imp[2], depth + 1)
            return ('external', imp[1])
        if attr in m.assigns:
            return ('assign', m, attr)
        sub = self.modules.get('%s.%s' % (mod, attr))
        if sub is not None:
            return ('module', sub, attr)
        return ('external', '%s.%s' % (mod, attr))


def func_hash(modinfo, node):
    seg = modinfo.segment(node) or ''
    return hashlib.sha1(seg.encode('utf8')).hexdigest()[:12]
