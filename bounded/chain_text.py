"""Bounded stand-in for the exec boundary of C01-C03 (labelled bounded, never
counted as proved).  See oracle/chain_text_enum.py for what is enumerated."""
import json
import os
from pyvc.run import native, HERE

QUICK = {'alpha': 3, 'maxparams': 2, 'maxparams_chain': 2, 'depth': 3, 'full_depth': 2, 'budget_per_depth': 6000}
THOROUGH = {'alpha': 3, 'maxparams': 3, 'maxparams_chain': 2, 'depth': 4, 'full_depth': 3, 'budget_per_depth': 150000}


def run(pc, E):
    bound = dict(THOROUGH if pc.tier == 'thorough' else QUICK)
    bound['seed'] = pc.seed
    out = native('chain_text_enum.py', bound, repo_root=E.repo.root, timeout=1500)
    res = {'callnames_mode': None}
    if 'error' in out:
        pc.errors.append('bounded stand-in chain_text crashed: %s' % out['error'])
        return res
    modes = out['chain_modes']
    res['callnames_mode'] = 'argnames' if modes.get('argnames') and not modes.get('args') else \
        ('args' if modes.get('args') else None)
    if modes.get('args') and modes.get('argnames'):
        res['callnames_mode'] = 'argnames'
    pc.bounded.append({'what': 'get_fb over callable kinds x signatures (A-fb)', 'bound': bound,
                       'cases': out['fb_cases'], 'failures': len(out['fb_bad']), 'label': 'bounded'})
    pc.bounded.append({'what': 'real build_chain_str text parsed and compared with the abstract chain tree (A-exec)',
                       'bound': bound, 'cases': out['chain_cases'], 'keyword_source': res['callnames_mode'],
                       'failures': len(out['chain_bad']), 'label': 'bounded'})
    pc.bounded.append({'what': '_create_request_inner text equals the instantiated _REQ_INNER_TMPL shape',
                       'bound': 'all subsets of a 3-name alphabet for endpoint/render args',
                       'cases': out['inner_cases'], 'failures': len(out['inner_bad']), 'label': 'bounded'})
    for kind, bad in (('fb', out['fb_bad']), ('chain', out['chain_bad']), ('inner', out['inner_bad'])):
        if bad or (kind == 'chain' and res['callnames_mode'] is None):
            fn = 'replays/%s-bounded-%s.json' % (pc.pid, kind)
            os.makedirs(os.path.join(HERE, 'replays'), exist_ok=True)
            with open(os.path.join(HERE, fn), 'w') as f:
                json.dump({'property': pc.pid, 'obligation': 'bounded stand-in %s' % kind, 'failing_cases': bad,
                           'bound': bound}, f, indent=1)
            pc.violations.append(('bounded:%s' % kind, fn, True))
    return res
