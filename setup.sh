#!/bin/sh
# Nothing is installed: verify the tools the checks need are present.
set -e
command -v python3-vt >/dev/null
python3-vt -c "import z3; assert z3.get_version()[0] >= 4"
test -x /venv/bin/python
test -x /usr/bin/cvc5 || echo "note: cvc5 CLI missing (fallback back end unavailable)"
mkdir -p evidence replays
echo setup-ok
