"""Sidecar contracts for the built-in middlewares (C15): each request function returns
exactly what next() returned (or lets its exception through), never touching status or
body -- except gzip's encoded branch, whose body decompresses to the original."""
import z3
from pyvc import z as Z
from pyvc.values import *   # noqa
from pyvc.engine import Contract, OpaqueClass
from pyvc.loops import LoopSpec
from pyvc import models as M
from pyvc.classes import cls_of, issub

DEPENDS = ('std', 'application', 'stats')

GZ = Z.func('gzip_bytes', Z.Str, Z.Obj, Z.Str)
GUNZIP = Z.func('gunzip', Z.Str, Z.Str)
_d = z3.Const('gz!d', Z.Str)
_l = z3.Const('gz!l', Z.Obj)
Z.AXIOMS.add('A-json: gunzip(gzip_bytes(d, level)) == d',
             z3.ForAll([_d, _l], GUNZIP(GZ(_d, _l)) == _d, patterns=[GZ(_d, _l)]))


def register(E):
    I = E.interp
    KINDS = ('Response', 'HTTPExc')

    # attributes of responses used by the middlewares: typed when the real class has them (reflection)
    typed = {'vary': TObj('HeaderSet', inv=lambda h: h != Z.NONE), 'content_encoding': TOpt(TStr), 'is_streamed': TBool,
             'data': TBytes, 'content_type': TStr, 'cache_control': TObj('CacheControl', inv=lambda h: h != Z.NONE),
             'content_length': TOpt(TInt), 'headers': TObj('Headers', inv=lambda h: h != Z.NONE)}
    for kind, dotted in (('Response', 'werkzeug.wrappers.response.Response'), ('HTTPExc', 'clastic.errors.HTTPException')):
        have = E.classes.attrs(dotted)
        for a, t in typed.items():
            if a in have:
                E.opaque[kind].attrs[a] = t
        for m in ('add_etag', 'make_conditional', 'set_data', 'set_cookie'):
            if m in have:
                def mk(m):
                    def model(I, ctx, resp, *a, **kw):
                        ctx.trace.append(('resp_method', m, resp))
                        return resp if m == 'make_conditional' else NONE
                    return model
                E.opaque[kind].methods[m] = mk(m)

    def hs_add(I, ctx, hs, item):
        ctx.trace.append(('vary_add', hs, item))
        return NONE
    E.add_opaque(OpaqueClass('HeaderSet', methods={'add': hs_add}, truthy=None))
    E.add_opaque(OpaqueClass('CacheControl', closed=False, truthy=True))
    E.add_opaque(OpaqueClass('Headers', closed=False, truthy=True))

    ACCEPTQ = Z.func('ACCEPT_QUALITY', Z.Obj, Z.Str, Z.Int)

    def accept_getitem(I, ctx, acc, key):
        return VInt(ACCEPTQ(acc.z, key.z))
    E.add_opaque(OpaqueClass('Accept', methods={'__getitem__': accept_getitem}, truthy=None))
    E.add_opaque(OpaqueClass('UserAgent', attrs={'browser': TOpt(TStr)}, truthy=True))

    def args_get(I, ctx, args, key, default=None, type=None):
        r = Z.func('ARGS_GET', Z.Obj, Z.Str, Z.Obj)(args.z, key.z)
        return VObj(r)
    E.add_opaque(OpaqueClass('Args', methods={'get': args_get}, truthy=None))
    E.opaque['Request'].attrs.update({'accept_encodings': TObj('Accept', inv=lambda h: h != Z.NONE),
                                      'user_agent': TObj('UserAgent', inv=lambda h: h != Z.NONE),
                                      'args': TObj('Args', inv=lambda h: h != Z.NONE),
                                      'form': TObj('Args', inv=lambda h: h != Z.NONE),
                                      'script_root': TStr})

    def gzip_bytes_model(I, ctx, data, level=None):
        data = I.resolve(ctx, data)
        if not isinstance(data, VBytes):
            I.raise_exc(ctx, 'TypeError', 'gzip_bytes needs bytes', None)
        r = GZ(data.z, box(level, ctx) if level is not None else Z.NONE)
        return VBytes(r)
    E.externals['boltons.strutils.gzip_bytes'] = gzip_bytes_model

    @E.spec('no_write')
    def no_write(I, ctx, attr):
        """nothing was stored into that attribute of any opaque object"""
        a = attr.const()
        return VBool(not any(k.split('.')[-1] == a for (_, k, _) in ctx.writes))

    @E.spec('written')
    def written(I, ctx, attr):
        a = attr.const()
        vals = [v for (_, k, v) in getattr(ctx, 'write_values', []) if k.split('.')[-1].split('?')[0] == a and not k.endswith('?none')]
        if not vals:
            return VObj(Z.const('nothing-written', Z.Obj))
        v = vals[-1]
        if v.sort() == Z.Str:
            return VStr(v)
        if v.sort() == Z.Int:
            return VInt(v)
        return VObj(v)

    @E.spec('wrote')
    def wrote(I, ctx, attr):
        a = attr.const()
        return VBool(any(k.split('.')[-1].split('?')[0] == a for (_, k, _) in ctx.writes))

    @E.spec('GUNZIP')
    def GUNZIP_(I, ctx, b):
        return VBytes(GUNZIP(b.z))

    @E.spec('NEW_BODY')
    def NEW_BODY(I, ctx):
        """the single chunk stored into resp.response"""
        vals = [v for (_, k, v) in getattr(ctx, 'write_values', []) if k.split('.')[-1] == 'response']
        if not vals:
            return VBytes(Z.const('no-new-body', Z.Str))
        ref = ctx.unbox_ref(vals[-1])
        if ref is None:
            return VBytes(Z.const('no-new-body', Z.Str))
        h = ctx.heap[ref.rid]
        if h.items is not None and len(h.items) == 1 and isinstance(h.items[0], VBytes):
            return h.items[0]
        return VBytes(Z.const('no-new-body', Z.Str))

    @E.spec('ACCEPTS_GZIP')
    def ACCEPTS_GZIP(I, ctx, request):
        acc = E.read_typed_attr(ctx, 'Request.accept_encodings', TObj('Accept'), request.z)
        return VBool(ACCEPTQ(acc.z, z3.StringVal('gzip')) != 0)

    @E.spec('DATA_OF')
    def DATA_OF(I, ctx, resp):
        return E.read_typed_attr(ctx, '%s.data' % resp.cls, TBytes, resp.z)

    @E.spec('vary_has_accept_encoding')
    def vary_ok(I, ctx):
        return VBool(any(e[0] == 'vary_add' and isinstance(e[2], VStr) and e[2].const() == 'Accept-Encoding'
                         for e in ctx.trace))

    passthrough = ['result is NEXT_RET()', 'no_write("status_code")', 'no_write("status")']
    exc_pass = ['_exc is NEXT_EXC()']

    def mwself(cls, fields):
        return TInst(cls, fields)

    for kind in KINDS:
        nxt = TObj('Next_' + kind, inv=lambda f: f != Z.NONE)
        E.add_contract(Contract(
            'clastic.middleware.compress.GzipMiddleware.request',
            params={'self': mwself('clastic.middleware.compress.GzipMiddleware', {'compress_level': TInt}),
                    'next': nxt, 'request': TObj('Request')},
            ensures=passthrough + [
                'implies(wrote("content_encoding"), written("content_encoding") == "gzip" and '
                'GUNZIP(NEW_BODY()) == DATA_OF(result) and written("content_length") == len(NEW_BODY()) and '
                'vary_has_accept_encoding())',
                'implies(not wrote("content_encoding"), not wrote("response") and not wrote("data"))',
                'implies(not ACCEPTS_GZIP(request), not wrote("content_encoding"))'],
            exc_ensures=exc_pass, may_raise_any=True, returns=TObj(), prop=['C15']),
            key='clastic.middleware.compress.GzipMiddleware.request#' + kind)
        E.add_contract(Contract(
            'clastic.middleware.client_cache.HTTPCacheMiddleware.request',
            params={'self': mwself('clastic.middleware.client_cache.HTTPCacheMiddleware',
                                   dict([(a, TConst(NONE)) for a in ('max_age', 's_maxage', 'no_cache', 'no_store', 'no_transform',
                                                              'must_revalidate', 'proxy_revalidate', 'public', 'private')]
                                        + [('use_etags', TConst(VBool(True)))])),      # default configuration
                    'next': nxt, 'request': TObj('Request')},
            ensures=passthrough + ['no_write("response")', 'no_write("data")'],
            exc_ensures=exc_pass, may_raise_any=True, returns=TObj(), prop=['C15']),
            key='clastic.middleware.client_cache.HTTPCacheMiddleware.request#' + kind)
        E.add_contract(Contract(
            'clastic.middleware.url.ScriptRootMiddleware.request',
            params={'self': mwself('clastic.middleware.url.ScriptRootMiddleware', {'provided_name': TStr}),
                    'next': nxt, 'request': TObj('Request')},
            ensures=passthrough + ['no_write("response")', 'no_write("data")'],
            exc_ensures=exc_pass, may_raise_any=True, returns=TObj(), prop=['C15']),
            key='clastic.middleware.url.ScriptRootMiddleware.request#' + kind)

        # profiler without its trigger parameter: request.args.get(name) is falsy
        E.add_contract(Contract(
            'clastic.middleware.profile.SimpleProfileMiddleware.request',
            params={'self': mwself('clastic.middleware.profile.SimpleProfileMiddleware',
                                   {'get_param_name': TStr, 'sort_param_name': TStr, 'raise_exc': TBool}),
                    'next': nxt, 'request': TObj('Request')},
            requires=['not ARG_PRESENT(request, self.get_param_name)'],
            ensures=passthrough + ['no_write("response")', 'no_write("data")'],
            exc_ensures=exc_pass, may_raise_any=True, returns=TObj(), prop=['C15']),
            key='clastic.middleware.profile.SimpleProfileMiddleware.request#' + kind)
        for cls, mod in (('GetParamMiddleware', 'url'), ('PostDataMiddleware', 'form')):
            E.add_contract(Contract(
                'clastic.middleware.%s.%s.request' % (mod, cls),
                params={'self': mwself('clastic.middleware.%s.%s' % (mod, cls), {'params': TDict(TStr, TObj())}),
                        'next': nxt, 'request': TObj('Request')},
                loops={('(p_name, p_type)', 'self.params.items()'): LoopSpec(
                    inv=['True'], modifies={'kwargs': TDict(TStr, TObj())})},
                ensures=passthrough + ['no_write("response")', 'no_write("data")'],
                exc_ensures=exc_pass, may_raise_any=True, returns=TObj(), prop=['C15']),
                key='clastic.middleware.%s.%s.request#%s' % (mod, cls, kind))
        # signed cookie: load, provide, (stamp), save -- the response itself is returned untouched
        def cookie_self(expiry_t):
            return mwself('clastic.middleware.cookie.SignedCookieMiddleware',
                          {'arg_name': TStr, 'cookie_name': TStr, 'secret_key': TObj(), 'domain': TObj(),
                           'path': TObj(), 'secure': TObj(), 'http_only': TObj(), 'expiry': expiry_t,
                           '_cookie_type': TObj('CookieType', inv=lambda c: c != Z.NONE)})
        E.add_contract(Contract(
            'clastic.middleware.cookie.SignedCookieMiddleware.request',
            params={'next': nxt, 'request': TObj('Request')},
            cases=[('session', {'self': cookie_self(TConst(VInt(0)))}), ('never', {'self': cookie_self(TConst(VStr('never')))}),
                   ('numeric expiry', {'self': cookie_self(TInt)})],
            ensures=passthrough + ['no_write("response")', 'no_write("data")', 'COOKIE_SAVED_ONCE(result)'],
            exc_ensures=exc_pass, may_raise_any=True, returns=TObj(), prop=['C15', 'C16']),
            key='clastic.middleware.cookie.SignedCookieMiddleware.request#' + kind)

    @E.spec('ARG_PRESENT')
    def ARG_PRESENT(I, ctx, request, name):
        from pyvc.interp import truthy
        args = E.read_typed_attr(ctx, 'Request.args', TObj('Args'), request.z)
        return VBool(truthy(Z.func('ARGS_GET', Z.Obj, Z.Str, Z.Obj)(args.z, name.z)))

    # the cookie object: a dict-like whose save_cookie(response, ...) only adds a Set-Cookie header
    def load_cookie(I, ctx, ctype, request, key=None, secret_key=None):
        c = ctx.new_obj('cookie', distinct=False)
        ctx.trace.append(('load_cookie', ctype, request, key, secret_key))
        return VObj(c, 'Cookie')

    def cookie_save(I, ctx, cookie, response, **kw):
        ctx.trace.append(('save_cookie', cookie, response, kw))
        return NONE

    def cookie_contains(I, ctx, cookie, key):
        return VBool(Z.func('COOKIE_HAS', Z.Obj, Z.Obj, Z.Bool)(cookie.z, box(key, ctx)))

    def cookie_getitem(I, ctx, cookie, key):
        return VObj(Z.func('COOKIE_GET', Z.Obj, Z.Obj, Z.Obj)(cookie.z, box(key, ctx)))

    E.add_opaque(OpaqueClass('CookieType', methods={'load_cookie': load_cookie}, truthy=True))
    def cookie_setitem(I, ctx, cookie, key, val):
        ctx.trace.append(('cookie_set', cookie, key, val))
        return NONE

    E.add_opaque(OpaqueClass('Cookie', methods={'save_cookie': cookie_save, '__getitem__': cookie_getitem,
                                                '__contains__': cookie_contains, '__setitem__': cookie_setitem},
                             truthy=None))

    @E.spec('COOKIE_SAVED_ONCE')
    def COOKIE_SAVED_ONCE(I, ctx, result):
        evs = [e for e in ctx.trace if e[0] == 'save_cookie']
        loads = [e for e in ctx.trace if e[0] == 'load_cookie']
        if len(evs) != 1 or len(loads) != 1:
            return VBool(False)
        return VBool(z3.And(evs[0][2].z == box(I.resolve(ctx, result), ctx), evs[0][1].z == ctx_cookie(ctx).z))

    def ctx_cookie(ctx):
        for e in ctx.trace:
            if e[0] == 'load_cookie':
                pass
        calls = [e for e in ctx.trace if e[0] == 'save_cookie']
        return calls[0][1]


TAny_ = TObj()
