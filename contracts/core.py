"""Sidecar contracts for clastic/middleware/core.py."""
import z3
from pyvc import z as Z
from pyvc.values import *   # noqa
from pyvc.engine import Contract, OpaqueClass
from pyvc.loops import LoopSpec
from pyvc import models as M
from specs.sig import *   # noqa
from specs import chain as chainspec
from contracts.sinter import TFunc

DEPENDS = ("sinter",)

# a middleware's request/endpoint/render attribute: None or a callable
TMaybeFunc = TObj('MaybeFunc', inv=lambda f: z3.Or(f == Z.NONE, sig_facts(f)))
MW_TY = Z.func('type_obj', Z.Obj, Z.Obj)      # type(mw), the engine's model of type()


def mw_eq(ctx, a, b):
    return MW_TY(a.z) == MW_TY(b.z)


def mw_ne(ctx, a, b):
    return MW_TY(a.z) != MW_TY(b.z)


TMW = TObj('MW', inv=lambda m: m != Z.NONE)

SeqN = Z.SeqSort(NamesSort)
_ps = z3.Const('un!ps', SeqN)
_i = z3.Int('un!i')
UnionNamesF = z3.RecFunction('UnionNames', SeqN, Z.Int, Z.SetSort(Z.Str))
z3.RecAddDefinition(UnionNamesF, [_ps, _i],
                    z3.If(_i <= 0, Z.empty_set(Z.Str),
                          z3.SetUnion(UnionNamesF(_ps, _i - 1), nset(_ps[_i - 1]))))

PR_EP = Z.func('PR_EP', Z.Obj, Z.Obj)
PR_RN = Z.func('PR_RN', Z.Obj, Z.Obj)
PR_EPARGS = Z.func('PR_EPARGS', Z.Obj, Z.SetSort(Z.Str))
PR_RNARGS = Z.func('PR_RNARGS', Z.Obj, Z.SetSort(Z.Str))


def register(E):
    E.add_opaque(OpaqueClass('MaybeFunc', truthy=True, callable_=True))
    E.add_opaque(OpaqueClass('MW', closed=False, truthy=True, eq=mw_eq, ne=mw_ne, attrs={
        'request': TMaybeFunc, 'endpoint': TMaybeFunc, 'render': TMaybeFunc,
        'provides': TNames, 'endpoint_provides': TNames, 'render_provides': TNames,
        'unique': TBool, 'reorderable': TBool, 'name': TStr}))

    @E.spec('UnionNames')
    def UnionNames(I, ctx, ps):
        q = I._as_seq(ctx, I.resolve(ctx, ps), TNames)
        return VSet(UnionNamesF(q[0], z3.Length(q[0])), TStr)

    def from_iterable_model(I, ctx, it):
        it = I.resolve(ctx, it)
        q = I._as_seq(ctx, it, TNames)
        if q is None or q[1].zsort != NamesSort:
            raise Exception('chain.from_iterable model: %r' % (it,))
        return VSet(UnionNamesF(q[0], z3.Length(q[0])), TStr)

    E.externals['itertools.chain.from_iterable'] = from_iterable_model

    def create_request_inner_model(I, ctx, endpoint, render, all_args, endpoint_args, render_args):
        pr = ctx.new_obj('process_request', distinct=False)
        aset = M.iterable_as_set(I, ctx, all_args)[0]
        ctx.assume(sig_facts(pr))
        ctx.assume(ARGN(pr) == aset)
        ctx.assume(DEF(pr) == Z.empty_set(Z.Str))
        ctx.assume(Z.Not(VARKW(pr)))
        ctx.assume(PR_EP(pr) == endpoint.z)
        ctx.assume(PR_RN(pr) == render.z)
        ctx.assume(PR_EPARGS(pr) == M.iterable_as_set(I, ctx, endpoint_args)[0])
        ctx.assume(PR_RNARGS(pr) == M.iterable_as_set(I, ctx, render_args)[0])
        return VObj(pr, 'Func')

    E.add_contract(Contract('clastic.middleware.core._create_request_inner', trusted=True,
                            model=create_request_inner_model,
                            note='A-exec: process_request is compiled from _REQ_INNER_TMPL; summary (parameters = '
                                 'all_args, calls endpoint(**endpoint_args) then render(**render_args)) validated '
                                 'by the template obligations (T) and bounded/chain_text.py'))

    # ---- make_middleware_chain ------------------------------------------------------
    REQF = '[mw.request for mw in middlewares if mw.request]'
    REQP = '[mw.provides for mw in middlewares if mw.request]'
    EPF = '[mw.endpoint for mw in middlewares if mw.endpoint]'
    EPP = '[mw.endpoint_provides for mw in middlewares if mw.endpoint]'
    RNF = '[mw.render for mw in middlewares if mw.render]'
    RNP = '[mw.render_provides for mw in middlewares if mw.render]'
    REQ_AVAIL = '(set(preprovided) - set(["next", "context"]))'
    EP_AVAIL = '(%s | UnionNames(%s))' % (REQ_AVAIL, REQP)
    RN_AVAIL = '(%s | set(["context"]))' % EP_AVAIL

    def reqs(F, P, last):
        return 'Req(%s + [%s], %s + [()], "next", len(%s) + 1)' % (F, last, P, F)

    def opts(F, last):
        return 'Opt(%s + [%s], len(%s) + 1)' % (F, last, F)

    EP_UNRES = '(%s - %s)' % (reqs(EPF, EPP, 'endpoint'), EP_AVAIL)
    RN_UNRES = '(%s - %s)' % (reqs(RNF, RNP, 'render'), RN_AVAIL)
    EP_ARGS = '(%s | (%s & %s))' % (reqs(EPF, EPP, 'endpoint'), EP_AVAIL, opts(EPF, 'endpoint'))
    RN_ARGS = '(%s | (%s & %s))' % (reqs(RNF, RNP, 'render'), RN_AVAIL, opts(RNF, 'render'))
    REQ_ARGS = '((%s | %s) - set(["context"]))' % (EP_ARGS, RN_ARGS)
    E.chain_texts = dict(REQF=REQF, REQP=REQP, EPF=EPF, EPP=EPP, RNF=RNF, RNP=RNP, REQ_AVAIL=REQ_AVAIL,
                         EP_AVAIL=EP_AVAIL, RN_AVAIL=RN_AVAIL, EP_UNRES=EP_UNRES, RN_UNRES=RN_UNRES,
                         EP_ARGS=EP_ARGS, RN_ARGS=RN_ARGS, REQ_ARGS=REQ_ARGS)

    # the last function of the request chain is process_request
    PRQ = 'chain_last(result)'
    REQ_REQS_POST = 'Req(%s + [chain_last(result)], %s + [()], "next", len(%s) + 1)' % (REQF, REQP, REQF)

    E.add_contract(Contract(
        'clastic.middleware.core.make_middleware_chain',
        params={'middlewares': TSeq(TMW), 'endpoint': TFunc, 'render': TFunc, 'preprovided': TMSet(TStr)},
        ensures=[
            '"next" not in ARGNAMES(endpoint)',
            '"next" not in ARGNAMES(render)',
            '%s == set()' % EP_UNRES,
            '%s == set()' % RN_UNRES,
            # the request chain: request middlewares in list order, then process_request
            'chain_init(result) == %s' % REQF,
            'len(chain_funcs(result)) == len(%s) + 1' % REQF,
            'ARGNAMES(%s) == %s' % (PRQ, REQ_ARGS),
            'DEFNAMES(%s) == set()' % PRQ,
            'chain_params(result)[1:] == %s' % REQP,
            # every required parameter of the request chain is available
            '%s - %s == set()' % (REQ_REQS_POST, REQ_AVAIL),
            'ARGNAMES(result) == %s | (%s & Opt(%s + [chain_last(result)], len(%s) + 1))' % (REQ_REQS_POST, REQ_AVAIL, REQF, REQF),
            'PR_EP_FUNCS(%s) == %s + [endpoint]' % (PRQ, EPF),
            'PR_RN_FUNCS(%s) == %s + [render]' % (PRQ, RNF),
            'PR_EPARGS(%s) == %s' % (PRQ, EP_ARGS),
            'PR_RNARGS(%s) == %s' % (PRQ, RN_ARGS),
        ],
        raises={'builtins.NameError': None},
        raises_local={'builtins.NameError':
                      '"next" in ARGNAMES(endpoint) or "next" in ARGNAMES(render) or %s != set() or %s != set() '
                      'or RAISE_REQ_UNRES()' % (EP_UNRES, RN_UNRES)},
        returns=TFunc,
        prop=['C01', 'C03', 'C04']))

    register_checks(E)
    register_merge(E)
    CH_FUNCS = E.ghost['CH_FUNCS']

    @E.spec('PR_EP_FUNCS')
    def PR_EP_FUNCS(I, ctx, pr):
        return VSeq(CH_FUNCS(PR_EP(pr.z)), TFunc)

    @E.spec('PR_RN_FUNCS')
    def PR_RN_FUNCS(I, ctx, pr):
        return VSeq(CH_FUNCS(PR_RN(pr.z)), TFunc)

    @E.spec('PR_EPARGS')
    def PR_EPARGS_(I, ctx, pr):
        return VSet(PR_EPARGS(pr.z), TStr)

    @E.spec('PR_RNARGS')
    def PR_RNARGS_(I, ctx, pr):
        return VSet(PR_RNARGS(pr.z), TStr)

    @E.spec('RAISE_REQ_UNRES')
    def RAISE_REQ_UNRES(I, ctx):
        """At the third raise site: the request chain's unresolved set, as
        computed from the locals at the raise, is non-empty and is exactly
        Req(request funcs + [process_request]) - req_avail."""
        fr = ctx.raise_frame
        loc = fr.locals
        if 'req_unres' not in loc or 'req_func' not in loc:
            return VBool(False)
        unres = M.iterable_as_set(I, ctx, loc['req_unres'])[0]
        sfr = E.spec_frame(fr, {})
        want = E.eval_spec(ctx, sfr, 'set(req_unres) == Req(list(req_funcs) + [req_func], list(req_provides) + [()], '
                                     '"next", len(req_funcs) + 1) - req_avail')
        return VBool(z3.And(unres != Z.empty_set(Z.Str), want))


def _b2i(b):
    return z3.If(b, z3.IntVal(1), z3.IntVal(0))


_HP = Z.const('H0:MW.provides', z3.ArraySort(Z.Obj, NamesSort))
_HEP = Z.const('H0:MW.endpoint_provides', z3.ArraySort(Z.Obj, NamesSort))
_HRP = Z.const('H0:MW.render_provides', z3.ArraySort(Z.Obj, NamesSort))
_HREQ = Z.const('H0:MW.request', z3.ArraySort(Z.Obj, Z.Obj))
_HEPF = Z.const('H0:MW.endpoint', z3.ArraySort(Z.Obj, Z.Obj))
_HRNF = Z.const('H0:MW.render', z3.ArraySort(Z.Obj, Z.Obj))
_n = z3.Const('cnt!n', Z.Str)
_ms = z3.Const('cnt!ms', Z.SeqSort(Z.Obj))
_ci = z3.Int('cnt!i')
CNTM = z3.RecFunction('CNTM', Z.Str, Z.SeqSort(Z.Obj), Z.Int, Z.Int)
_m = _ms[_ci - 1]
z3.RecAddDefinition(CNTM, [_n, _ms, _ci],
                    z3.If(_ci <= 0, z3.IntVal(0),
                          CNTM(_n, _ms, _ci - 1)
                          + _b2i(z3.IsMember(_n, nset(z3.Select(_HP, _m))))
                          + _b2i(z3.IsMember(_n, nset(z3.Select(_HEP, _m))))
                          + _b2i(z3.IsMember(_n, nset(z3.Select(_HRP, _m))))))


def badmw_z(m):
    def bad(f):
        return z3.And(f != Z.NONE, z3.Or(ARGN(f) == Z.empty_set(Z.Str), nfirst(ARGNSEQ(f)) != z3.StringVal('next')))
    return z3.Or(bad(z3.Select(_HREQ, m)), bad(z3.Select(_HEPF, m)), bad(z3.Select(_HRNF, m)))


def register_checks(E):
    @E.spec('BADMW')
    def BADMW(I, ctx, mw):
        return VBool(badmw_z(mw.z))

    @E.spec('CNTM')
    def CNTM_(I, ctx, n, mws, i):
        q = I._as_seq(ctx, I.resolve(ctx, mws), TMW)
        return VInt(CNTM(n.z, q[0], TInt.to_z(i)))

    @E.spec('CNT3')
    def CNT3(I, ctx, n, args_dict):
        d = I.resolve(ctx, args_dict)
        if isinstance(d, VNone):
            return VInt(0)
        h = ctx.heap[d.rid]
        tot = z3.IntVal(0)
        for k, v in h.conc.items():
            sz = M.iterable_as_set(I, ctx, v)[0]
            tot = tot + _b2i(z3.IsMember(n.z, sz))
        return VInt(tot)

    E.add_contract(Contract(
        'clastic.middleware.core.check_middleware',
        params={'mw': TMW},
        ensures=['not BADMW(mw)'],
        raises={'builtins.TypeError': None, 'builtins.IndexError': None},
        raises_only_if={'builtins.TypeError': 'BADMW(mw)', 'builtins.IndexError': 'BADMW(mw)'},
        prop=['C04']))

    def three_sets(E_, ctx, name):
        conc = {}
        for k in ('url', 'builtins', 'resources'):
            conc[k] = ctx.alloc(HSet(Z.fresh('src_' + k, Z.SetSort(Z.Str)), TStr))
        return ctx.alloc(HDict(conc=conc))

    SLOT_INV = ['forall_str(lambda n: len(provided_by[n]) == len(at_entry(provided_by)[n]) + (1 if n in _done else 0))',
                'forall_str(lambda n: implies(len(provided_by[n]) > 0, n in provided_by))']
    TOTAL = 'CNT3(n, args_dict) + CNTM(n, middlewares, %s)'
    inner = LoopSpec(inv=SLOT_INV, modifies=['provided_by'])
    E.add_contract(Contract(
        'clastic.middleware.core.check_middlewares',
        params={'middlewares': TSeq(TMW)},
        cases=[('no sources', {'args_dict': TConst(NONE)}), ('url/builtins/resources', {'args_dict': three_sets})],
        loops={('arg_name', 'arg_list'): inner,
               ('arg', 'mw.provides'): inner, ('arg', 'mw.endpoint_provides'): inner,
               ('arg', 'mw.render_provides'): inner,
               ('mw', 'middlewares'): LoopSpec(
                   inv=['forall_str(lambda n: len(provided_by[n]) == %s)' % (TOTAL % '_i'),
                        'forall_str(lambda n: implies(len(provided_by[n]) > 0, n in provided_by))',
                        'forall_int(0, _i, lambda j: not BADMW(middlewares[j]))'],
                   modifies=['provided_by'])},
        ensures=['forall_str(lambda n: %s <= 1)' % (TOTAL % 'len(middlewares)'),
                 'forall_int(0, len(middlewares), lambda j: not BADMW(middlewares[j]))',
                 'result == True'],
        raises={'builtins.NameError': None, 'builtins.TypeError': None, 'builtins.IndexError': None},
        raises_only_if={'builtins.NameError': 'exists_str(lambda n: %s > 1)' % (TOTAL % 'len(middlewares)'),
                        'builtins.TypeError': 'not forall_int(0, len(middlewares), lambda j: not BADMW(middlewares[j]))',
                        'builtins.IndexError': 'not forall_int(0, len(middlewares), lambda j: not BADMW(middlewares[j]))'},
        returns=TBool,
        prop=['C04']))


# ---- merge_middlewares (C03, C10, C13) ------------------------------------------------
_HU = Z.const('H0:MW.unique', z3.ArraySort(Z.Obj, Z.Bool))
_HR = Z.const('H0:MW.reorderable', z3.ArraySort(Z.Obj, Z.Bool))
SeqO = Z.SeqSort(Z.Obj)
_s = z3.Const('mm!s', SeqO)
_t = z3.Const('mm!t', Z.Obj)
HASTY = z3.RecFunction('HASTY', SeqO, Z.Obj, Z.Bool)
z3.RecAddDefinition(HASTY, [_s, _t],
                    z3.If(z3.Length(_s) <= 0, z3.BoolVal(False),
                          z3.Or(HASTY(z3.Extract(_s, 0, z3.Length(_s) - 1), _t),
                                MW_TY(_s[z3.Length(_s) - 1]) == _t)))
_old = z3.Const('mm!old', SeqO)
_new = z3.Const('mm!new', SeqO)
_mi = z3.Int('mm!i')
MERGE = z3.RecFunction('MERGE', SeqO, SeqO, Z.Int, SeqO)
_cur = _old[_mi - 1]
_prev = MERGE(_old, _new, _mi - 1)
_dup = z3.And(z3.Select(_HU, _cur), HASTY(_prev, MW_TY(_cur)))
z3.RecAddDefinition(MERGE, [_old, _new, _mi],
                    z3.If(_mi <= 0, _new, z3.If(_dup, _prev, z3.Concat(_prev, z3.Unit(_cur)))))
BADMERGE = z3.RecFunction('BADMERGE', SeqO, SeqO, Z.Int, Z.Bool)
z3.RecAddDefinition(BADMERGE, [_old, _new, _mi],
                    z3.If(_mi <= 0, z3.BoolVal(False),
                          z3.Or(BADMERGE(_old, _new, _mi - 1),
                                z3.And(_dup, z3.Not(z3.Select(_HR, _cur))))))


def mw_contains(ctx, seqz, x):
    return HASTY(seqz, MW_TY(x.z))


def register_merge(E):
    E.opaque['MW'].contains = mw_contains

    def sq(I, ctx, v):
        return I._as_seq(ctx, I.resolve(ctx, v), TMW)[0]

    @E.spec('MERGE')
    def MERGE_(I, ctx, old, new, i):
        return VSeq(MERGE(sq(I, ctx, old), sq(I, ctx, new), TInt.to_z(i)), TMW)

    @E.spec('BADMERGE')
    def BADMERGE_(I, ctx, old, new, i):
        return VBool(BADMERGE(sq(I, ctx, old), sq(I, ctx, new), TInt.to_z(i)))

    E.add_contract(Contract(
        'clastic.middleware.core.merge_middlewares',
        params={'old': TSeq(TMW), 'new': TSeq(TMW)},
        loops={('mw', 'old'): LoopSpec(inv=['merged == MERGE(at_entry(old), new, _i)',
                                            'not BADMERGE(at_entry(old), new, _i)'],
                                       modifies=['merged'])},
        ensures=['result == MERGE(old, new, len(old))', 'not BADMERGE(old, new, len(old))'],
        raises={'builtins.ValueError': None},
        raises_local={'builtins.ValueError': 'BADMERGE(old, new, _i + 1)'},
        returns=TList(TMW),
        prop=['C03', 'C10', 'C13']))

    E.add_contract(Contract(
        'clastic.middleware.core.Middleware.__eq__',
        params={'self': TMW, 'other': TMW},
        ensures=['result == MW_SAME_TYPE(self, other)'], returns=TBool, prop=['C03']))
    E.add_contract(Contract(
        'clastic.middleware.core.Middleware.__ne__',
        params={'self': TMW, 'other': TMW},
        ensures=['result == (not MW_SAME_TYPE(self, other))'], returns=TBool, prop=['C03']))

    @E.spec('MW_SAME_TYPE')
    def MW_SAME_TYPE(I, ctx, a, b):
        return VBool(MW_TY(a.z) == MW_TY(b.z))
