"""Confinement frames on the request path (C12): for every function a request passes through,
every store goes into an object created during this call, into the per-request request
object, or into the response/error object being produced -- never into the Application, a
bound route, the error handler or any other object that existed before the call."""
import copy
import z3
from pyvc import z as Z
from pyvc.values import *   # noqa
from pyvc.engine import Contract, OpaqueClass
from pyvc.state import SHAREDP

DEPENDS = ('std', 'application', 'wsgi', 'sinter', 'route')

TARGETS = []


def framed(E, key, frame, note=''):
    base = E.contracts[key]
    c = copy.copy(base)
    c.frame = frame
    c.ensures = []
    c.exc_ensures = []
    c.at_call = {}
    c.raises_local = {}
    c.raises_only_if = {}
    c.raises_ensures = {}
    c.trusted = False
    if c.raises or c.may_raise_any:
        c.may_raise_any = True          # the frame is checked on every exit; which exceptions escape is C08's business
        c.raises = {}
    c.prop = ['C12']
    c.note = note or 'confinement frame over the body verified for other properties'
    nk = key.split('#')[0] + '#C12'
    E.add_contract(c, key=nk)
    TARGETS.append(nk)
    return c


def build(E):
    """called by props/C12 once the #verify contracts of C02/C05/C07 are registered"""
    del TARGETS[:]
    app_shared = ['self.routes', 'self._null_route', 'self.error_handler', 'self.middlewares']
    # objects user code / the error handler produce for THIS request are not shared (stated assumption)
    c = framed(E, 'clastic.application.Application.dispatch', {'shared': app_shared, 'private': ['request']})
    # the errors collected so far, and the current candidate result, are objects of this request
    lp = copy.copy(E.dispatch_loop)
    lp.inv = list(lp.inv) + ['len(dispatch_state.exceptions) == 0 or NOT_SHARED(dispatch_state.exceptions[-1])',
                             'ret is None or NOT_SHARED(ret)']
    lp.post = list(lp.post) + ['ret is None or NOT_SHARED(ret)']
    c.loops = dict((k, (lp if v is E.dispatch_loop else v)) for k, v in c.loops.items())
    c = framed(E, 'clastic.application.Application._dispatch_wsgi', {'shared': app_shared})
    # request identifiers: the id stored on the request is the value drawn from the one process-wide counter
    c.ensures = ['REQUEST_ID_FROM_PROCESS_COUNTER()']

    def next_process_counter(I, ctx, it, node=None):
        r = VInt(Z.fresh('req_id', Z.Int))
        ctx.trace.append(('next-id', it, r))
        return r
    E.externals['next:modobj:clastic.application._REQ_ID_ITER'] = next_process_counter

    @E.spec('REQUEST_ID_FROM_PROCESS_COUNTER')
    def REQUEST_ID_FROM_PROCESS_COUNTER(I, ctx):
        evs = [e for e in ctx.trace if e[0] == 'next-id']
        vals = [v for (_, k, v) in getattr(ctx, 'write_values', []) if k.split('.')[-1] == 'request_id']
        if len(evs) != 1 or len(vals) != 1:
            return VBool(False)
        return VBool(vals[0] == box(evs[0][2], ctx))
    framed(E, 'clastic.route.BoundRoute.execute#verify', {'shared': ['self.bound_apps'], 'private': ['request']})
    framed(E, 'clastic.route.BoundRoute.execute_error#verify', {'shared': ['self.bound_apps'], 'private': ['request', '_error']})
    framed(E, 'clastic.sinter.inject', {})
    framed(E, 'clastic.route.BoundRoute.match_method', {})
    framed(E, 'clastic.route.NullRoute.handle_sentinel_condition',
           {'shared': ['_application', '_route'], 'private': ['request', '_dispatch_state']})
    framed(E, 'clastic.route.normalize_path#verify', {})
    framed(E, 'clastic.route.BoundRoute.match_path#verify', {'shared': ['self.regex']})
    # DispatchState: its methods store into the dispatch state itself (allocated per request by dispatch)
    TDS = E.contracts['clastic.route.NullRoute.handle_sentinel_condition'].params['_dispatch_state']
    for m, params in (('add_exception', {'self': TDS, 'exception': TObj()}),
                      ('update_methods', {'self': TDS, 'methods': TOpt(TSet(TStr))})):
        k = 'clastic.application.DispatchState.%s' % m
        # (keyed apart from the plain name: dispatch itself keeps inlining these two-line methods)
        E.add_contract(Contract(k, params=params, may_raise_any=False, prop=['C12']), key=k + '#base')
        framed(E, k + '#base', {'may_store': ['self']})
