"""Sidecar contracts for clastic/middleware/cookie.py (C16)."""
import z3
from pyvc import z as Z
from pyvc.values import *   # noqa
from pyvc.engine import Contract, OpaqueClass
from pyvc import models as M
from pyvc.classes import cls_of, issub
from pyvc.state import RaiseSig

DEPENDS = ('std', 'application', 'builtin_mw')

DUMPS = Z.func('json_dumps', Z.Obj, Z.Str)
LOADS = Z.func('json_loads', Z.Str, Z.Obj)
B64 = Z.func('b64encode', Z.Str, Z.Str)
B64DEC = Z.func('b64decode', Z.Str, Z.Str)
ENC = Z.func('str_encode', Z.Str, Z.Str)
DEC = Z.func('bytes_decode', Z.Str, Z.Str)
JSONABLE = Z.func('JSON_COMPATIBLE', Z.Obj, Z.Bool)
_v = z3.Const('ck!v', Z.Obj)
_b = z3.Const('ck!b', Z.Str)
Z.AXIOMS.add('A-json: loads(dumps(v)) == v for JSON-compatible v',
             z3.ForAll([_v], z3.Implies(JSONABLE(_v), LOADS(DUMPS(_v)) == _v), patterns=[DUMPS(_v)]))
Z.AXIOMS.add('A-json: b64decode(b64encode(b)) == b; the base64 alphabet has no line breaks or blanks',
             z3.ForAll([_b], z3.And(B64DEC(B64(_b)) == _b,
                                    Z.func('str_splitlines', Z.Str, Z.SeqSort(Z.Str))(B64(_b)) == z3.Unit(B64(_b)),
                                    Z.func('str_strip', Z.Str, Z.Str)(B64(_b)) == B64(_b)), patterns=[B64(_b)]))
from pyvc import strs as _strs
_x = z3.Const('ck!x', Z.Str)
_sp = z3.Const('ck!sep', Z.Str)
Z.AXIOMS.add('A-str: join(sep, [x]) == x',
             z3.ForAll([_sp, _x], _strs.join_fn(_sp, z3.Unit(_x)) == _x, patterns=[_strs.join_fn(_sp, z3.Unit(_x))]))
Z.AXIOMS.add('A-json: utf-8 decode(encode(s)) == s',
             z3.ForAll([_b], DEC(ENC(_b)) == _b, patterns=[ENC(_b)]))


def register(E):
    I = E.interp

    def dumps_model(I, ctx, v, *a, **kw):
        vz = box(I.resolve(ctx, v), ctx)
        if not ctx.branch(JSONABLE(vz)):
            I.raise_exc(ctx, 'TypeError', 'not JSON serializable', None)
        return VStr(DUMPS(vz))

    def loads_model(I, ctx, s, *a, **kw):
        s = I.resolve(ctx, s)
        ok = Z.func('json_parsable', Z.Str, Z.Bool)(s.z)
        if not ctx.branch(ok):
            I.raise_exc(ctx, 'ValueError', 'invalid JSON', None)
        return VObj(LOADS(s.z))

    def b64encode_model(I, ctx, b, *a):
        return VBytes(B64(b.z))

    def b64decode_model(I, ctx, b, *a, **kw):
        b = I.resolve(ctx, b)
        if not isinstance(b, (VBytes, VStr)):
            I.raise_exc(ctx, 'TypeError', 'bytes-like object required', None)
        ok = Z.func('b64_wellformed', Z.Str, Z.Bool)(b.z)
        if not ctx.branch(ok):
            I.raise_exc(ctx, 'ValueError', 'Incorrect padding', None)      # binascii.Error is a ValueError
        return VBytes(B64DEC(b.z))

    E.externals.update({'json.dumps': dumps_model, 'json.loads': loads_model,
                        'base64.b64encode': b64encode_model, 'base64.b64decode': b64decode_model})
    # cls.serialization_method is the json module
    E.add_opaque(OpaqueClass('JsonModule', methods={'dumps': lambda I, ctx, m, v, *a, **kw: dumps_model(I, ctx, v),
                                                    'loads': lambda I, ctx, m, s, *a, **kw: loads_model(I, ctx, s)},
                             truthy=True))

    TCls = TInst('builtins.type', {'serialization_method': TObj('JsonModule', inv=lambda m: m != Z.NONE)})

    @E.spec('JSONABLE')
    def JSONABLE_(I, ctx, v):
        return VBool(JSONABLE(box(I.resolve(ctx, v), ctx)))

    @E.spec('UNQUOTE_OF_QUOTE')
    def UNQUOTE_OF_QUOTE(I, ctx, quoted, value):
        """decoding what quote() produced gives the value back (round trip over A-json)"""
        q = quoted.z
        return VBool(LOADS(DEC(B64DEC(q))) == box(I.resolve(ctx, value), ctx))

    E.add_contract(Contract(
        'clastic.middleware.cookie.JSONCookie.quote',
        params={'cls': TCls, 'value': TObj()},
        requires=['JSONABLE(value)'],
        ensures=['UNQUOTE_OF_QUOTE(result, value)'],
        returns=TBytes, prop=['C16']))
    E.add_contract(Contract(
        'clastic.middleware.cookie.JSONCookie.unquote',
        params={'cls': TCls, 'value': TBytes},
        raises={'secure_cookie.cookie.UnquoteError': None},
        returns=TObj(), prop=['C16'],
        note='malformed payloads raise UnquoteError only (which the parent turns into an empty cookie)'))

    # the parent's unserialize (dependency, assumed contract A-sc; witnesses executed natively):
    # items kept only under a valid MAC, else empty -- and it MAY RAISE ValueError subclasses
    # (binascii.Error for 'a?b', UnicodeDecodeError for non-ASCII keys)
    VALID = Z.func('VALID_MAC', Z.Str, Z.Obj, Z.Bool)
    EMPTY = Z.func('COOKIE_EMPTY', Z.Obj, Z.Bool)

    def parent_unserialize(I, ctx, cls_, string, secret_key):
        if ctx.nondet(2, 'SecureCookie.unserialize raises') == 1:
            raise RaiseSig(I.make_exc(ctx, 'builtins.ValueError', [VStr('binascii.Error / UnicodeDecodeError')]), None)
        c = ctx.new_obj('cookie', distinct=False)
        ctx.assume(z3.Implies(z3.Not(VALID(string.z, box(secret_key, ctx))), EMPTY(c)))
        ctx.assume(Z.func('UNSERIALIZED_FROM', Z.Obj, Z.Str)(c) == string.z)
        return VObj(c, 'Cookie')

    E.externals['secure_cookie.cookie.SecureCookie.unserialize'] = parent_unserialize

    def cookie_ctor(I, ctx, cv, args, kwargs, node, star):
        c = ctx.new_obj('cookie', distinct=False)
        data = I.resolve(ctx, args[0]) if args else NONE
        if isinstance(data, VNone) or (isinstance(data, VTuple) and not data.items):
            ctx.assume(EMPTY(c))
        return VObj(c, 'Cookie')

    E.externals['new:clastic.middleware.cookie.JSONCookie'] = cookie_ctor

    @E.spec('EMPTY_UNLESS_VALID')
    def EMPTY_UNLESS_VALID(I, ctx, result, string, key):
        stripped = Z.func('str_strip_chars', Z.Str, Z.Str, Z.Str)(string.z, z3.StringVal('"'))
        r = I.resolve(ctx, result)
        if not isinstance(r, VObj):
            return VBool(False)
        return VBool(z3.Implies(z3.Not(VALID(stripped, box(key, ctx))), EMPTY(r.z)))

    E.add_contract(Contract(
        'clastic.middleware.cookie.JSONCookie.unserialize',
        params={'cls': lambda E_, ctx, n: E_.class_value('clastic.middleware.cookie.JSONCookie'),
                'string': TStr, 'secret_key': TObj()},
        # from the statement: any cookie value whatsoever gives a cookie object, never an error,
        # and it is empty unless the signature is valid
        ensures=['EMPTY_UNLESS_VALID(result, old(string), secret_key)'],
        returns=TObj('Cookie'), prop=['C16']))
