"""Sidecar contracts for the WSGI surface of clastic/application.py (C13)."""
import z3
from pyvc import z as Z
from pyvc.values import *   # noqa
from pyvc.values import unbox_int
from pyvc.engine import Contract, OpaqueClass
from pyvc.loops import LoopSpec
from pyvc import models as M
from pyvc.classes import cls_of, issub
from pyvc.state import RaiseSig, Unsupported
from pyvc.interp import is_callable
from specs.sig import *   # noqa

DEPENDS = ('std', 'application', 'static')

BR_CLS = 'werkzeug.wrappers.base_response.BaseResponse'
RR_CLS = 'clastic.application.RerouteWSGI'

REQ_ENV = Z.func('REQ_ENVIRON', Z.Obj, Z.Obj)          # the environ a request object was built from
DISP_RET = Z.func('DISPATCH_RET', Z.Obj, Z.Obj)        # dispatch's result for a request
DISP_RR = Z.func('DISPATCH_REROUTE', Z.Obj, Z.Obj)     # the RerouteWSGI raised by dispatch for a request
WSGI_APP = Z.const('H0:*.wsgi_app', z3.ArraySort(Z.Obj, Z.Obj))


def register(E):
    I = E.interp
    C = E.classes

    def isinst(o, cls):
        return issub(cls_of(o), C.const(cls))

    # ---- dependencies (assumed; listed in the evidence) -----------------------------------------
    def request_ctor(I, ctx, environ, *a, **kw):
        r = ctx.new_obj('request', distinct=False)
        ctx.assume(r != Z.NONE)
        ctx.assume(REQ_ENV(r) == box(environ, ctx))
        from pyvc.state import SHAREDP
        ctx.assume(z3.Not(SHAREDP(r)))       # a request object built in this call belongs to this request
        return VObj(r, 'Request')
    for nm in ('werkzeug.wrappers.Request', 'werkzeug.wrappers.request.Request', 'clastic.application.Request'):
        E.externals[nm] = request_ctor

    def next_req_id(I, ctx, it, *a):
        return VInt(Z.fresh('req_id', Z.Int))
    E.externals['next:itertools.count'] = next_req_id

    def int2hexguid_model(I, ctx, n):
        n = I.resolve(ctx, n)
        nz = unbox_int(Z.simp(n.z)) if isinstance(n, VObj) else TInt.to_z(n)      # read back from an attribute: boxed
        return VStr(Z.func('int2hexguid', Z.Int, Z.Str)(nz))
    E.add_contract(Contract('clastic.utils.int2hexguid', trusted=True, model=int2hexguid_model,
                            note='call-site summary: a pure function of the integer id (sha1 hexdigest prefix); never raises'))

    def dispatch_model(I, ctx, app, request):
        """Call-site summary of Application.dispatch = its verified contract (C08): a BaseResponse
        instance, or a RerouteWSGI, or -- only with a re-raising error handler -- any exception."""
        k = ctx.nondet(3, 'dispatch outcome')
        rq = box(I.resolve(ctx, request), ctx)
        if k == 1:
            e = DISP_RR(rq)
            ctx.assume(e != Z.NONE)
            ctx.assume(isinst(e, RR_CLS))
            ctx.assume(Z.func('hasattr:wsgi_app', Z.Obj, Z.Bool)(e))      # attrs class: the field always exists
            ctx.assume(is_callable(z3.Select(WSGI_APP, e)))                # precondition on the user: a WSGI callable
            raise RaiseSig(VObj(e), None)
        if k == 2:
            e = ctx.new_obj('exc', distinct=False)
            ctx.assume(issub(cls_of(e), C.const('builtins.Exception')))
            ctx.assume(z3.Not(isinst(e, RR_CLS)))
            raise RaiseSig(VObj(e), None)
        r = DISP_RET(rq)
        ctx.assume(r != Z.NONE)
        ctx.assume(isinst(r, BR_CLS))
        ctx.assume(is_callable(r))          # A-wz-resp: BaseResponse instances are WSGI callables
        return VObj(r, 'Response')
    E.contracts['clastic.application.Application.dispatch'].model = dispatch_model

    @E.spec('DISPATCH_RET')
    def DISPATCH_RET_(I, ctx, request):
        return VObj(DISP_RET(box(I.resolve(ctx, request), ctx)))

    @E.spec('REROUTE_TARGET')
    def REROUTE_TARGET(I, ctx, request):
        return VObj(z3.Select(WSGI_APP, DISP_RR(box(I.resolve(ctx, request), ctx))))

    @E.spec('the_request')
    def the_request(I, ctx):
        """the one request object built in this call"""
        rs = [e for e in ctx.trace if e[0] == 'new-request']
        return rs[-1][1] if rs else VObj(Z.NONE)

    @E.spec('REQ_ENVIRON')
    def REQ_ENVIRON_(I, ctx, r):
        return VObj(REQ_ENV(box(I.resolve(ctx, r), ctx)))

    @E.spec('untouched')
    def untouched(I, ctx, obj):
        """no item or attribute of that very object was stored into by the code under contract"""
        oz = box(I.resolve(ctx, obj), ctx)
        return VBool(not any(w[0] is not None and w[0].eq(oz) for w in ctx.writes))

    @E.spec('call_fn_request_env_is')
    def call_fn_request_env_is(I, ctx, environ):
        return VBool(True)

    app_t = TInst('clastic.application.Application', E.app_fields)
    E.add_contract(Contract(
        'clastic.application.Application._dispatch_wsgi',
        params={'self': app_t, 'environ': TObj('Environ'), 'start_response': TObj('StartResponse')},
        ensures=[
            # exactly one WSGI callable is invoked, once: the response dispatch returned, or the reroute target
            'ncalls() == 1',
            'call_nargs(0) == 2 and len(call_kw(0)) == 0',
            # ... with the caller's own environ and start_response objects
            'call_arg(0, 0) is environ and call_arg(0, 1) is start_response',
            # ... and what it returns is relayed as is
            'not call_raised(0) and result is call_ret(0)',
            # the request handed to dispatch was built from this environ
            'ndispatch() == 1 and REQ_ENVIRON(dispatched(0)) is environ',
            'call_fn(0) is DISPATCH_RET(dispatched(0)) or call_fn(0) is REROUTE_TARGET(dispatched(0))',
            # clastic itself stores nothing into the environ
            'untouched(environ)',
        ],
        exc_ensures=['ncalls() <= 1', 'untouched(environ)',
                     'RELAYED_FAILURE(_exc, environ, start_response)'],
        may_raise_any=True, returns=TObj(), prop=['C13']))

    @E.spec('RELAYED_FAILURE')
    def RELAYED_FAILURE(I, ctx, exc, environ, start_response):
        """if a WSGI callable was invoked on this (exceptional) path, it got the caller's environ and
        start_response and the exception escaping is the one it raised"""
        calls = [e for e in ctx.trace if e[0] == 'call']
        if not calls:
            return VBool(True)
        ev = calls[0]
        if len(calls) != 1 or ev[5] is None or ev[5][0] != 'exc' or len(ev[2]) != 2 or ev[3] or ev[4] is not None:
            return VBool(False)
        return VBool(Z.And(I.identical(ctx, ev[5][1], exc), I.identical(ctx, ev[2][0], environ),
                           I.identical(ctx, ev[2][1], start_response)))

    @E.spec('ndispatch')
    def ndispatch(I, ctx):
        return VInt(len([e for e in ctx.trace if e[0] == 'dispatch']))

    @E.spec('dispatched')
    def dispatched(I, ctx, i):
        evs = [e for e in ctx.trace if e[0] == 'dispatch']
        return evs[Z.simp(TInt.to_z(i)).as_long()][1]

    # record dispatch calls
    _dm = dispatch_model

    def dispatch_model_rec(I, ctx, app, request):
        ctx.trace.append(('dispatch', I.resolve(ctx, request)))
        return _dm(I, ctx, app, request)
    E.contracts['clastic.application.Application.dispatch'].model = dispatch_model_rec

    if 'Environ' not in E.opaque:       # contracts/static.py models environ.get()
        E.add_opaque(OpaqueClass('Environ', truthy=None))
    register_wrappers(E)
    register_allmw(E)
    E.add_opaque(OpaqueClass('StartResponse', truthy=True, callable_=True))


def register_wrappers(E):
    """check_valid_wsgi, _safe_wrap_wsgi, _get_all_middlewares (C13: wrapper stack)."""
    I = E.interp
    from pyvc.values import nnth, nfirst, nset

    def valid_wsgi_z(f):
        srt = Z.SetSort(Z.Str)
        card = Z.func('card<%s>' % srt, srt, Z.Int)
        return z3.And(is_callable(f), card(ARGN(f)) >= 2, nfirst(ARGNSEQ(f)) == z3.StringVal('environ'),
                      nnth(ARGNSEQ(f), 1) == z3.StringVal('start_response'))

    @E.spec('VALID_WSGI')
    def VALID_WSGI(I, ctx, f):
        """callable whose first two parameter names are environ, start_response"""
        return VBool(valid_wsgi_z(box(I.resolve(ctx, f), ctx)))

    E.add_contract(Contract(
        'clastic.application.check_valid_wsgi',
        params={'wsgi_callable': TObj()},
        ensures=['VALID_WSGI(wsgi_callable)', 'result is None'],
        raises={'builtins.TypeError': 'not VALID_WSGI(wsgi_callable)'},
        returns=TConst(NONE), prop=['C13']))

    WRAPPER = Z.const('H0:*.wsgi_wrapper', z3.ArraySort(Z.Obj, Z.Obj))
    HASW = Z.func('hasattr:wsgi_wrapper', Z.Obj, Z.Bool)

    def wrapper_of(src):
        return z3.If(HASW(src), z3.Select(WRAPPER, src), Z.NONE)

    @E.spec('WRAPPER_OF')
    def WRAPPER_OF(I, ctx, src):
        return VObj(wrapper_of(box(I.resolve(ctx, src), ctx)))

    E.add_contract(Contract(
        'clastic.application._safe_wrap_wsgi',
        params={'source_name': TStr, 'source': TObj(), 'inner': TObj()},
        ensures=[
            # no wrapper: the inner callable itself, nothing called
            'implies(WRAPPER_OF(source) is None, result is inner and ncalls() == 0)',
            # a wrapper: called exactly once, with the inner callable, and its (validated) result returned
            'implies(WRAPPER_OF(source) is not None, ncalls() == 1)',
            'WRAPPED_ONCE(source, inner, result)',
            'implies(WRAPPER_OF(source) is not None, VALID_WSGI(result))'],
        exc_ensures=['ncalls() <= 1'],
        may_raise_any=True, returns=TObj(), prop=['C13'],
        note='raises TypeError for a non-callable wrapper or an invalid result; an exception of the wrapper itself propagates'))

    @E.spec('WRAPPED_ONCE')
    def WRAPPED_ONCE(I, ctx, source, inner, result):
        calls = [e for e in ctx.trace if e[0] == 'call']
        if not calls:
            return VBool(True)
        ev = calls[0]
        if len(calls) != 1 or ev[5] is None or ev[5][0] != 'ret' or len(ev[2]) != 1 or ev[3] or ev[4] is not None:
            return VBool(False)
        sz = box(I.resolve(ctx, source), ctx)
        return VBool(Z.And(box(ev[1], ctx) == wrapper_of(sz), I.identical(ctx, ev[2][0], inner),
                           I.identical(ctx, ev[5][1], result)))


import contracts.core as _core
SeqO = Z.SeqSort(Z.Obj)
_s = z3.Const('nd!s', SeqO)
NODUPTY = z3.RecFunction('NODUPTY', SeqO, Z.Bool)
_n = z3.Length(_s)
# module level: a RecFunction must be defined once per process, not once per engine
z3.RecAddDefinition(NODUPTY, [_s], z3.If(_n <= 1, z3.BoolVal(True),
                                        z3.And(NODUPTY(z3.Extract(_s, 0, _n - 1)),
                                               z3.Not(_core.HASTY(z3.Extract(_s, 0, _n - 1), _core.MW_TY(_s[_n - 1]))))))


def register_allmw(E):
    """_get_all_middlewares: type-duplicate-free; the outermost entry is the first middleware of
    the LAST bound route (routes are scanned in reverse)."""
    import contracts.core as core

    @E.spec('NODUPTY')
    def NODUPTY_(I, ctx, seq):
        q = I._as_seq(ctx, I.resolve(ctx, seq), core.TMW)
        return VBool(NODUPTY(q[0]))

    @E.spec('GHOST_FIRST_MW')
    def GHOST_FIRST_MW(I, ctx):
        m = Z.const('ghost:first_app_middleware', Z.Obj)
        inv = core.TMW.inv(m) if getattr(core.TMW, 'inv', None) else None
        if inv is not None:
            ctx.assume(inv)
        return VObj(m, 'MW')

    inner = LoopSpec(
        ghost={'_acc0': 'all_mw'},
        inv=['NODUPTY(all_mw)', 'len(all_mw) >= len(_acc0)', 'implies(_i == 0, len(all_mw) == len(_acc0))',
             'implies(len(_acc0) > 0, all_mw[0] is _acc0[0])',
             'implies(len(_acc0) == 0 and _i > 0, len(all_mw) > 0 and all_mw[0] is _seq[0])'],
        modifies={'all_mw': TList(core.TMW)})
    outer = LoopSpec(
        inv=['NODUPTY(all_mw)', 'implies(_i == 0, len(all_mw) == 0)',
             'implies(_i > 0, len(all_mw) > 0 and all_mw[0] is GHOST_FIRST_MW())'],
        modifies={'all_mw': TList(core.TMW)})
    from contracts.route import TBRoute
    E.add_contract(Contract(
        'clastic.application._get_all_middlewares',
        params={'bound_routes': TSeq(TBRoute)},
        # bound routes of one application all start with that application's middlewares
        # (BoundRoute.__init__: merge_middlewares(route's, app's); C03.L/outer-first)
        requires=['forall_int(0, len(bound_routes), lambda j: len(bound_routes[j].middlewares) > 0 and '
                  'bound_routes[j].middlewares[0] is GHOST_FIRST_MW())'],
        # the scan order over the routes is immaterial for the property: both orders are specified
        loops={('broute', 'reversed(bound_routes)'): outer, ('broute', 'bound_routes'): outer,
               ('mw', 'broute.middlewares'): inner},
        ensures=['NODUPTY(result)',
                 'implies(len(bound_routes) > 0, len(result) > 0 and result[0] is GHOST_FIRST_MW())'],
        returns=TList(core.TMW), prop=['C13'],
        note='a unique type once (in fact every type once: == compares types); the outermost wrapper is the first '
             'application-level middleware (ghost parameter _first: the common first element of every route\'s list)'))
