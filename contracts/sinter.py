"""Sidecar contracts for clastic/sinter.py (nothing is written into /repo)."""
import z3
from pyvc import z as Z
from pyvc.values import *   # noqa
from pyvc.state import RaiseSig, ContractError, Unsupported
from pyvc.engine import Contract, OpaqueClass
from pyvc.loops import LoopSpec
from pyvc import models as M
from specs.sig import *   # noqa
from specs import chain as chainspec

TFunc = TObj('Func', inv=lambda f: z3.And(f != Z.NONE, sig_facts(f)))


def register(E):
    chainspec.register(E)

    # ---- FunctionBuilder objects as reported by get_fb (A-fb) ---------------------
    def fb_get_arg_names(I, ctx, fb, only_required=None):
        f = FUNCOF(fb.z)
        if only_required is not None and Z.is_true(Z.simp(I.truth(ctx, only_required))):
            return VNames(REQSEQ(f))
        return VNames(ARGNSEQ(f))

    def fb_get_defaults_dict(I, ctx, fb):
        f = FUNCOF(fb.z)
        return ctx.alloc(HDict(dom=DEF(f), arr=DEFVAL(f), kt=TStr, vt=TObj()))

    def unmodelled(name):
        # a real attribute of boltons' FunctionBuilder that A-fb has no summary for: undecided, never "no such attribute"
        def read(I, ctx, fb):
            raise Unsupported('FunctionBuilder.%s is not part of the signature summary (A-fb)' % name)
        return read
    fb_unmodelled = dict((n, unmodelled(n)) for n in (
        'defaults', 'kwonlyargs', 'kwonlydefaults', 'annotations', 'name', 'doc', 'body', 'module', 'dict', 'indent',
        'is_async', 'filename', 'get_sig_str', 'get_invocation_str', 'get_func', 'add_arg', 'remove_arg'))
    E.add_opaque(OpaqueClass('FB', closed=True, methods={
        'get_arg_names': fb_get_arg_names, 'get_defaults_dict': fb_get_defaults_dict},
        props={**fb_unmodelled, 'args': lambda I, ctx, fb: VNames(ARGS(FUNCOF(fb.z))),
               'varkw': lambda I, ctx, fb: VOpt(Z.Not(VARKW(FUNCOF(fb.z))), VStr(Z.func('VARKWNAME', Z.Obj, Z.Str)(FUNCOF(fb.z)))),
               'varargs': lambda I, ctx, fb: VOpt(Z.Not(VARARGS(FUNCOF(fb.z))), VStr(Z.func('VARARGSNAME', Z.Obj, Z.Str)(FUNCOF(fb.z))))}))
    E.add_opaque(OpaqueClass('Func', truthy=True, callable_=True))

    def get_fb_model(I, ctx, f, drop_self=None):
        f = I.resolve(ctx, f)
        fz = box(f, ctx)
        fb = FBOF(fz)
        ctx.assume(FUNCOF(fb) == fz)
        ctx.assume(sig_facts(fz))
        ctx.assume(fb != Z.NONE)
        return VObj(fb, 'FB')

    E.add_contract(Contract('clastic.sinter.get_fb', trusted=True, model=get_fb_model,
                            note='A-fb: signature reflection through boltons FunctionBuilder; '
                                 'bounded stand-in: bounded/fb_kinds.py'))

    def partition_model(I, ctx, src, key=None):
        src_set = M.iterable_as_set(I, ctx, src)[0]
        if not (isinstance(key, VMethod) and key.name == '__contains__'):
            raise Exception('partition model: unsupported key %r' % (key,))
        dom = M.dict_sym(I, ctx, key.selfv)[0]
        r0 = Z.fresh('part_t', NamesSort)
        r1 = Z.fresh('part_f', NamesSort)
        ctx.assume(nset(r0) == z3.SetIntersect(src_set, dom))
        ctx.assume(nset(r1) == z3.SetDifference(src_set, dom))
        return VTuple([VNames(r0), VNames(r1)])

    E.externals['boltons.iterutils.partition'] = partition_model

    # ---- chain_argspec ---------------------------------------------------------------
    E.add_contract(Contract(
        'clastic.sinter.chain_argspec',
        params={'func_list': TList(TFunc), 'provides': TList(TNames), 'inner_name': TStr},
        requires=['len(func_list) == len(provides)'],
        loops={('f, p', 'zip(func_list, provides)'): LoopSpec(
            inv=['provided_sofar == Prov(provides, inner_name, _i)',
                 'optional_sofar == Opt(func_list, _i)',
                 'required_sofar == Req(func_list, provides, inner_name, _i)'],
            modifies=['provided_sofar', 'optional_sofar', 'required_sofar'])},
        ensures=['result[0] == Req(func_list, provides, inner_name, len(func_list))',
                 'result[1] == Opt(func_list, len(func_list))'],
        returns=TTuple([TMSet(TStr), TMSet(TStr)]),
        prop=['C01', 'C02']))

    # ---- compile_chain: the exec boundary (A-exec); summary validated by the
    # bounded stand-in bounded/chain_text.py against the real build_chain_str ------
    CH_FUNCS = Z.func('CH_FUNCS', Z.Obj, Z.SeqSort(Z.Obj))
    CH_PARAMS = Z.func('CH_PARAMS', Z.Obj, Z.SeqSort(NamesSort))
    CH_INNER = Z.func('CH_INNER', Z.Obj, Z.Str)
    CH_LAST = Z.func('CH_LAST', Z.Obj, Z.Obj)                  # the innermost function
    CH_INIT = Z.func('CH_INIT', Z.Obj, Z.SeqSort(Z.Obj))       # all but the innermost
    E.ghost = getattr(E, 'ghost', {})
    E.ghost.update(CH_FUNCS=CH_FUNCS, CH_PARAMS=CH_PARAMS, CH_INNER=CH_INNER, CH_LAST=CH_LAST, CH_INIT=CH_INIT)

    def compile_chain_model(I, ctx, funcs, params, inner_name, verbose=None):
        fz = I._as_seq(ctx, I.resolve(ctx, funcs), TFunc)[0]
        pz = I._as_seq(ctx, I.resolve(ctx, params), TNames)[0]
        ch = ctx.new_obj('chain', distinct=False)
        ctx.assume(sig_facts(ch))
        ctx.assume(ARGN(ch) == nset(pz[0]))
        ctx.assume(DEF(ch) == Z.empty_set(Z.Str))
        ctx.assume(nset(KWONLY(ch)) == Z.empty_set(Z.Str))
        ctx.assume(Z.Not(VARKW(ch)))
        ctx.assume(CH_FUNCS(ch) == fz)
        ctx.assume(CH_PARAMS(ch) == pz)
        ctx.assume(CH_INNER(ch) == inner_name.z)
        n = z3.Length(fz)
        ctx.assume(CH_LAST(ch) == fz[n - 1])
        ctx.assume(CH_INIT(ch) == z3.Extract(fz, 0, n - 1))
        return VObj(ch, 'Func')

    E.add_contract(Contract('clastic.sinter.compile_chain', trusted=True, model=compile_chain_model,
                            note='A-exec: compile+exec of the text built by build_chain_str; the summary '
                                 '(parameters of the outermost def = params[0]; level k calls funcs[k]) is '
                                 'validated against the real text by bounded/chain_text.py'))

    @E.spec('ARGNAMES')
    def ARGNAMES(I, ctx, f):
        return VSet(ARGN(box(I.resolve(ctx, f), ctx)), TStr)

    @E.spec('REQNAMES')
    def REQNAMES(I, ctx, f):
        return VSet(UNDEF(box(I.resolve(ctx, f), ctx)), TStr)

    @E.spec('DEFNAMES')
    def DEFNAMES(I, ctx, f):
        return VSet(DEF(box(I.resolve(ctx, f), ctx)), TStr)

    @E.spec('DEFAULT_OF')
    def DEFAULT_OF(I, ctx, f, k):
        return VObj(z3.Select(DEFVAL(box(I.resolve(ctx, f), ctx)), k.z))

    @E.spec('chain_funcs')
    def chain_funcs(I, ctx, ch):
        return VSeq(CH_FUNCS(ch.z), TFunc)

    @E.spec('chain_last')
    def chain_last(I, ctx, ch):
        return VObj(CH_LAST(ch.z), 'Func')

    @E.spec('chain_init')
    def chain_init(I, ctx, ch):
        return VSeq(CH_INIT(ch.z), TFunc)

    @E.spec('chain_params')
    def chain_params(I, ctx, ch):
        return VSeq(CH_PARAMS(ch.z), TNames)

    ALLF = 'list(funcs) + [final_func]'
    ALLP = 'list(provides) + [()]'
    E.add_contract(Contract(
        'clastic.sinter.make_chain',
        params={'funcs': TSeq(TFunc), 'provides': TSeq(TNames), 'final_func': TFunc,
                'preprovided': TMSet(TStr), 'inner_name': TStr},
        requires=['len(funcs) == len(provides)'],
        ensures=['result[2] == Req(%s, %s, inner_name, len(funcs) + 1) - set(preprovided)' % (ALLF, ALLP),
                 'result[1] == Req(%s, %s, inner_name, len(funcs) + 1) | '
                 '(set(preprovided) & Opt(%s, len(funcs) + 1))' % (ALLF, ALLP, ALLF),
                 'ARGNAMES(result[0]) == result[1]',
                 'DEFNAMES(result[0]) == set()',
                 'chain_funcs(result[0]) == %s' % ALLF,
                 'chain_params(result[0])[1:] == list(provides)',
                 'chain_last(result[0]) is final_func',
                 'chain_init(result[0]) == list(funcs)'],
        returns=TTuple([TFunc, TMSet(TStr), TMSet(TStr)]),
        prop=['C01', 'C02', 'C03']))

    # ---- inject -------------------------------------------------------------------------
    inj_post = [
        'ncalls() == 1',
        'call_fn(0) is f',
        'call_nargs(0) == 0',
        # no unexpected argument
        'implies(not f_varkw, subset(keys(call_kw(0)), ARGNAMES(f)))',
        # every declared name that some source offers is passed
        'implies(not f_varkw, keys(call_kw(0)) == (keys(injectables) | DEFNAMES(f)) & ARGNAMES(f))',
        # each value comes from the injectables when offered there, else the own default
        'forall_keys(call_kw(0), lambda k, v: v is (injectables[k] if k in injectables else DEFAULT_OF(f, k)))',
    ]

    def inject_setup(E_, ctx, fr):
        f = fr.locals['f']
        fr.locals_spec = None
        # ghost: whether f takes **kwargs (documented as unsupported; kept symbolic)
        E_.specns['f_varkw'] = VBool(VARKW(f.z))

    def inject_model(I, ctx, f, injectables):
        # call-site summary: the function is called (any result, any exception); the keyword
        # algebra proved on inject's own body is what C01/C02 compose with.  The call is recorded
        # (function, snapshot of the mapping, outcome) so that callers can be specified over it.
        ev = ['inject', f, E.freeze(ctx, I.resolve(ctx, injectables)), None]
        ctx.trace.append(ev)
        try:
            r = E.unknown_outcome(ctx, 'inject', None)
        except RaiseSig as rs:
            ev[3] = ('exc', rs.exc)
            raise
        ev[3] = ('ret', r)
        return r

    E.add_contract(Contract(
        'clastic.sinter.inject',
        params={'f': TFunc, 'injectables': TDict(TStr, TObj())},
        setup=inject_setup,
        ensures=inj_post, exc_ensures=inj_post, may_raise_any=True,
        returns=TObj(),
        # at call sites: the function is called (any result, any exception); the keyword algebra
        # proved above is what C01/C02 use
        model=inject_model,
        prop=['C01', 'C02']))

    def _inj(ctx, i):
        evs = [e for e in ctx.trace if e[0] == 'inject']
        k = Z.simp(TInt.to_z(i)).as_long()
        if k is None or k >= len(evs):
            raise ContractError('inject call %r does not exist on this path' % (k,))
        return evs[k]

    @E.spec('ninject')
    def ninject(I, ctx):
        return VInt(len([e for e in ctx.trace if e[0] == 'inject']))

    @E.spec('inject_fn')
    def inject_fn(I, ctx, i):
        return _inj(ctx, i)[1]

    @E.spec('inject_map')
    def inject_map(I, ctx, i):
        return _inj(ctx, i)[2]

    @E.spec('inject_returned')
    def inject_returned(I, ctx, i, result):
        ev = _inj(ctx, i)
        if ev[3] is None or ev[3][0] != 'ret':
            return VBool(False)
        return VBool(I.identical(ctx, ev[3][1], result))

    @E.spec('inject_raised')
    def inject_raised(I, ctx, i, exc):
        ev = _inj(ctx, i)
        if ev[3] is None or ev[3][0] != 'exc':
            return VBool(False)
        return VBool(I.identical(ctx, ev[3][1], exc))
