"""Sidecar contracts for clastic/sinter.py (nothing is written into /repo)."""
import z3
from pyvc import z as Z
from pyvc.values import *   # noqa
from pyvc.engine import Contract, OpaqueClass
from pyvc.loops import LoopSpec
from pyvc import models as M
from specs.sig import *   # noqa
from specs import chain as chainspec

TFunc = TObj('Func', inv=lambda f: z3.And(f != Z.NONE, sig_facts(f)))


def register(E):
    chainspec.register(E)

    # ---- FunctionBuilder objects as reported by get_fb (A-fb) ---------------------
    def fb_get_arg_names(I, ctx, fb, only_required=None):
        f = FUNCOF(fb.z)
        if only_required is not None and Z.is_true(Z.simp(I.truth(ctx, only_required))):
            return VNames(REQSEQ(f))
        return VNames(ARGNSEQ(f))

    def fb_get_defaults_dict(I, ctx, fb):
        f = FUNCOF(fb.z)
        return ctx.alloc(HDict(dom=DEF(f), arr=DEFVAL(f), kt=TStr, vt=TObj()))

    E.add_opaque(OpaqueClass('FB', closed=True, methods={
        'get_arg_names': fb_get_arg_names, 'get_defaults_dict': fb_get_defaults_dict},
        props={'args': lambda I, ctx, fb: VNames(ARGS(FUNCOF(fb.z))),
               'varkw': lambda I, ctx, fb: VOpt(Z.Not(VARKW(FUNCOF(fb.z))), VStr(Z.func('VARKWNAME', Z.Obj, Z.Str)(FUNCOF(fb.z)))),
               'varargs': lambda I, ctx, fb: VOpt(Z.Not(VARARGS(FUNCOF(fb.z))), VStr(Z.func('VARARGSNAME', Z.Obj, Z.Str)(FUNCOF(fb.z))))}))
    E.add_opaque(OpaqueClass('Func', truthy=True, callable_=True))

    def get_fb_model(I, ctx, f, drop_self=None):
        f = I.resolve(ctx, f)
        fz = box(f, ctx)
        fb = FBOF(fz)
        ctx.assume(FUNCOF(fb) == fz)
        ctx.assume(sig_facts(fz))
        ctx.assume(fb != Z.NONE)
        return VObj(fb, 'FB')

    E.add_contract(Contract('clastic.sinter.get_fb', trusted=True, model=get_fb_model,
                            note='A-fb: signature reflection through boltons FunctionBuilder; '
                                 'bounded stand-in: bounded/fb_kinds.py'))

    def partition_model(I, ctx, src, key=None):
        src_set = M.iterable_as_set(I, ctx, src)[0]
        if not (isinstance(key, VMethod) and key.name == '__contains__'):
            raise Exception('partition model: unsupported key %r' % (key,))
        dom = M.dict_sym(I, ctx, key.selfv)[0]
        r0 = Z.fresh('part_t', NamesSort)
        r1 = Z.fresh('part_f', NamesSort)
        ctx.assume(nset(r0) == z3.SetIntersect(src_set, dom))
        ctx.assume(nset(r1) == z3.SetDifference(src_set, dom))
        return VTuple([VNames(r0), VNames(r1)])

    E.externals['boltons.iterutils.partition'] = partition_model

    # ---- chain_argspec ---------------------------------------------------------------
    E.add_contract(Contract(
        'clastic.sinter.chain_argspec',
        params={'func_list': TList(TFunc), 'provides': TList(TNames), 'inner_name': TStr},
        requires=['len(func_list) == len(provides)'],
        loops={('f, p', 'zip(func_list, provides)'): LoopSpec(
            inv=['provided_sofar == Prov(provides, inner_name, _i)',
                 'optional_sofar == Opt(func_list, _i)',
                 'required_sofar == Req(func_list, provides, inner_name, _i)'],
            modifies=['provided_sofar', 'optional_sofar', 'required_sofar'])},
        ensures=['result[0] == Req(func_list, provides, inner_name, len(func_list))',
                 'result[1] == Opt(func_list, len(func_list))'],
        returns=TTuple([TMSet(TStr), TMSet(TStr)]),
        prop=['C01', 'C02']))
