"""Sidecar contracts for clastic/middleware/stats.py (C19, C15)."""
import z3
from pyvc import z as Z
from pyvc.values import *   # noqa
from pyvc.engine import Contract, OpaqueClass
from pyvc.loops import LoopSpec
from pyvc import models as M
from pyvc import strs
from pyvc.classes import cls_of, issub
from pyvc.state import RaiseSig

DEPENDS = ('std', 'application')

RES_FIELDS = {'_cap': TInt, '_data': TList(TObj()), '_total_count': TInt}
TRes = TInst('clastic.middleware.stats.Reservoir', RES_FIELDS)


def register(E):
    I = E.interp

    def fast_randint_model(I, ctx, start, stop):
        r = Z.fresh('randint', Z.Int)
        ctx.assume(r >= TInt.to_z(start))
        ctx.assume(r <= TInt.to_z(stop))
        return VInt(r)

    E.add_contract(Contract('clastic.middleware.stats.fast_randint', trusted=True, model=fast_randint_model,
                            note='returns an int in [start, stop] (random.random() is in [0, 1); float arithmetic is opaque)'))

    # representation invariant of the sample store
    RINV = ['self._cap >= 1', 'len(self._data) <= self._cap', 'len(self._data) <= self._total_count',
            'self._total_count >= 0']
    E.add_contract(Contract(
        'clastic.middleware.stats.Reservoir.add',
        params={'self': TRes, 'val': TObj()},
        requires=RINV,
        ensures=RINV + ['self._total_count == old(self._total_count) + 1',
                        'self._cap == old(self._cap)',
                        # only values that were actually added: the new content is the old one with
                        # val appended, or with one slot replaced by val, or unchanged
                        'subset(set(self._data), set(old(self._data)) | set([val]))',
                        'len(self._data) >= len(old(self._data))'],
        prop=['C19']))
    E.add_contract(Contract(
        'clastic.middleware.stats.Reservoir.resize',
        params={'self': TRes, 'new_size': TInt},
        requires=RINV + ['new_size >= 1'],
        ensures=RINV + ['self._cap == new_size', 'self._total_count == old(self._total_count)',
                        'self._data == old(self._data)[:new_size]'],
        prop=['C19']))
    E.add_contract(Contract(
        'clastic.middleware.stats.Reservoir.total_count',
        params={'self': TRes}, ensures=['result == self._total_count'], returns=TInt, prop=['C19']))

    # ---- StatsMiddleware.request: one hit per call, under the right key -------------------
    def reservoir_add(I, ctx, res, hit):
        ctx.trace.append(('stats_add', res, hit))
        return NONE

    E.add_opaque(OpaqueClass('RouteStatRes', methods={'add': reservoir_add}, truthy=True))
    STATMAP = Z.func('STATMAP', Z.Obj, Z.Obj, Z.Obj)      # route_hits[route]
    RESOF = Z.func('RESOF', Z.Obj, Z.Str, Z.Obj)          # route_hits[route][status]

    def hits_getitem(I, ctx, hits, route):
        return VObj(STATMAP(hits.z, box(route, ctx)), 'StatusMap')

    def statmap_getitem(I, ctx, sm, status):
        return VObj(RESOF(sm.z, status.z), 'RouteStatRes')

    E.add_opaque(OpaqueClass('RouteHits', methods={'__getitem__': hits_getitem}, truthy=True))
    E.add_opaque(OpaqueClass('StatusMap', methods={'__getitem__': statmap_getitem}, truthy=True))

    def hit_model(I, ctx, *args):
        return VTuple(list(args))

    E.externals['clastic.middleware.stats.Hit'] = hit_model

    def next_returning(kind):
        def call(I, ctx, fv, *a, **kw):
            ctx.trace.append(('next', fv))
            if ctx.nondet(2, 'next raises') == 1:
                e = ctx.new_obj('exc', distinct=False)
                ctx.assume(issub(cls_of(e), E.classes.const('builtins.Exception')))
                ctx.next_exc = VObj(e)
                raise RaiseSig(VObj(e), None)
            r = ctx.new_obj('resp', distinct=False)
            ctx.next_ret = VObj(r, kind)
            return VObj(r, kind)
        return call

    E.add_opaque(OpaqueClass('HTTPExc', dotted='clastic.errors.HTTPException', truthy=True,
                             attrs={'status_code': TInt}))
    E.opaque['Response'].attrs.update({'status_code': TInt, 'content_type': TStr})
    # attributes that exist on an HTTPException instance are read off the real class (reflection);
    # the descriptor types are Werkzeug's (A-wz-resp)
    if 'content_type' in E.classes.attrs('clastic.errors.HTTPException'):
        E.opaque['HTTPExc'].attrs['content_type'] = TStr
    # stated precondition: a content_type attribute of an exception, when present, is a str
    E.attr_types['content_type'] = TStr
    for kind in ('Response', 'HTTPExc'):
        E.add_opaque(OpaqueClass('Next_' + kind, methods={'__call__': next_returning(kind)}, callable_=True, truthy=True))

    @E.spec('nstats')
    def nstats(I, ctx):
        return VInt(len([e for e in ctx.trace if e[0] == 'stats_add']))

    @E.spec('stat_key_ok')
    def stat_key_ok(I, ctx, self_, route):
        """the one recorded hit went to route_hits[_route][key] with key the repr of the response's
        status code, the repr of the HTTPException's code, or the class name of the exception"""
        evs = [e for e in ctx.trace if e[0] == 'stats_add']
        if len(evs) != 1:
            return VBool(False)
        res = evs[0][1]
        hits = ctx.heap[self_.rid].fields['route_hits']
        ret = getattr(ctx, 'next_ret', None)
        exc = getattr(ctx, 'next_exc', None)
        if ret is not None:
            want = strs.to_repr(I, ctx, E.read_typed_attr(ctx, '%s.status_code' % ret.cls, TInt, ret.z)).z
        else:
            has_code = Z.func('hasattr:code', Z.Obj, Z.Bool)(exc.z)
            want = z3.If(has_code, strs.repr_of(ctx.attr_read('*.code', Z.Obj, exc.z)),
                         strs.repr_str(Z.func('type_name', Z.Obj, Z.Str)(Z.func('type_obj', Z.Obj, Z.Obj)(exc.z))))
        return VBool(res.z == RESOF(STATMAP(hits.z, route.z), want))

    for kind in ('Response', 'HTTPExc'):
        E.add_contract(Contract(
            'clastic.middleware.stats.StatsMiddleware.request',
            params={'self': TInst('clastic.middleware.stats.StatsMiddleware', {'route_hits': TObj('RouteHits')}),
                    'next': TObj('Next_' + kind, inv=lambda f: f != Z.NONE), 'request': TObj('Request'),
                    '_route': TObj('BoundRoute', inv=lambda r: r != Z.NONE)},
            ensures=['nstats() == 1', 'stat_key_ok(self, _route)', 'result is NEXT_RET()'],
            exc_ensures=['nstats() == 1', 'stat_key_ok(self, _route)', '_exc is NEXT_EXC()'],
            may_raise_any=True, returns=TObj(),
            prop=['C19', 'C15']), key='clastic.middleware.stats.StatsMiddleware.request#' + kind)

    @E.spec('NEXT_RET')
    def NEXT_RET(I, ctx):
        r = getattr(ctx, 'next_ret', None)
        return r if r is not None else VObj(Z.const('no-next-return', Z.Obj))

    @E.spec('NEXT_EXC')
    def NEXT_EXC(I, ctx):
        r = getattr(ctx, 'next_exc', None)
        return r if r is not None else VObj(Z.const('no-next-exception', Z.Obj))
