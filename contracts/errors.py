"""Sidecar contracts for clastic/errors.py (C06 Allow header, C08, C09)."""
import z3
from pyvc import z as Z
from pyvc.values import *   # noqa
from pyvc.engine import Contract, OpaqueClass
from pyvc.loops import LoopSpec
from pyvc import models as M
from pyvc import strs
from pyvc.state import RaiseSig, ContractError

DEPENDS = ('std',)

ESC = Z.func('html_escape', Z.Str, Z.Str)
ESCAPED = Z.func('ESCAPED', Z.Str, Z.Bool)      # contains no markup-significant character
_s = z3.Const('esc!s', Z.Str)
Z.AXIOMS.add('A-esc: html.escape(s, True) is markup-free',
             z3.ForAll([_s], ESCAPED(ESC(_s)), patterns=[ESC(_s)]))
Z.AXIOMS.add('A-esc: the empty string is markup-free', ESCAPED(z3.StringVal('')))
HDR_NAMES = Z.func('HDR_NAMES', Z.Str, Z.SetSort(Z.Str))     # names listed in a comma separated header value
_q = z3.Const('hdr!q', Z.SeqSort(Z.Str))
Z.AXIOMS.add('A-str: a comma-joined list of names lists exactly those names',
             z3.ForAll([_q], HDR_NAMES(strs.join_fn(z3.StringVal(', '), _q)) == M.elems_fn(Z.Str)(_q),
                       patterns=[strs.join_fn(z3.StringVal(', '), _q)]))
CT = Z.func('get_content_type', Z.Str, Z.Str, Z.Str)


def all_parts_escaped(term, depth=0):
    """Taint-style obligation over a formatted string term: every non-literal
    part of the concatenation must be ESCAPED."""
    t = Z.simp(term)
    if z3.is_string_value(t):
        return Z.TRUE
    if z3.is_app(t):
        k = t.decl().kind()
        if k == z3.Z3_OP_SEQ_CONCAT:
            return Z.And(*[all_parts_escaped(t.arg(i), depth + 1) for i in range(t.num_args())])
        if k == z3.Z3_OP_ITE:
            return z3.If(t.arg(0), all_parts_escaped(t.arg(1), depth + 1), all_parts_escaped(t.arg(2), depth + 1))
        if k == z3.Z3_OP_UNINTERPRETED and (t.decl().name() == 'str_encode' or t.decl().name().startswith('str_sanitised:')):
            # A-enc: UTF-8 encoding (also with backslashreplace, which only adds '\\', letters and hex digits)
            # neither introduces nor removes an ASCII markup character
            return all_parts_escaped(t.arg(0), depth + 1)
    return ESCAPED(t)


def register(E):
    I = E.interp

    def html_escape_model(I, ctx, s, quote=None):
        s = I.resolve(ctx, s)
        if not isinstance(s, VStr):
            # html.escape calls s.replace: anything without it fails
            I.raise_exc(ctx, 'AttributeError', 'object has no attribute replace', None)
        return VStr(ESC(s.z))

    E.externals['html.escape'] = html_escape_model

    def get_content_type_model(I, ctx, mimetype, charset):
        r = CT(mimetype.z, charset.z)
        ctx.assume(z3.PrefixOf(mimetype.z, r))
        return VStr(r)

    E.externals['werkzeug.utils.get_content_type'] = get_content_type_model

    # BaseResponse.__init__ as called by HTTPException.__init__ (A-wz-resp)
    def base_response_init(I, ctx, self_, response=None, status=None, headers=None, mimetype=None,
                           content_type=None, direct_passthrough=None):
        h = ctx.heap[self_.rid]
        hd = ctx.alloc(HDict(dom=Z.fresh('hdr_dom', Z.SetSort(Z.Str)), arr=Z.fresh('hdr_arr', z3.ArraySort(Z.Str, Z.Str)),
                             kt=TStr, vt=TStr))
        hh = ctx.heap[hd.rid]
        headers = I.resolve(ctx, headers) if headers is not None else NONE
        if isinstance(headers, VNone):
            hh.dom = Z.empty_set(Z.Str)
        h.fields['headers'] = hd
        ct = I.resolve(ctx, content_type) if content_type is not None else NONE
        if isinstance(ct, VNone):
            mt = I.resolve(ctx, mimetype) if mimetype is not None else NONE
            if isinstance(mt, VStr):
                ct = VStr(CT(mt.z, z3.StringVal('utf-8')))
                ctx.assume(z3.PrefixOf(mt.z, ct.z))
        if isinstance(ct, VStr):
            M.dict_set(I, ctx, hd, VStr('Content-Type'), ct, None)
        st = I.resolve(ctx, status) if status is not None else NONE
        h.fields['status_code'] = VInt(200) if isinstance(st, VNone) else st
        h.fields['data'] = response if response is not None else VStr('')
        h.fields['charset'] = VStr('utf-8')
        return NONE

    E.externals['werkzeug.wrappers.base_response.BaseResponse.__init__'] = base_response_init

    fields = {'code': TOpt(TInt), 'message': TStr, 'detail': TStr}
    TSelf = TInst('clastic.errors.HTTPException', fields)

    def kw(**vals):
        def mk(E_, ctx, name):
            conc = {}
            for k, t in vals.items():
                conc[k] = t.fresh(ctx, 'k_' + k)
                E_.specns['k_' + k] = conc[k]
            return ctx.alloc(HDict(conc=conc))
        return mk

    @E.spec('ALL_ESCAPED')
    def ALL_ESCAPED(I, ctx, s):
        return VBool(all_parts_escaped(s.z))

    @E.spec('ESCAPED')
    def ESCAPED_(I, ctx, s):
        s = I.resolve(ctx, s)
        return VBool(ESCAPED(s.z)) if isinstance(s, VStr) else VBool(False)

    @E.spec('HDR_NAMES')
    def HDR_NAMES_(I, ctx, s):
        return VSet(HDR_NAMES(s.z), TStr)

    # ---- HTTPException.__init__ (C09: status is the class code or the one given) -------------
    E.add_contract(Contract(
        'clastic.errors.HTTPException.__init__',
        params={'self': TSelf, 'detail': TOpt(TStr)},
        cases=[('defaults', {'kwargs': kw()}),
               ('code and flags given', {'kwargs': kw(code=TInt, is_breaking=TBool, message=TStr)})],
        inline=['clastic.errors.HTTPException.to_text'],
        ensures=['self.status_code == self.code or (self.code is None and self.status_code == 200)',
                 'self.is_breaking == (k_is_breaking if HAS_K_BREAKING else True)',
                 'self.source_route is None',
                 '"Content-Type" in self.headers'],
        setup=lambda E_, ctx, fr: E_.specns.__setitem__('HAS_K_BREAKING', VBool('is_breaking' in ctx.heap[fr.locals['kwargs'].rid].conc)),
        prop=['C06', 'C09']))

    # ---- to_escaped_dict / to_html / to_xml (C09: everything dynamic is escaped) --------------
    TSelf2 = TInst('clastic.errors.HTTPException',
                   {'code': TOpt(TInt), 'message': TStr, 'detail': TStr, 'error_type': TOpt(TStr)})
    E.add_contract(Contract(
        'clastic.errors.HTTPException.to_escaped_dict',
        params={'self': TSelf2},
        ensures=['keys(result) == set(["detail", "message", "code", "error_type"])',
                 'ESCAPED(result["detail"]) and ESCAPED(result["message"]) and ESCAPED(result["code"]) '
                 'and ESCAPED(result["error_type"])'],
        returns=TDict(TStr, TStr), prop=['C09']))
    for fn in ('to_html', 'to_xml'):
        E.add_contract(Contract(
            'clastic.errors.HTTPException.%s' % fn,
            params={'self': TSelf2},
            ensures=['ALL_ESCAPED(result)'],
            returns=TStr, prop=['C09']))

    # ---- MethodNotAllowed.__init__ (C06: the Allow header names exactly the allowed methods) ---
    E.add_contract(Contract(
        'clastic.errors.MethodNotAllowed.__init__',
        params={'self': TInst('clastic.errors.MethodNotAllowed', fields), 'allowed_methods': TOpt(TSet(TStr)),
                'args': TConst(VTuple([])), 'kwargs': kw()},
        inline=['clastic.errors.HTTPException.__init__', 'clastic.errors.HTTPException.to_text'],
        ensures=['implies(allowed_methods is not None and len(allowed_methods) > 0, "Allow" in self.headers)',
                 'implies(allowed_methods is not None and len(allowed_methods) > 0, '
                 'HDR_NAMES(self.headers["Allow"]) == set(allowed_methods))',
                 'implies(allowed_methods is not None, set(self.allowed_methods) == set(allowed_methods))',
                 'self.status_code == self.code or (self.code is None and self.status_code == 200)'],
        prop=['C06']))
    register_c09(E)


def register_c09(E):
    I = E.interp
    from pyvc.interp import VSpecFn

    def to_json_model(I, ctx, self_, *a, **kw):
        return VStr(Z.func('JSON_OF_ERROR', Z.Obj, Z.Str)(box(self_, ctx)))

    E.add_contract(Contract('clastic.errors.HTTPException.to_json', trusted=True, model=to_json_model,
                            note='A-json: ClasticJSONEncoder(dev_mode=True).encode(self.to_dict()) is total and emits valid JSON'))

    TSelf3 = TInst('clastic.errors.HTTPException',
                   {'code': TOpt(TInt), 'message': TStr, 'detail': TStr, 'error_type': TOpt(TStr),
                    'headers': TDict(TStr, TStr), 'charset': TStr})

    @E.spec('CT_AGREES')
    def CT_AGREES(I, ctx, ct, mimetype):
        """the Content-Type starts with the negotiated mimetype when it is one of the four supported
        ones, with text/plain otherwise"""
        m = I.resolve(ctx, mimetype)
        sup = ['text/html', 'application/json', 'text/plain', 'application/xml']
        if isinstance(m, VObj):
            # the (boxed) answer of best_match: None or a string
            from pyvc.values import unbox_str
            sz = unbox_str(m.z)
            chosen = z3.If(z3.And(m.z != Z.NONE, z3.Or(*[sz == z3.StringVal(x) for x in sup])), sz, z3.StringVal('text/plain'))
            return VBool(z3.PrefixOf(chosen, ct.z))
        if isinstance(m, VNone):
            return VBool(z3.PrefixOf(z3.StringVal('text/plain'), ct.z))
        mz = m.z
        if mz.sort() != Z.Str or ct.z.sort() != Z.Str:
            raise ContractError('CT_AGREES: mimetype %r / content type %r are not strings' % (m, ct))
        chosen = z3.If(z3.Or(*[mz == z3.StringVal(s) for s in sup]), mz, z3.StringVal('text/plain'))
        return VBool(z3.PrefixOf(chosen, ct.z))

    E.add_contract(Contract(
        'clastic.errors.HTTPException.adapt',
        params={'self': TSelf3, 'mimetype': TOpt(TStr)},
        ensures=['CT_AGREES(self.headers["Content-Type"], mimetype)',
                 'implies(mimetype is not None and (mimetype == "text/html" or mimetype == "application/xml"), '
                 'ALL_ESCAPED(self.data))'],
        prop=['C09']))

    # T: status table, by evaluation on the imported module
    codes = E.refl['modules']['clastic.errors']['consts']
    E.c09_ready = True


def register_negotiation(E):
    """ErrorHandler.render_error / default_render_error (C09): the format is the best match of the request's
    Accept header over the supported types -- not the client's first preference, not a fixed format."""
    I = E.interp
    supported = [k['v'] if isinstance(k, dict) else k for k in
                 (E.refl['modules']['clastic.errors']['consts'].get('MIME_SUPPORT_MAP', {'v': {}})['v'] or {})]

    def best_match_model(I, ctx, am, offered=None, default=None):
        """A-wz-req: MIMEAccept.best_match(offered) returns one of the offered types or None (the default)"""
        from pyvc.values import box_str, unbox_str
        bm = Z.func('BEST_MATCH', Z.Obj, Z.Obj)(am.z)       # one answer per Accept header (pure in the request)
        r = unbox_str(bm)
        isnone = bm == Z.NONE
        try:
            names = [x.const() for x in I.iter_concrete(ctx, I.resolve(ctx, offered))]
        except Exception:
            names = None
        if names:
            ctx.assume(z3.Or(isnone, *[bm == box_str(z3.StringVal(n)) for n in names]))
        res = VOpt(isnone, VStr(r))
        ctx.trace.append(('best_match', am, names, res))
        return VObj(bm)
    E.add_opaque(OpaqueClass('MIMEAccept', methods={'best_match': best_match_model}, truthy=None))
    E.opaque['Request'].attrs['accept_mimetypes'] = TObj('MIMEAccept', inv=lambda a: a != Z.NONE)

    @E.spec('NEGOTIATED')
    def NEGOTIATED(I, ctx, request, chosen):
        """`chosen` is what request.accept_mimetypes.best_match(<the supported types>) returned, asked once"""
        evs = [e for e in ctx.trace if e[0] == 'best_match']
        if len(evs) != 1 or evs[0][2] is None or sorted(evs[0][2]) != sorted(SUPPORTED_TYPES):
            return VBool(False)
        am = ctx.attr_read('Request.accept_mimetypes', Z.Obj, box(I.resolve(ctx, request), ctx))
        res = evs[0][3]
        ch = chosen
        if isinstance(ch, VObj):
            from pyvc.values import unbox_str
            return VBool(Z.And(evs[0][1].z == am, (ch.z == Z.NONE) == res.isnone,
                               z3.Implies(Z.Not(res.isnone), unbox_str(ch.z) == res.val.z)))
        if not isinstance(ch, VOpt):
            ch = I.resolve(ctx, ch)
            if isinstance(ch, VNone):
                same = res.isnone
            elif isinstance(ch, VStr):
                same = Z.And(Z.Not(res.isnone), ch.z == res.val.z)
            else:
                return VBool(False)
        else:
            same = Z.And(ch.isnone == res.isnone, z3.Implies(Z.Not(res.isnone), ch.val.z == res.val.z))
        return VBool(Z.And(evs[0][1].z == am, same))
    E.specns['NEGOTIATED'].keep_opt = True

    TErr = TInst('clastic.errors.HTTPException',
                 {'code': TOpt(TInt), 'message': TStr, 'detail': TStr, 'error_type': TOpt(TStr),
                  'headers': TDict(TStr, TStr), 'charset': TStr, 'data': TBytes})
    at = {'clastic.errors.HTTPException.adapt': ['len(_args) == 1 and NEGOTIATED(request, _args[0])']}
    E.add_contract(Contract(
        'clastic.errors.ErrorHandler.render_error',
        params={'self': TInst('clastic.errors.ErrorHandler', {}), 'request': TObj('Request'), '_error': TErr},
        at_call=at, ensures=['result is _error'], returns=TObj(), prop=['C09']))
    E.add_contract(Contract(
        'clastic.application.default_render_error',
        params={'request': TObj('Request'), '_error': TErr, 'kwargs': TDict(TStr, TObj())},
        at_call=at, ensures=['result is _error'], returns=TObj(), prop=['C09']),
        key='clastic.application.default_render_error#verify')


SUPPORTED_TYPES = ['text/html', 'application/json', 'text/plain', 'application/xml']
