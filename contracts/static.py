"""Sidecar contracts for clastic/static.py (C14; open-file clause of C13).

Fault model (A-os): every filesystem call may raise OSError (or ValueError) at the
point where it is made; isfile never raises."""
import z3
from pyvc import z as Z
from pyvc.values import *   # noqa
from pyvc.engine import Contract, OpaqueClass
from pyvc.loops import LoopSpec
from pyvc import models as M
from pyvc.classes import cls_of, issub
from pyvc.state import RaiseSig

DEPENDS = ('std', 'application', 'errors', 'render', 'builtin_mw')

NP = Z.func('normpath', Z.Str, Z.Str)
PJOIN = Z.func('path_join', Z.Str, Z.Str, Z.Str)
ISFILE = Z.func('ISFILE', Z.Str, Z.Bool)
DOTDOT = Z.func('HAS_PARDIR_COMPONENT', Z.Str, Z.Bool)      # some component of the path is '..'
INSIDE = Z.func('INSIDE', Z.Str, Z.Str, Z.Bool)              # path lies inside the directory
MTIME = Z.func('MTIME', Z.Str, Z.Obj)
FSIZE = Z.func('FSIZE', Z.Str, Z.Int)
_p = z3.Const('np!p', Z.Str)
_r = z3.Const('np!r', Z.Str)
Z.AXIOMS.add('A-np: in a normalised path ".." components only form a leading run',
             z3.ForAll([_p], z3.Implies(DOTDOT(NP(_p)), z3.PrefixOf(z3.StringVal('..'), NP(_p))), patterns=[NP(_p)]))
Z.AXIOMS.add('A-np: joining a root with a relative path without ".." components stays inside the root',
             z3.ForAll([_r, _p], z3.Implies(z3.And(z3.Not(z3.PrefixOf(z3.StringVal('/'), _p)), z3.Not(DOTDOT(_p))),
                                            INSIDE(_r, PJOIN(_r, _p))), patterns=[PJOIN(_r, _p)]))


def fs_error(E, ctx, label):
    """The filesystem call fails here: OSError, or ValueError (embedded NUL etc.)."""
    k = ctx.nondet(4, label)
    if k == 1:
        raise RaiseSig(E.interp.make_exc(ctx, 'builtins.OSError', [VStr(label)]), None)
    if k == 3:
        # some SUBCLASS of OSError (FileNotFoundError, PermissionError, ...): a handler naming one of them may or may
        # not be the one that catches it
        from pyvc.classes import cls_of, issub
        e = ctx.new_obj('oserror', distinct=False)
        ctx.assume(issub(cls_of(e), E.classes.const('builtins.OSError')))
        ctx.assume(e != Z.NONE)
        raise RaiseSig(VObj(e, None), None)
    if k == 2:
        raise RaiseSig(E.interp.make_exc(ctx, 'builtins.ValueError', [VStr(label)]), None)


def register(E):
    I = E.interp

    def normpath_model(I, ctx, path):
        path = I.resolve(ctx, path)
        if not isinstance(path, VStr):
            I.raise_exc(ctx, 'TypeError', 'expected str', None)
        return VStr(NP(path.z))

    def join_model(I, ctx, a, *rest):
        z = a.z
        for r in rest:
            z = PJOIN(z, r.z)
        return VStr(z)

    def isfile_model(I, ctx, path):
        return VBool(ISFILE(path.z))

    def getmtime_model(I, ctx, path):
        fs_error(E, ctx, 'getmtime')
        ctx.trace.append(('fs', 'getmtime', path))
        return VFloat(Z.func('MTIME_F', Z.Str, Z.Flt)(path.z))

    def getsize_model(I, ctx, path):
        fs_error(E, ctx, 'getsize')
        r = FSIZE(path.z)
        ctx.assume(r >= 0)
        return VInt(r)

    def open_model(I, ctx, path, mode=None, *a, **kw):
        fs_error(E, ctx, 'open')
        f = ctx.new_obj('file', distinct=False)
        ctx.assume(Z.func('FILE_PATH', Z.Obj, Z.Str)(f) == path.z)
        ctx.open_files.append(f)
        return VObj(f, 'File')

    def file_op(name, closes=False):
        def op(I, ctx, f, *a, **kw):
            if not closes:
                fs_error(E, ctx, 'file.' + name)
            else:
                ctx.open_files[:] = [x for x in ctx.open_files if not x.eq(f.z)]
            if name == 'read':
                return VBytes(Z.func('FILE_READ', Z.Obj, Z.Str)(f.z))
            if name == 'tell':
                return VInt(Z.fresh('pos', Z.Int))
            return NONE
        return op

    E.add_opaque(OpaqueClass('File', methods={'tell': file_op('tell'), 'read': file_op('read'), 'seek': file_op('seek'),
                                              'close': file_op('close', True)},
                             attrs={}, truthy=True, closed=False))
    E.externals.update({'os.path.normpath': normpath_model, 'posixpath.normpath': normpath_model,
                        'os.path.join': join_model, 'posixpath.join': join_model,
                        'os.path.isfile': isfile_model, 'genericpath.isfile': isfile_model,
                        'os.path.getmtime': getmtime_model, 'os.path.getsize': getsize_model,
                        'builtins.open': open_model})

    def utcfromtimestamp_model(I, ctx, ts):
        return VObj(Z.func('DT_OF', Z.Flt, Z.Obj)(ts.z if isinstance(ts, VFloat) else M.to_float(ts)))
    E.externals['datetime.datetime.utcfromtimestamp'] = utcfromtimestamp_model

    def guess_type_model(I, ctx, path, strict=None):
        mt = Z.fresh('guessed_mime', Z.Str)
        isnone = Z.fresh('guess_none', Z.Bool)
        return VTuple([VOpt(isnone, VStr(mt)), VObj(Z.fresh('encoding', Z.Obj))])
    E.externals['mimetypes.guess_type'] = guess_type_model

    def file_wrapper_call(I, ctx, fv, f, *a):
        w = ctx.new_obj('file_wrapper', distinct=False)
        ctx.assume(Z.func('WRAPS', Z.Obj, Z.Obj)(w) == f.z)
        ctx.wrapped = getattr(ctx, 'wrapped', []) + [f.z]
        return VObj(w)
    E.add_opaque(OpaqueClass('FileWrapperT', methods={'__call__': file_wrapper_call}, callable_=True, truthy=True))
    E.externals['werkzeug.wsgi.FileWrapper'] = lambda I, ctx, f, *a, **kw: file_wrapper_call(I, ctx, None, f)

    def response_type_call(I, ctx, fv, *a, **kw):
        from contracts.render import register as _r   # Response model lives in render.py
        return E.externals['werkzeug.wrappers.response.Response'](I, ctx, *a, **kw)
    E.add_opaque(OpaqueClass('ResponseTypeT', methods={'__call__': response_type_call}, callable_=True, truthy=True))
    E.opaque['Response'].attrs.update({'cache_control': TObj('CacheControl', inv=lambda h: h != Z.NONE)})
    if 'CacheControl' not in E.opaque:
        E.add_opaque(OpaqueClass('CacheControl', closed=False, truthy=True))

    def environ_get(I, ctx, env, key, default=None):
        return default if default is not None else NONE
    E.add_opaque(OpaqueClass('Environ', methods={'get': environ_get}, truthy=None))
    E.opaque['Request'].attrs.update({'environ': TObj('Environ', inv=lambda e: e != Z.NONE), 'if_modified_since': TObj()})

    @E.spec('NP')
    def NP_(I, ctx, p):
        return VStr(NP(p.z))

    @E.spec('PJOIN')
    def PJOIN_(I, ctx, a, b):
        return VStr(PJOIN(a.z, b.z))

    def sz(v):
        return v.z if isinstance(v, VStr) else z3.StringVal('')

    @E.spec('ISFILE')
    def ISFILE_(I, ctx, p):
        return VBool(ISFILE(sz(p)))

    @E.spec('ESCAPES')
    def ESCAPES(I, ctx, rel):
        """the normalised request path is absolute or climbs out of the root"""
        return VBool(z3.Or(z3.PrefixOf(z3.StringVal('/'), rel.z), DOTDOT(rel.z)))

    @E.spec('INSIDE_SOME_ROOT')
    def INSIDE_SOME_ROOT(I, ctx, roots, p):
        q = I._as_seq(ctx, I.resolve(ctx, roots), TStr)
        k = z3.Int(E._qname(ctx, 'i'))
        return VBool(z3.Exists([k], z3.And(k >= 0, k < z3.Length(q[0]), INSIDE(q[0][k], sz(p)))))

    # ---- find_file ---------------------------------------------------------------------------
    E.add_contract(Contract(
        'clastic.static.find_file',
        params={'search_paths': TSeq(TStr), 'path': TStr, 'limit_root': TConst(VBool(True))},
        loops={('sr', 'search_paths'): LoopSpec(
            inv=['forall_int(0, _i, lambda j: not ISFILE(PJOIN(search_paths[j], rel_path)))'])},
        ensures=[
            'not ESCAPES(NP(path))',
            # first search directory wins; the result is a regular file inside a search directory
            'implies(result is not None, ISFILE(result) and INSIDE_SOME_ROOT(search_paths, result))',
            'implies(result is None, forall_int(0, len(search_paths), lambda j: not ISFILE(PJOIN(search_paths[j], NP(path)))))',
            'implies(result is not None, FIRST_HIT(search_paths, NP(path), result))',
        ],
        raises={'builtins.ValueError': None},
        returns=TOpt(TStr), prop=['C14']))

    @E.spec('FIRST_HIT')
    def FIRST_HIT(I, ctx, roots, rel, result):
        q = I._as_seq(ctx, I.resolve(ctx, roots), TStr)
        k = z3.Int(E._qname(ctx, 'i'))
        j = z3.Int(E._qname(ctx, 'j'))
        r = I.resolve(ctx, result)
        rz = r.z if isinstance(r, VStr) else z3.StringVal('')
        return VBool(z3.Exists([k], z3.And(k >= 0, k < z3.Length(q[0]), rz == PJOIN(q[0][k], rel.z),
                                           z3.ForAll([j], z3.Implies(z3.And(j >= 0, j < k),
                                                                     z3.Not(ISFILE(PJOIN(q[0][j], rel.z))))))))

    # ---- build_file_response -----------------------------------------------------------------
    nonbreaking = ['NONBREAKING_HTTP(_exc)', 'NO_FILE_LEFT_OPEN()']

    @E.spec('NONBREAKING_HTTP')
    def NONBREAKING_HTTP(I, ctx, exc):
        exc = I.resolve(ctx, exc)
        if isinstance(exc, VRef):
            h = ctx.heap[exc.rid]
            ok = E.classes.has(h.cls) and E.classes.static_sub(h.cls, 'clastic.errors.HTTPException')
            if not ok:
                return VBool(False)
            b = h.fields.get('is_breaking')
            return VBool(Z.Not(I.truth(ctx, b))) if b is not None else VBool(False)
        return VBool(False)

    @E.spec('NO_FILE_LEFT_OPEN')
    def NO_FILE_LEFT_OPEN(I, ctx):
        wrapped = getattr(ctx, 'wrapped', [])
        left = [f for f in ctx.open_files if not any(f.eq(w) for w in wrapped)]
        return VBool(len(left) == 0)

    @E.spec('FSIZE')
    def FSIZE_(I, ctx, p):
        return VInt(FSIZE(p.z))

    E.add_contract(Contract(
        'clastic.static.build_file_response',
        params={'path': TStr, 'cache_timeout': TOpt(TInt), 'cached_modify_time': TObj(), 'mimetype': TOpt(TStr),
                'default_text_mime': TStr, 'default_binary_mime': TStr,
                'file_wrapper': TObj('FileWrapperT', inv=lambda f: f != Z.NONE),
                'response_type': TObj('ResponseTypeT', inv=lambda f: f != Z.NONE)},
        inline=['clastic.errors.HTTPException.__init__', 'clastic.errors.HTTPException.to_text',
                'clastic.errors.NotFound.__init__'],
        ensures=['implies(not wrote("status_code"), written("content_length") == FSIZE(path))',
                 'implies(not wrote("status_code"), wrote("last_modified") and wrote("response"))',
                 'implies(wrote("status_code"), written("status_code") == 304)',
                 'NO_FILE_LEFT_OPEN()'],
        raises={'clastic.errors.HTTPException': None},
        exc_ensures=nonbreaking, exc_fields={'is_breaking': VBool(False)},
        trace_ensures=True,     # wrote()/written() read this call's own write trace
        returns=TObj('Response'), prop=['C14', 'C13']))

    # ---- StaticApplication.get_file_response ------------------------------------------------
    E.add_contract(Contract(
        'clastic.static.StaticApplication.get_file_response',
        params={'self': TInst('clastic.static.StaticApplication',
                              {'search_paths': TSeq(TStr), 'cache_timeout': TOpt(TInt), 'default_text_mime': TStr,
                               'default_binary_mime': TStr}),
                'path': TSeq(TStr), 'request': TObj('Request')},
        inline=['clastic.errors.HTTPException.__init__', 'clastic.errors.HTTPException.to_text',
                'clastic.errors.NotFound.__init__'],
        raises={'clastic.errors.HTTPException': None},
        exc_ensures=['NONBREAKING_HTTP(_exc)'],
        returns=TObj('Response'), prop=['C14']))
