"""Models of standard-library / third-party callables used by the functions
under contract (assumed contracts, DESIGN.md 5.2)."""
import z3
from pyvc import z as Z
from pyvc.values import *   # noqa
from pyvc import models as M
from pyvc.state import Unsupported


def register(E):
    def defaultdict_model(I, ctx, factory=None, *a, **kw):
        if isinstance(factory, VClass) and factory.name == 'builtins.list':
            # keys are names (str) at every use in clastic: map-of-sequences form from the start
            return ctx.alloc(HDict(dom=Z.empty_set(Z.Str), arr=z3.K(Z.Str, Z.empty_seq(Z.Obj)),
                                   kt=TStr, vt=TSeq(TObj()), default=M.DefaultFactory('list')))
        raise Unsupported('defaultdict(%r)' % (factory,))

    E.externals['collections.defaultdict'] = defaultdict_model

    def time_model(I, ctx):
        return VFloat(Z.fresh('time', Z.Flt))

    E.externals['time.time'] = time_model
    register_urls(E)


def register_urls(E):
    def url_quote_model(I, ctx, s, charset=None, errors=None, safe=None, unsafe=None):
        s = I.resolve(ctx, s)
        f = Z.func('url_quote', Z.Str, Z.Str, Z.Str)
        safe_z = safe.z if safe is not None else z3.StringVal('/:')
        return VStr(f(s.z, safe_z))

    E.externals['werkzeug.urls.url_quote'] = url_quote_model
