"""Sidecar contracts for clastic/flaw.py (C20)."""
import z3
from pyvc import z as Z
from pyvc.values import *   # noqa
from pyvc.engine import Contract, OpaqueClass
from pyvc.loops import LoopSpec
from pyvc import models as M
from pyvc.classes import cls_of, issub

DEPENDS = ('std', 'application', 'static')


def register(E):
    I = E.interp

    # constructors whose own contracts are C01/C04/C14: here they are total *given* that the
    # endpoint's parameter names are resource names (checked as a T obligation on the source)
    def app_ctor(I, ctx, cv, args, kwargs, node, star):
        a = ctx.new_obj('application', distinct=False)
        ctx.trace.append(('Application', args, kwargs))
        return VObj(a, 'App')

    E.externals['new:clastic.application.Application'] = app_ctor
    E.externals['new:clastic.static.StaticApplication'] = app_ctor

    def arf_ctor(I, ctx, cv, args, kwargs, node, star):
        return VObj(ctx.new_obj('arf', distinct=False), 'ARF')
    E.externals['new:clastic.render.ashes_templates.AshesRenderFactory'] = arf_ctor
    E.add_opaque(OpaqueClass('ARF', methods={'register_source': lambda I, ctx, arf, *a, **kw: NONE}, truthy=True,
                             callable_=True))

    def dirname_model(I, ctx, p):
        p = I.resolve(ctx, p)
        return VStr(Z.func('dirname', Z.Str, Z.Str)(p.z if isinstance(p, VStr) else z3.StringVal('')))
    E.externals['os.path.dirname'] = dirname_model
    E.externals['posixpath.dirname'] = dirname_model
    E.externals['os.path.abspath'] = lambda I, ctx, p: VStr(Z.func('abspath', Z.Str, Z.Str)(p.z))
    for modfile in ('ast.__file__', 'os.__file__', 'werkzeug.__file__', 'clastic.__file__'):
        from pyvc.models2 import EXT_CONSTS
        EXT_CONSTS[modfile] = '/lib/%s.py' % modfile.split('.')[0]

    def not_text(o):
        # "not text at all": an object that is neither str nor bytes (those have their own cases)
        C = E.classes
        return z3.And(z3.Not(issub(cls_of(o), C.const('builtins.str'))), z3.Not(issub(cls_of(o), C.const('builtins.bytes'))))

    tb_cases = [('text', {'traceback_string': TStr}), ('bytes', {'traceback_string': TBytes}),
                ('None', {'traceback_string': TConst(NONE)}), ('other object', {'traceback_string': TObj(inv=not_text)})]
    files_cases = [('no files', TConst(NONE)), ('files', TList(TStr))]
    cases = []
    for tl, tp in tb_cases:
        for fl, ft in files_cases:
            p = dict(tp)
            p['monitored_files'] = ft
            cases.append(('%s, %s' % (tl, fl), p))

    @E.spec('RESOURCE_IS')
    def RESOURCE_IS(I, ctx, key, value):
        """the resources dict handed to Application(...) maps key to that very value"""
        ev = [e for e in ctx.trace if e[0] == 'Application' and len(e[1]) >= 2]
        if not ev:
            return VBool(False)
        res = I.resolve(ctx, ev[-1][1][1])
        h = ctx.heap[res.rid]
        k = key.const()
        if h.conc is None or k not in h.conc:
            return VBool(False)
        return VBool(I.identical(ctx, h.conc[k], value))

    @E.spec('RESOURCE_IS_TEXT')
    def RESOURCE_IS_TEXT(I, ctx, key, value):
        """the resource is that very value, or -- for text -- its sanitised form (A-enc: the identity on encodable text)"""
        ev = [e for e in ctx.trace if e[0] == 'Application' and len(e[1]) >= 2]
        if not ev:
            return VBool(False)
        res = I.resolve(ctx, ev[-1][1][1])
        h = ctx.heap[res.rid]
        k = key.const()
        if h.conc is None or k not in h.conc:
            return VBool(False)
        got = I.resolve(ctx, h.conc[k])
        value = I.resolve(ctx, value)
        if isinstance(value, VStr):
            if not isinstance(got, VStr):
                return VBool(False)
            san = Z.func('str_sanitised:backslashreplace', Z.Str, Z.Str)(value.z)
            return VBool(z3.Or(got.z == value.z, got.z == san))
        return VBool(I.identical(ctx, got, value))

    @E.spec('ROUTES_COVER_ALL_PATHS')
    def ROUTES_COVER(I, ctx):
        ev = [e for e in ctx.trace if e[0] == 'Application' and len(e[1]) >= 2]
        if not ev:
            return VBool(False)
        routes = I.iter_concrete(ctx, ev[-1][1][0])
        pats = []
        for r in routes:
            it = I.iter_concrete(ctx, r)
            p = it[0].const() if isinstance(it[0], VStr) else None
            pats.append(p)
        return VBool('/' in pats and '/<_ignored*>' in pats)

    E.add_contract(Contract(
        'clastic.flaw.create_app',
        cases=cases,
        loops={},
        # the text is shown as given; unencodable characters (lone surrogates) escaped -- the identity on encodable text
        ensures=['RESOURCE_IS_TEXT("tb_str", traceback_string)', 'RESOURCE_IS("all_mon_files", monitored_files)',
                 'ROUTES_COVER_ALL_PATHS()'],
        trace_ensures=True,
        returns=TObj('App'), prop=['C20']))

    E.add_contract(Contract(
        'clastic.flaw.get_flaw_info',
        params={'parsed_error': TObj(), 'all_mon_files': TObj(), 'mon_files': TObj()},
        cases=[('text', {'tb_str': TStr}), ('bytes', {'tb_str': TBytes}), ('None', {'tb_str': TConst(NONE)}),
               ('other object', {'tb_str': TObj()})],
        ensures=['keys(result) == set(["mon_files", "all_mon_files", "parsed_err", "last_line", "tb_str"])',
                 'result["tb_str"] is tb_str', 'result["mon_files"] is mon_files', 'result["all_mon_files"] is all_mon_files'],
        returns=TDict(TStr, TObj()), prop=['C20']))


def verify_serve_error_app(pc, E):
    """run_simple.serve_error_app (the closure the reloader calls after a failed start-up): the failsafe application is
    built from exactly the error text and the monitored files it was handed."""
    import ast as _ast
    from pyvc.run import Item
    mod = E.repo.module('clastic.server')
    outer = mod.funcs.get('run_simple')
    inner = None
    if outer is not None:
        for n in _ast.walk(outer):
            if isinstance(n, _ast.FunctionDef) and n.name == 'serve_error_app':
                inner = n
    if inner is None:
        pc.undecided.append(('run_simple.serve_error_app is no longer a nested def', None, 'clastic.server.run_simple'))
        return

    def setup(E_, ctx, fr):
        fr.locals['hostname'] = TStr.fresh(ctx, 'hostname')
        fr.locals['port'] = TInt.fresh(ctx, 'port')
        fr.locals['extra_files'] = TObj().fresh(ctx, 'extra_files')
    c = Contract('clastic.server.run_simple.<serve_error_app>',
                 params={'tb_str': TObj(), 'monitored_files': TObj()}, setup=setup,
                 at_call={'clastic.flaw.create_app': ['len(_args) == 2 and len(_kw) == 0 and _args[0] is tb_str and _args[1] is monitored_files']},
                 ensures=['CREATED_ONE_FAILSAFE_APP()'], may_raise_any=True, returns=TObj(), prop=['C20'])

    @E.spec('CREATED_ONE_FAILSAFE_APP')
    def CREATED_ONE_FAILSAFE_APP(I, ctx):
        return VBool(len([e for e in ctx.trace if e[0] == 'contract' and e[1] == 'clastic.flaw.create_app']) == 1)
    res = E.verify_node(c, mod, inner)
    pc.functions.append({'function': 'run_simple.serve_error_app (nested def, extracted by name)', 'file': 'clastic/server.py',
                         'lines': [inner.lineno, inner.end_lineno], 'sha1': None, 'paths': res.paths,
                         'obligation_instances': len(res.obligations)})
    for why, line in res.undecided:
        pc.undecided.append((why, line, 'serve_error_app'))
    for o in res.obligations:
        pc.add_item(Item(o.clause.replace('server.run_simple.<serve_error_app>', 'C20.K/serve_error_app'),
                         'K', o.pc, o.goal, o.func, o.lineno, o.note, dict(o.extra, trail=o.trail)))
