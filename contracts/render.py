"""Sidecar contracts for clastic/render/simple.py (C17)."""
import z3
from pyvc import z as Z
from pyvc.values import *   # noqa
from pyvc.engine import Contract, OpaqueClass
from pyvc import models as M
from pyvc.classes import cls_of, issub
from pyvc.state import RaiseSig

DEPENDS = ('std', 'application')

MIMETYPE = Z.func('MIMETYPE', Z.Obj, Z.Str)
BODY = Z.func('BODY', Z.Obj, Z.Obj)
STATUS = Z.func('STATUS', Z.Obj, Z.Int)
SIZED = 'collections.abc.Sized'


def register(E):
    I = E.interp
    C = E.classes

    def response_model(I, ctx, response=None, status=None, headers=None, mimetype=None, content_type=None, **kw):
        r = ctx.new_obj('response', distinct=False)
        ctx.assume(issub(cls_of(r), C.const('werkzeug.wrappers.response.Response')))
        ctx.assume(STATUS(r) == (TInt.to_z(status) if status is not None and not isinstance(status, VNone) else 200))
        if mimetype is not None and isinstance(mimetype, VStr):
            ctx.assume(MIMETYPE(r) == mimetype.z)
        if response is not None:
            ctx.assume(BODY(r) == box(I.resolve(ctx, response), ctx))
        ctx.trace.append(('Response', r))
        return VObj(r, 'Response')

    E.externals['werkzeug.wrappers.response.Response'] = response_model

    @E.spec('MIMETYPE')
    def MIMETYPE_(I, ctx, r):
        return VStr(MIMETYPE(r.z))

    @E.spec('BODY_IS')
    def BODY_IS(I, ctx, r, v):
        return VBool(BODY(r.z) == box(I.resolve(ctx, v), ctx))

    @E.spec('JSONLIKE')
    def JSONLIKE(I, ctx, b):
        """from the statement: a serialized JSON object or array -- non-empty, first and last
        bytes are {} or []"""
        z = b.z
        n = z3.Length(z)
        first = z3.SubString(z, 0, 1)
        last = z3.SubString(z, n - 1, 1)
        return VBool(z3.And(n > 0, z3.Or(z3.And(first == z3.StringVal('{'), last == z3.StringVal('}')),
                                          z3.And(first == z3.StringVal('['), last == z3.StringVal(']')))))

    @E.spec('UTF8')
    def UTF8(I, ctx, s):
        return VBytes(Z.func('str_encode', Z.Str, Z.Str)(s.z))

    # ---- BasicRender._guess_json -----------------------------------------------------------
    E.add_contract(Contract(
        'clastic.render.simple.BasicRender._guess_json',
        params={'bytestr': TBytes},
        ensures=['result == JSONLIKE(bytestr)'], returns=TBool, prop=['C17']))

    # ---- BasicRender.render_response ------------------------------------------------------
    def render_call(mt):
        def call(I, ctx, fv, *a, **kw):
            return response_model(I, ctx, response=a[0] if a else None, mimetype=VStr(mt))
        return call
    E.add_opaque(OpaqueClass('JSONRenderT', methods={'__call__': render_call('application/json')}, callable_=True, truthy=True))
    E.add_opaque(OpaqueClass('TabularRenderT', methods={'__call__': render_call('text/html')}, callable_=True, truthy=True))

    def best_match(I, ctx, acc, offered, default=None):
        r = Z.func('BEST_MATCH', Z.Obj, Z.Obj)(acc.z)
        return VObj(r)
    if 'MIMEAccept' not in E.opaque:        # contracts/errors.py (C09) owns the model when it is loaded
        E.add_opaque(OpaqueClass('MIMEAccept', methods={'best_match': best_match}, truthy=None))
    E.opaque['Request'].attrs['accept_mimetypes'] = TObj('MIMEAccept', inv=lambda a: a != Z.NONE)
    if 'Args' not in E.opaque:
        def args_get(I, ctx, args, key, default=None, type=None):
            return VObj(Z.func('ARGS_GET', Z.Obj, Z.Str, Z.Obj)(args.z, key.z))
        E.add_opaque(OpaqueClass('Args', methods={'get': args_get}, truthy=None))
        E.opaque['Request'].attrs['args'] = TObj('Args', inv=lambda h: h != Z.NONE)

    self_t = TInst('clastic.render.simple.BasicRender',
                   {'qp_name': TStr, 'dev_mode': TBool, 'json_render': TObj('JSONRenderT', inv=lambda a: a != Z.NONE),
                    'tabular_render': TObj('TabularRenderT', inv=lambda a: a != Z.NONE)})
    sized = TObj('SizedObj', inv=lambda o: z3.And(o != Z.NONE, issub(cls_of(o), C.const(SIZED)),
                                                   z3.Not(issub(cls_of(o), C.const('builtins.str'))),
                                                   z3.Not(issub(cls_of(o), C.const('builtins.bytes')))))
    other = TObj('OtherObj', inv=lambda o: z3.And(z3.Not(issub(cls_of(o), C.const(SIZED))),
                                                   z3.Not(issub(cls_of(o), C.const('builtins.str'))),
                                                   z3.Not(issub(cls_of(o), C.const('builtins.bytes')))))
    E.add_opaque(OpaqueClass('SizedObj', truthy=None))
    E.add_opaque(OpaqueClass('OtherObj', truthy=None))
    text_post = ['STATUS(result) == 200',
                 'MIMETYPE(result) == ("application/json" if JSONLIKE(AS_BYTES) else '
                 '("text/html" if b"<html" in AS_BYTES[:168] else "text/plain"))',
                 'BODY_IS(result, AS_BYTES)']

    def setup(E_, ctx, fr):
        c = fr.locals['context']
        if isinstance(c, VStr):
            E_.specns['AS_BYTES'] = VBytes(Z.func('str_encode', Z.Str, Z.Str)(c.z))
        elif isinstance(c, VBytes):
            E_.specns['AS_BYTES'] = c
        else:
            E_.specns['AS_BYTES'] = VBytes('')

    def fmt_ok(E_, ctx, fr):
        setup(E_, ctx, fr)

    E.add_contract(Contract(
        'clastic.render.simple.BasicRender.render_response',
        params={'self': self_t, 'request': TObj('Request'), '_route': TObj('BoundRoute')},
        cases=[('text', {'context': TStr}), ('bytes', {'context': TBytes}),
               ('number/None/object (not Sized)', {'context': other}),
               ('None', {'context': TConst(NONE)}), ('int', {'context': TInt}), ('bool', {'context': TBool})],
        setup=setup,
        ensures=['STATUS(result) == 200',
                 'implies(IS_TEXT, MIMETYPE(result) == ("application/json" if JSONLIKE(AS_BYTES) else '
                 '("text/html" if b"<html" in AS_BYTES[:168] else "text/plain")))',
                 'implies(IS_TEXT, BODY_IS(result, AS_BYTES))',
                 'implies(not IS_TEXT, MIMETYPE(result) == "text/plain")'],
        returns=TObj('Response'), prop=['C17']))

    @E.spec('STATUS')
    def STATUS_(I, ctx, r):
        return VInt(STATUS(r.z))

    def is_text_setup(orig):
        def s(E_, ctx, fr):
            orig(E_, ctx, fr)
            c = fr.locals['context']
            E_.specns['IS_TEXT'] = VBool(isinstance(c, (VStr, VBytes)))
        return s
    E.contracts['clastic.render.simple.BasicRender.render_response'].setup = is_text_setup(setup)

    # Sized, non-text results: serialised by the JSON renderer unless HTML is asked for
    E.add_contract(Contract(
        'clastic.render.simple.BasicRender.render_response',
        params={'self': self_t, 'request': TObj('Request'), '_route': TObj('BoundRoute'), 'context': sized},
        requires=['FORMAT_SUPPORTED(self, request)'],
        inline=['clastic.render.simple.BasicRender._serialize_to_resp'],
        ensures=['STATUS(result) == 200',
                 'MIMETYPE(result) == "application/json" or MIMETYPE(result) == "text/html"',
                 'implies(MIMETYPE(result) == "text/html", HTML_WANTED(self, request))'],
        returns=TObj('Response'), prop=['C17']), key='clastic.render.simple.BasicRender.render_response#sized')

    ARGS_GET = Z.func('ARGS_GET', Z.Obj, Z.Str, Z.Obj)
    from pyvc.interp import truthy
    from pyvc.values import box_str

    def req_format(ctx, self_, request):
        args = E.read_typed_attr(ctx, 'Request.args', TObj('Args'), request.z)
        qp = ctx.heap[self_.rid].fields['qp_name']
        return ARGS_GET(args.z, qp.z)

    @E.spec('FORMAT_SUPPORTED')
    def FORMAT_SUPPORTED(I, ctx, self_, request):
        f = req_format(ctx, self_, request)
        return VBool(z3.Or(z3.Not(truthy(f)), f == box_str(z3.StringVal('json')), f == box_str(z3.StringVal('html'))))

    @E.spec('HTML_WANTED')
    def HTML_WANTED(I, ctx, self_, request):
        f = req_format(ctx, self_, request)
        acc = E.read_typed_attr(ctx, 'Request.accept_mimetypes', TObj('MIMEAccept'), request.z)
        bm = Z.func('BEST_MATCH', Z.Obj, Z.Obj)(acc.z)
        return VBool(z3.Or(f == box_str(z3.StringVal('html')),
                           z3.And(z3.Not(truthy(f)), bm == box_str(z3.StringVal('text/html')))))

    # user serialisation hooks are assumed total (stated precondition)
    def total_call(I, ctx, fv, *a, **kw):
        return VObj(Z.fresh('hook_result', Z.Obj))
    E.add_opaque(OpaqueClass('TotalFn', methods={'__call__': total_call}, callable_=None, truthy=None))
    for hook in ('to_dict', 'asdict', 'isoformat'):
        E.attr_types[hook] = TObj('TotalFn')

    # ---- ClasticJSONEncoder.default ----------------------------------------------------------
    enc_t = TInst('clastic.render.simple.ClasticJSONEncoder', {'dev_mode': TBool})
    E.add_contract(Contract(
        'clastic.render.simple.ClasticJSONEncoder.default',
        params={'self': enc_t, 'obj': TObj()},
        ensures=[],
        raises={'builtins.TypeError': None},
        raises_local={'builtins.TypeError': 'not self.dev_mode'},
        may_raise_any=False, returns=TObj(), prop=['C17'],
        note='in dev mode an unknown object degrades to its repr instead of failing'))
