"""Sidecar contracts for clastic/application.py."""
import z3
from pyvc import z as Z
from pyvc.values import *   # noqa
from pyvc.engine import Contract, OpaqueClass
from pyvc.loops import LoopSpec
from pyvc import models as M
from pyvc.classes import cls_of, issub
from pyvc.state import RaiseSig, Unsupported, SHAREDP
from pyvc.values import box_map
from pyvc.interp import is_callable, truthy
from specs.sig import *   # noqa
from contracts.sinter import TFunc
from contracts.core import TMW
from contracts.route import TRoute, TBRoute, TApp, TEH, TAny, TResources

DEPENDS = ('sinter', 'core', 'route')

SeqO = Z.SeqSort(Z.Obj)


def any_exception(E, ctx, node=None):
    e = ctx.new_obj('exc', distinct=False)
    ctx.assume(issub(cls_of(e), E.classes.const('builtins.Exception')))
    raise RaiseSig(VObj(e, None), node)


def register(E):
    I = E.interp

    # ---- route factories as seen by Application.add -----------------------------------
    def bind_all_call(I, ctx, fv, *args, **kwargs):
        if ctx.nondet(2, 'bind_all raises') == 1:
            any_exception(E, ctx)
        ctx.trace.append(('bind_all', fv, list(args), dict(kwargs)))
        r = Z.fresh('bound_routes', SeqO)
        return ctx.alloc(HList(z=r, et=TBRoute))

    def bind_call(I, ctx, fv, *args, **kwargs):
        if ctx.nondet(2, 'bind raises') == 1:
            any_exception(E, ctx)
        ctx.trace.append(('bind', fv, list(args), dict(kwargs)))
        return VObj(ctx.new_obj('bound', distinct=False), 'BoundRoute')

    E.add_opaque(OpaqueClass('BindAllFn', methods={'__call__': bind_all_call}))
    E.add_opaque(OpaqueClass('BindFn', methods={'__call__': bind_call}, callable_=True, truthy=True))
    E.add_opaque(OpaqueClass('RF', closed=False, truthy=True, attrs={
        'bind_all': TObj('BindAllFn'), 'bind': TObj('BindFn', inv=lambda b: b != Z.NONE)}))

    def cast_model(I, ctx, in_arg):
        # may raise TypeError (not a route) or whatever Route()/SubApplication() raise
        if ctx.nondet(2, 'cast raises') == 1:
            any_exception(E, ctx)
        return VObj(ctx.new_obj('rf', distinct=False), 'RF')

    E.add_contract(Contract('clastic.application.cast_to_route_factory', trusted=True, model=cast_model,
                            note='summary used by Application.add: returns a route factory or raises; '
                                 'the function itself is under contract for C10'))

    app_fields = {'routes': TList(TBRoute), 'resources': TDict(TStr, TObj()), 'middlewares': TList(TMW),
                  'slash_mode': TStr, 'error_handler': TEH, 'render_factory': TAny, '_null_route': TBRoute,
                  'debug': TAny}
    E.app_fields = app_fields
    TSelfApp = TInst('clastic.application.Application', app_fields)

    # where list.insert puts the first new route
    def I0(I, ctx, index, n):
        index = I.resolve(ctx, index) if not isinstance(index, VOpt) else index
        nz = TInt.to_z(n)
        if isinstance(index, VOpt):
            iz = index.val.z
            clamp = z3.If(iz < 0, z3.If(nz + iz < 0, z3.IntVal(0), nz + iz), z3.If(iz > nz, nz, iz))
            return VInt(z3.If(index.isnone, nz, clamp))
        if isinstance(index, VNone):
            return VInt(nz)
        iz = index.z
        return VInt(z3.If(iz < 0, z3.If(nz + iz < 0, z3.IntVal(0), nz + iz), z3.If(iz > nz, nz, iz)))

    register_dispatch(E)
    register_dispatch_contract(E)
    register_bind_all(E)
    from contracts import route as _route
    _route.register_more(E)
    E.specns['INSERT_AT'] = __import__('pyvc.interp', fromlist=['VSpecFn']).VSpecFn(I0, 'INSERT_AT')
    E.specns['INSERT_AT'].keep_opt = True      # distinguishes index=None itself

    E.add_contract(Contract(
        'clastic.application.Application.add',
        params={'self': TSelfApp, 'entry': TAny, 'index': TOpt(TInt),
                'kwargs': lambda E_, ctx, n: ctx.alloc(HDict(conc={}))},
        loops={('br', 'bound_routes'): LoopSpec(
            ghost={'SPLIT': 'split_at(self.routes, index)'},
            inv=['self.routes == SPLIT[0] + _done + SPLIT[1]',
                 'index == at_entry(index) + _i',
                 'at_entry(index) >= len(SPLIT[0])',
                 'len(SPLIT[1]) == 0 or at_entry(index) == len(SPLIT[0])'],
            modifies=['self.routes'])},
        # OLD = (routes before the position list.insert(index) uses, routes from there on)
        ghost={'OLD': 'split_at(self.routes, INSERT_AT(index, len(self.routes)))'},
        ensures=[
            # the new routes are inserted contiguously, in order, at the requested position;
            # every other route keeps its relative order
            'self.routes == OLD[0] + list(bound_routes) + OLD[1]',
        ],
        exc_ensures=['self.routes == old(self.routes)'],
        may_raise_any=True,
        prop=['C06', 'C11']))


# ======================================================================================
# request path: dispatch and what it calls
# ======================================================================================
BR_CLS = 'werkzeug.wrappers.base_response.BaseResponse'
HE_CLS = 'clastic.errors.HTTPException'
RR_CLS = 'clastic.application.RerouteWSGI'

MATCH = Z.func('MATCH', Z.Obj, Z.Str, Z.Bool)            # route's pattern matches (and converts) the path
PPDOM = Z.func('PPDOM', Z.Obj, Z.Str, Z.SetSort(Z.Str))
PPARR = Z.func('PPARR', Z.Obj, Z.Str, z3.ArraySort(Z.Str, Z.Obj))
UPPER = Z.func('str_upper', Z.Str, Z.Str)
NORM = Z.func('NORM', Z.Str, Z.Bool, Z.Str)
LOCATION = Z.func('LOCATION', Z.Obj, Z.Str)
STATUS = Z.func('STATUS', Z.Obj, Z.Int)
ALLOW = Z.func('ALLOW', Z.Obj, Z.SetSort(Z.Str))
HAS_BREAK = Z.func('hasattr:is_breaking', Z.Obj, Z.Bool)
BREAK_ATTR = Z.const('H0:*.is_breaking', z3.ArraySort(Z.Obj, Z.Obj))


def is_breaking_z(o):
    return z3.If(HAS_BREAK(o), truthy(z3.Select(BREAK_ATTR, o)), z3.BoolVal(True))


def register_dispatch(E):
    I = E.interp
    C = E.classes
    from pyvc.interp import VSpecFn

    def isinst(o, cls):
        return issub(cls_of(o), C.const(cls))

    E.add_opaque(OpaqueClass('Request', dotted='werkzeug.wrappers.request.Request', truthy=True, attrs={
        'path': TStr, 'method': TStr, 'url_root': TStr, 'query_string': TBytes}))
    E.add_opaque(OpaqueClass('Response', dotted='werkzeug.wrappers.response.Response', truthy=True))
    from contracts import errors as _errors
    _errors.register_negotiation(E)

    # ---- callee summaries -----------------------------------------------------------------
    RESERVED = Z.empty_set(Z.Str)
    for nm in E.refl['modules']['clastic.route']['consts'].get('RESERVED_ARGS', {'v': []})['v']:
        RESERVED = z3.SetAdd(RESERVED, z3.StringVal(nm['v']))
    RESERVED = z3.SetAdd(z3.SetAdd(RESERVED, z3.StringVal('_route')), z3.StringVal('_error'))

    def pp_dom(route_z, path_z):
        # well-formedness of a bound route (established at bind time: check_middlewares rejects a URL
        # binding named like a built-in -- C04 -- and match_path returns exactly the converter names -- C05)
        return z3.SetDifference(PPDOM(route_z, path_z), RESERVED)
    E.pp_dom = pp_dom

    def match_path_model(I, ctx, route, path):
        m = MATCH(route.z, path.z)
        return VOpt(Z.Not(m), VMap(pp_dom(route.z, path.z), PPARR(route.z, path.z), TStr, TObj()))

    E.add_contract(Contract('clastic.route.BoundRoute.match_path', trusted=True, model=match_path_model,
                            note='call-site summary: None iff the route does not match, else the dict of converted '
                                 'bindings, never raises; the function itself is verified under C05'))

    def admits_z(route_v, method_z, ctx):
        ms = E.read_typed_attr(ctx, 'BoundRoute.methods', TOpt(TSet(TStr)), route_v.z)
        none_or_empty = z3.Or(ms.isnone, ms.val.z == Z.empty_set(Z.Str))
        return z3.Or(z3.Length(method_z) == 0, none_or_empty, z3.IsMember(UPPER(method_z), ms.val.z))

    E.admits_z = admits_z

    # BoundRoute.match_method is small: it is inlined into dispatch (and verified on its own for C06)
    def normalize_model(I, ctx, path, is_branch):
        r = NORM(path.z, I.truth(ctx, is_branch))
        return VStr(r)

    E.add_contract(Contract('clastic.route.normalize_path', trusted=True, model=normalize_model,
                            note='call-site summary: a pure function of (path, is_branch); verified under C07'))

    def redirect_model(I, ctx, location, code=None, Response=None):
        r = ctx.new_obj('redirect', distinct=False)
        ctx.assume(isinst(r, 'werkzeug.wrappers.response.Response'))
        ctx.assume(LOCATION(r) == location.z)
        ctx.assume(STATUS(r) == (TInt.to_z(code) if code is not None else 302))
        return VObj(r, 'Response')

    E.externals['werkzeug.utils.redirect'] = redirect_model

    # error types of the error handler: calling one builds an HTTPException instance
    def errtype_call(I, ctx, fv, *args, **kwargs):
        sr0 = kwargs.get('source_route')
        if sr0 is not None and isinstance(sr0, VObj):
            e = Z.func('ERR_OF', Z.Obj, Z.Obj, Z.Obj)(fv.z, sr0.z)
            ctx.assume(e != Z.NONE)
        else:
            e = ctx.new_obj('httperr', distinct=False)
        ctx.assume(z3.Not(Z.func('ISRENDERED', Z.Obj, Z.Bool)(e)))     # ghost: a freshly built error is not a rendering
        ctx.assume(isinst(e, HE_CLS))
        ctx.assume(Z.func('ERRTYPE_OF', Z.Obj, Z.Obj)(e) == fv.z)
        ctx.assume(z3.Or(z3.Not(HAS_BREAK(e)), truthy(z3.Select(BREAK_ATTR, e))))    # is_breaking defaults to True
        sr = kwargs.get('source_route')
        ctx.assume(Z.func('hasattr:source_route', Z.Obj, Z.Bool)(e))
        ctx.attr_write('*.source_route', Z.Obj, e, box(sr, ctx) if sr is not None else Z.NONE)
        ctx.writes.pop()        # initialisation of a fresh object, not a write to a shared one
        if getattr(ctx, 'frame_mark', None) is not None:
            ctx.frame_conds.pop()
        ctx.assume(z3.Not(SHAREDP(e)))
        if 'allowed_methods' in kwargs:
            ctx.assume(ALLOW(e) == M.iterable_as_set(I, ctx, kwargs['allowed_methods'])[0])
            ctx.assume(STATUS(e) == 405)
        return VObj(e)

    E.add_opaque(OpaqueClass('ErrType', methods={'__call__': errtype_call}, callable_=True, truthy=True))
    for nm in ('not_found_type', 'method_not_allowed_type', 'server_error_type', 'exc_info_type'):
        E.opaque['EH'].attrs[nm] = TObj('ErrType', inv=lambda t: t != Z.NONE)

    UNCAUGHT = Z.func('UNCAUGHT_RESP', Z.Obj, Z.Obj, Z.Obj)     # (handler, exception) -> server error response
    RERAISE = Z.func('RERAISE', Z.Obj, Z.Bool)

    def uncaught_model(I, ctx, eh, **kwargs):
        cur = getattr(ctx, 'handling', None)
        if ctx.branch(RERAISE(eh.z)):
            raise RaiseSig(cur, None)
        ez = box(cur, ctx)
        r = UNCAUGHT(eh.z, ez)
        ctx.assume(isinst(r, HE_CLS))
        ctx.assume(r != Z.NONE)
        ctx.assume(is_breaking_z(r))
        ctx.assume(STATUS(r) == 500)
        ctx.assume(z3.Not(SHAREDP(r)))
        return VObj(r)

    E.opaque['EH'].methods['uncaught_to_response'] = uncaught_model

    # route.execute(**params): user code -- any result, any exception; the built-in catch-all
    # route runs NullRoute.handle_sentinel_condition on the injected dispatch state
    IS_NULL = Z.func('IS_NULL_ROUTE', Z.Obj, Z.Bool)
    XRAISES = Z.func('XRAISES', Z.Obj, Z.Bool)
    XRET = Z.func('XRET', Z.Obj, Z.Obj)
    XEXC = Z.func('XEXC', Z.Obj, Z.Obj)
    E.ghost.update(IS_NULL=IS_NULL, XRAISES=XRAISES, XRET=XRET, XEXC=XEXC, MATCH=MATCH)

    def execute_model(I, ctx, route, request=None, **kwargs):
        star = kwargs.pop('__star__', None)
        ctx.trace.append(('execute', route, request, kwargs, star))
        if ctx.branch(IS_NULL(route.z)):
            # composition of the verified contracts of inject / the generated chain /
            # handle_sentinel_condition (C01, C02, C06): the sentinel sees this request's dispatch state
            ds = None
            if star is not None:
                d = M.dict_sym(I, ctx, star)
                ds = ctx.unbox_ref(Z.simp(z3.Select(d[1], z3.StringVal('_dispatch_state'))))
            if ds is None:
                raise Unsupported('the keyword mapping handed to the catch-all route does not visibly carry this request\'s dispatch state')
            h = ctx.heap[ds.rid]
            excs = I._as_seq(ctx, h.fields['exceptions'], TObj())
            am = I._as_set(ctx, h.fields['allowed_methods'])
            n = z3.Length(excs[0])
            if ctx.branch(n > 0):
                return VObj(Z.simp(excs[0][n - 1]))
            eh = ctx.heap[ctx.app_self.rid].fields['error_handler']
            if ctx.branch(am[0] != Z.empty_set(Z.Str)):
                t = E.read_typed_attr(ctx, 'EH.method_not_allowed_type', E.opaque['EH'].attrs['method_not_allowed_type'], eh.z)
                return errtype_call(I, ctx, t, allowed_methods=VSet(am[0], TStr))
            t = E.read_typed_attr(ctx, 'EH.not_found_type', E.opaque['EH'].attrs['not_found_type'], eh.z)
            r = errtype_call(I, ctx, t)
            ctx.assume(STATUS(r.z) == 404)
            return r
        RF = Z.func('RENDERED_FROM', Z.Obj, Z.Obj)
        # C12 assumption: what user code returns / raises for this request is not shared with other requests
        if ctx.branch(XRAISES(route.z)):
            e = XEXC(route.z)
            ctx.assume(isinst(e, 'builtins.Exception'))
            ctx.assume(e != Z.NONE)
            ctx.assume(z3.Not(SHAREDP(e)))
            raise RaiseSig(VObj(e), None)
        ctx.assume(z3.Not(SHAREDP(XRET(route.z))))
        return VObj(XRET(route.z))

    E.add_contract(Contract('clastic.route.BoundRoute.execute', trusted=True, model=execute_model,
                            note='call-site summary used by dispatch: the outcome of executing a route is an '
                                 'uninterpreted function of the route within one request (any value, any Exception); '
                                 'for the built-in catch-all route it is the verified contract of '
                                 'NullRoute.handle_sentinel_condition applied to this request\'s dispatch state'))

    def from_star(I, ctx, star, name):
        d = M.dict_sym(I, ctx, star)
        return d[3].wrap(Z.simp(z3.Select(d[1], z3.StringVal(name))))

    def execute_error_model(I, ctx, route, request=None, _error=None, **kwargs):
        star = kwargs.pop('__star__', None)
        if _error is None and star is not None:
            _error = from_star(I, ctx, star, '_error')
        if ctx.nondet(2, 'render_error raises') == 1:
            any_exception(E, ctx)
        r = ctx.new_obj('rendered_error', distinct=False)
        ctx.assume(isinst(r, BR_CLS))
        ctx.assume(Z.func('RENDERED_FROM', Z.Obj, Z.Obj)(r) == box(_error, ctx) if _error is not None else Z.TRUE)
        ctx.assume(Z.func('ISRENDERED', Z.Obj, Z.Bool)(r))
        ctx.assume(z3.Not(SHAREDP(r)))
        return VObj(r)

    E.add_contract(Contract('clastic.route.BoundRoute.execute_error', trusted=True, model=execute_error_model,
                            note='call-site summary: the error renderer returns a Response or raises anything '
                                 '(precondition on user render_error functions: they return Responses)'))

    def default_render_error_model(I, ctx, request=None, _error=None, **kwargs):
        star = kwargs.pop('__star__', None)
        if _error is None and star is not None:
            _error = from_star(I, ctx, star, '_error')
        return _error

    E.add_contract(Contract('clastic.application.default_render_error', trusted=True, model=default_render_error_model,
                            note='call-site summary: adapts and returns the same error object, never raises '
                                 '(verified under C09 with A-wz-req: best_match total)'))
    E.attr_types = getattr(E, 'attr_types', {})
    E.attr_types['source_route'] = TObj('BoundRoute')


def register_dispatch_contract(E):
    I = E.interp
    C = E.classes
    from pyvc.interp import VSpecFn
    IS_NULL = E.ghost['IS_NULL']

    @E.spec('IS_NULL_ROUTE')
    def IS_NULL_ROUTE(I, ctx, r):
        return VBool(IS_NULL(r.z))

    @E.spec('MATCHES')
    def MATCHES(I, ctx, r, path):
        return VBool(MATCH(r.z, path.z))

    @E.spec('ADMITS')
    def ADMITS(I, ctx, r, method):
        return VBool(E.admits_z(r, method.z, ctx))

    @E.spec('ISBREAKING')
    def ISBREAKING(I, ctx, o):
        o = I.resolve(ctx, o)
        if isinstance(o, VNone):
            return VBool(True)
        return VBool(is_breaking_z(o.z))

    @E.spec('RERAISE')
    def RERAISE_(I, ctx, eh):
        return VBool(Z.func('RERAISE', Z.Obj, Z.Bool)(eh.z))

    @E.spec('no_null_routes')
    def no_null_routes(I, ctx, routes):
        q = I._as_seq(ctx, I.resolve(ctx, routes), TBRoute)
        k = z3.Int(Z.fresh_name('qi'))
        return VBool(z3.ForAll([k], z3.Implies(z3.And(k >= 0, k < z3.Length(q[0])), z3.Not(IS_NULL(q[0][k])))))

    def setup(E_, ctx, fr):
        ctx.app_self = fr.locals['self']

    HE, BR, RR = HE_CLS, BR_CLS, RR_CLS
    EXCF, AMF = folds(E)

    def rf(I, ctx, r, request):
        P = E.read_typed_attr(ctx, 'Request.path', TStr, request.z).z
        Mth = E.read_typed_attr(ctx, 'Request.method', TStr, request.z).z
        return route_facts(E, r.z, P, Mth), P, Mth

    for nm in ('answers', 'redirect', 'plain', 'executes', 'nonbreak', 'match', 'admits'):
        def mk(nm):
            def f(I, ctx, r, request):
                return VBool(rf(I, ctx, r, request)[0][nm])
            return f
        E.specns[nm.upper() + '_R'] = VSpecFn(mk(nm), nm.upper() + '_R')

    def _nft(ctx, eh):
        return E.read_typed_attr(ctx, 'EH.not_found_type', E.opaque['EH'].attrs['not_found_type'], eh.z).z

    @E.spec('EXCFOLD')
    def EXCFOLD(I, ctx, S, i, request, eh):
        q = I._as_seq(ctx, I.resolve(ctx, S), TBRoute)
        _, P, Mth = rf(I, ctx, VObj(Z.NONE), request)
        return VSeq(EXCF(q[0], TInt.to_z(i), P, Mth, _nft(ctx, eh)), TObj())

    @E.spec('AMFOLD')
    def AMFOLD(I, ctx, S, i, request):
        q = I._as_seq(ctx, I.resolve(ctx, S), TBRoute)
        _, P, Mth = rf(I, ctx, VObj(Z.NONE), request)
        return VSet(AMF(q[0], TInt.to_z(i), P, Mth), TStr)

    ISRENDERED = Z.func('ISRENDERED', Z.Obj, Z.Bool)

    @E.spec('RENDERS')
    def RENDERS(I, ctx, result, err):
        """result is the error itself (default rendering adapts it in place) or what the
        route's error renderer made of it"""
        return VBool(z3.Or(result.z == err.z, z3.And(ISRENDERED(result.z), RENDERED_FROM(result.z) == err.z)))

    @E.spec('ERROR_OF')
    def ERROR_OF(I, ctx, result):
        return VObj(z3.If(ISRENDERED(result.z), RENDERED_FROM(result.z), result.z))

    @E.spec('ISRENDERED')
    def ISRENDERED_(I, ctx, r):
        return VBool(ISRENDERED(box(I.resolve(ctx, r), ctx)))

    @E.spec('ALLSELF')
    def ALLSELF(I, ctx, seq):
        q = I._as_seq(ctx, I.resolve(ctx, seq), TObj())
        k = z3.Int(Z.fresh_name('qi'))
        return VBool(z3.ForAll([k], z3.Implies(z3.And(k >= 0, k < z3.Length(q[0])),
                                              RENDERED_FROM(q[0][k]) == q[0][k]), patterns=[q[0][k]]))

    @E.spec('XRET')
    def XRET_(I, ctx, r):
        return VObj(XRET(r.z))

    @E.spec('RENDERED_FROM')
    def RENDERED_FROM_(I, ctx, r):
        return VObj(RENDERED_FROM(box(I.resolve(ctx, r), ctx)))

    @E.spec('STATUS')
    def STATUS_(I, ctx, r):
        return VInt(STATUS(r.z))

    @E.spec('ALLOW')
    def ALLOW2(I, ctx, r):
        return VSet(ALLOW(r.z), TStr)

    @E.spec('LOCATION')
    def LOCATION_(I, ctx, r):
        return VStr(LOCATION(r.z))

    @E.spec('NORM')
    def NORM_(I, ctx, p, b):
        return VStr(NORM(p.z, I.truth(ctx, b)))

    @E.spec('QUOTED_QUERY')
    def QUOTED_QUERY(I, ctx, request):
        qs = E.read_typed_attr(ctx, 'Request.query_string', TBytes, request.z)
        safe = E.refl['modules']['clastic.application']['consts'].get('_QUERY_SAFE', {'v': '/:'})['v']
        return VStr(Z.func('url_quote', Z.Str, Z.Str, Z.Str)(qs.z, z3.StringVal(safe)))

    @E.spec('URLQUOTE')
    def URLQUOTE(I, ctx, s):
        return VStr(Z.func('url_quote', Z.Str, Z.Str, Z.Str)(s.z, z3.StringVal('/:')))

    @E.spec('RSTRIP_SLASH')
    def RSTRIP_SLASH(I, ctx, s):
        from pyvc import strs
        return strs.method(I, ctx, None, s, 'rstrip', [VStr('/')], {}, None)

    NR = 'len(self.routes)'
    wf = ['IS_NULL_ROUTE(self._null_route)', 'no_null_routes(self.routes)',
          'MATCHES(self._null_route, request.path)', 'self._null_route.methods is None',
          'not self._null_route.is_branch']
    first = 'forall_int(0, _i, lambda j: implies(j < %s, not ANSWERS_R(_seq[j], request)))' % NR
    EXC_END = 'EXCFOLD(_seq, %s, request, self.error_handler)' % NR
    AM_END = 'AMFOLD(_seq, %s, request)' % NR
    # what is known when the loop is left by break or exhaustion (_i: index of the answering
    # route; >= len(self.routes) when only the built-in catch-all route answered)
    POST = [
        'isinstance_of(ret, "%s")' % BR,
        '_i <= %s + 1' % NR,
        first,
        'implies(_i < %s, ANSWERS_R(_seq[_i], request) and not REDIRECT_R(_seq[_i], request))' % NR,
        'implies(_i < %s and PLAIN_R(_seq[_i], request), ret is XRET(_seq[_i]))' % NR,
        'implies(_i >= %s and len(%s) > 0, ret is %s[-1])' % (NR, EXC_END, EXC_END),
        'implies(_i >= %s and len(%s) == 0 and len(%s) > 0, STATUS(ret) == 405 and ALLOW(ret) == %s and '
        'not ISRENDERED(ret))' % (NR, EXC_END, AM_END, AM_END),
        'implies(_i >= %s and len(%s) == 0 and len(%s) == 0, STATUS(ret) == 404 and not ISRENDERED(ret))' % (NR, EXC_END, AM_END),
        'implies(_i >= %s, isinstance_of(ret, "%s"))' % (NR, HE),
    ]
    loop = LoopSpec(
        inv=['ret is None or isinstance_of(ret, "%s")' % HE,
             'implies(_i > %s, isinstance_of(ret, "%s"))' % (NR, HE),
             '_i <= %s + 1' % NR,
             first,
             'implies(_i <= %s, dispatch_state.exceptions == EXCFOLD(_seq, _i, request, self.error_handler))' % NR,
             'implies(_i <= %s, dispatch_state.allowed_methods == AMFOLD(_seq, _i, request))' % NR,
             'implies(_i > %s, len(EXCFOLD(_seq, %s, request, self.error_handler)) > 0 and ret is EXCFOLD(_seq, %s, request, self.error_handler)[-1])' % (NR, NR, NR),
             'len(dispatch_state.exceptions) == 0 or isinstance_of(dispatch_state.exceptions[-1], "%s")' % HE,
             ],
        havoc={'ret': TObj(), 'params': TDict(TStr, TObj())},
        modifies={'dispatch_state.exceptions': TList(TObj()), 'dispatch_state.allowed_methods': TMSet(TStr)},
        havoc_attrs=['path_params', 'source_route'],
        post=POST)
    EXC_END = 'EXCFOLD(_seq, %s, request, self.error_handler)' % NR
    AM_END = 'AMFOLD(_seq, %s, request)' % NR
    E.dispatch_loop = loop

    @E.spec('NOT_SHARED')
    def NOT_SHARED(I, ctx, o):
        return VBool(z3.Not(SHAREDP(box(I.resolve(ctx, o), ctx))))
    E.add_contract(Contract(
        'clastic.application.Application.dispatch',
        params={'self': TInst('clastic.application.Application', E.app_fields), 'request': TObj('Request')},
        setup=setup, requires=wf,
        inline=['clastic.route.BoundRoute.match_method'],
        loops={('route', 'self.routes + [self._null_route]'): loop},
        ensures=[
            'isinstance_of(result, "%s")' % BR,
            # C06: routes before the answering one did not answer; the answering one does
            first,
            'implies(_i < %s, ANSWERS_R(_seq[_i], request))' % NR,
            # a plain Response of the answering route is returned as is
            'implies(_i < %s and PLAIN_R(_seq[_i], request), result is XRET(_seq[_i]))' % NR,
            # C07: a redirect is issued exactly by a redirecting route, to the canonical path, query kept
            # (from the statement: the path is escaped so that requesting the Location yields exactly the
            # canonical decoded path; the query is appended only when there is one)
            'implies(_i < %s and REDIRECT_R(_seq[_i], request), LOCATION(result) == RSTRIP_SLASH(request.url_root) + '
            'URLQUOTE(NORM(request.path, True)) + ("?" + QUOTED_QUERY(request) if len(request.query_string) > 0 else ""))' % NR,
            # no route answered: the most recent non-breaking error, else 405 + Allow, else 404
            'implies(_i >= %s and len(%s) > 0, RENDERS(result, %s[-1]))' % (NR, EXC_END, EXC_END),
            'implies(_i >= %s and len(%s) == 0 and len(%s) > 0, STATUS(ERROR_OF(result)) == 405 and '
            'ALLOW(ERROR_OF(result)) == %s)' % (NR, EXC_END, AM_END, AM_END),
            'implies(_i >= %s and len(%s) == 0 and len(%s) == 0, STATUS(ERROR_OF(result)) == 404)' % (NR, EXC_END, AM_END),
        ],
        raises={'builtins.Exception': None},
        raises_local={'builtins.Exception': 'isinstance_of(_exc, "%s") or RERAISE(self.error_handler)' % RR},
        heavy=True, prop=['C06', 'C07', 'C08', 'C12']))

    # ---- C02: what dispatch hands to the route it executes ------------------------------------
    @E.spec('PATH_PARAMS')
    def PATH_PARAMS(I, ctx, r, path):
        """the converted bindings match_path returned for this route and path"""
        return VMap(E.pp_dom(r.z, path.z), PPARR(r.z, path.z), TStr, TObj())

    PP = 'PATH_PARAMS(route, url_path)'
    SRC = ('(%s[k] if k in %s else (request if k == "request" else (self if k == "_application" else '
           '(dispatch_state if k == "_dispatch_state" else self.resources[k]))))' % (PP, PP))
    ERRKW = ['"_error" in _kw and _kw["_error"] is ret',
             'forall_keys(_kw, lambda k, v: k == "_error" or (k in params and v is params[k]))',
             'forall_keys(params, lambda k, v: k in _kw)']
    at_call = {
        'clastic.route.BoundRoute.execute': [
            '_callee_self is route and len(_args) == 0',
            'url_path == request.path and MATCHES(route, url_path)',
            'keys(_kw) == keys(%s) | keys(self.resources) | set(["request", "_application", "_dispatch_state"])' % PP,
            # (a name bound by the URL *and* registered as a resource is rejected at bind time -- C04 --
            # so no precedence between those two is claimed)
            'forall_keys(_kw, lambda k, v: implies(not (k in %s and k in self.resources), v is %s))' % (PP, SRC)],
        'EH.uncaught_to_response': [
            '"_route" in _kw and _kw["_route"] is route', '"_error" in _kw and _kw["_error"] is exc',
            'forall_keys(_kw, lambda k, v: k == "_error" or k == "_route" or (k in params and v is params[k]))',
            'forall_keys(params, lambda k, v: k in _kw)'],
        'clastic.route.BoundRoute.execute_error': ['len(_args) == 0'] + ERRKW,
        'clastic.application.default_render_error': ['len(_args) == 0'] + ERRKW,
    }
    E.add_contract(Contract(
        'clastic.application.Application.dispatch',
        params={'self': TInst('clastic.application.Application', E.app_fields), 'request': TObj('Request')},
        setup=setup, requires=wf,
        inline=['clastic.route.BoundRoute.match_method'],
        loops={('route', 'self.routes + [self._null_route]'): loop},
        ensures=[], at_call=at_call,
        raises={'builtins.Exception': None},
        heavy=True, prop=['C02'],
        note='the same loop contract as for C06-C08 (support); the C02 clauses are the at-call obligations'),
        key='clastic.application.Application.dispatch#C02')


# ---- C06/C07: classification of one route for one request, and the folds ---------------------
_HB = Z.const('H0:BoundRoute.is_branch', z3.ArraySort(Z.Obj, Z.Bool))
_HS = Z.const('H0:BoundRoute.slash_mode', z3.ArraySort(Z.Obj, Z.Str))
_HMN = Z.const('H0:BoundRoute.methods?none', z3.ArraySort(Z.Obj, Z.Bool))
_HM = Z.const('H0:BoundRoute.methods', z3.ArraySort(Z.Obj, Z.SetSort(Z.Str)))
_HNFT = Z.const('H0:EH.not_found_type', z3.ArraySort(Z.Obj, Z.Obj))
RENDERED_FROM = Z.func('RENDERED_FROM', Z.Obj, Z.Obj)
ERR_OF = Z.func('ERR_OF', Z.Obj, Z.Obj, Z.Obj)        # error built by an error type for a source route
XRAISES = Z.func('XRAISES', Z.Obj, Z.Bool)
XRET = Z.func('XRET', Z.Obj, Z.Obj)
XEXC = Z.func('XEXC', Z.Obj, Z.Obj)


_r = z3.Const('rf!r', Z.Obj)
_t = z3.Const('rf!t', Z.Obj)


def route_facts(E, r, P, Mth):
    C = E.classes

    def isa(o, cls):
        return issub(cls_of(o), C.const(cls))
    m = MATCH(r, P)
    mnone = z3.Select(_HMN, r)
    ms = z3.Select(_HM, r)
    a = z3.Or(z3.Length(Mth) == 0, mnone, ms == Z.empty_set(Z.Str), z3.IsMember(UPPER(Mth), ms))
    brn = z3.And(z3.Select(_HB, r), NORM(P, z3.BoolVal(True)) != P)
    mode = z3.Select(_HS, r)
    redir = z3.And(m, a, brn, mode == z3.StringVal('redirect'))
    strict = z3.And(m, a, brn, mode == z3.StringVal('strict'))
    ex = z3.And(m, a, z3.Not(redir), z3.Not(strict))
    xe, xr = XEXC(r), XRET(r)
    nonbreak = z3.And(ex, z3.Or(
        z3.And(XRAISES(r), z3.Not(isa(xe, RR_CLS)), isa(xe, HE_CLS), z3.Not(is_breaking_z(xe))),
        z3.And(z3.Not(XRAISES(r)), isa(xr, BR_CLS), isa(xr, HE_CLS), z3.Not(is_breaking_z(xr)))))
    answers = z3.Or(redir, z3.And(ex, z3.Not(nonbreak)))
    plain = z3.And(ex, z3.Not(XRAISES(r)), isa(xr, BR_CLS), z3.Not(isa(xr, HE_CLS)))
    nbobj = z3.If(XRAISES(r), xe, xr)
    return dict(match=m, admits=a, redirect=redir, strict=strict, executes=ex, nonbreak=nonbreak, answers=answers,
                plain=plain, nbobj=nbobj, methods=z3.If(mnone, Z.empty_set(Z.Str), ms))


_EXC_DEFS = {}


def folds(E):
    """EXCFOLD / AMFOLD: the dispatch state after the first i routes, none of which answered."""
    if 'EXC' in _EXC_DEFS:
        return _EXC_DEFS['EXC'], _EXC_DEFS['AM']
    S = z3.Const('fold!S', SeqO)
    i = z3.Int('fold!i')
    P = z3.Const('fold!P', Z.Str)
    Mth = z3.Const('fold!M', Z.Str)
    nft = z3.Const('fold!nft', Z.Obj)
    EXC = z3.RecFunction('EXCFOLD', SeqO, Z.Int, Z.Str, Z.Str, Z.Obj, SeqO)
    AM = z3.RecFunction('AMFOLD', SeqO, Z.Int, Z.Str, Z.Str, Z.SetSort(Z.Str))
    f = route_facts(E, S[i - 1], P, Mth)
    z3.RecAddDefinition(EXC, [S, i, P, Mth, nft],
                        z3.If(i <= 0, Z.empty_seq(Z.Obj),
                              z3.Concat(EXC(S, i - 1, P, Mth, nft),
                                        z3.If(f['strict'], z3.Unit(ERR_OF(nft, S[i - 1])),
                                              z3.If(f['nonbreak'], z3.Unit(f['nbobj']), Z.empty_seq(Z.Obj))))))
    z3.RecAddDefinition(AM, [S, i, P, Mth],
                        z3.If(i <= 0, Z.empty_set(Z.Str),
                              z3.SetUnion(AM(S, i - 1, P, Mth),
                                          z3.If(z3.And(f['match'], z3.Not(f['admits'])), f['methods'], Z.empty_set(Z.Str)))))
    _EXC_DEFS['EXC'], _EXC_DEFS['AM'] = EXC, AM
    return EXC, AM


def register_bind_all(E):
    """SubApplication.bind_all (C10, C11): every route of the embedded application is re-bound to the
    embedding one, in order, with the prefix and the two inheritance flags -- and all of it happens
    before the list is handed back (add() inserts only after every bind succeeded)."""
    from pyvc.loops import LoopSpec
    BIND = Z.func('REBOUND', Z.Obj, Z.Obj, Z.Obj, Z.Obj)      # (bound route, application, keyword map) -> new bound route

    def bind_model(I, ctx, rt, app=None, **kwargs):
        star = kwargs.pop('__star__', None)
        if star is None:
            star = ctx.alloc(HDict(conc=dict(kwargs)))
        kw = E.freeze(ctx, I.resolve(ctx, star))
        kwz = box_map(kw.dom, kw.arr) if isinstance(kw, VMap) else Z.NONE
        if ctx.nondet(2, 'bind raises') == 1:
            any_exception(E, ctx)
        r = BIND(rt.z, box(app, ctx), kwz)
        ctx.assume(r != Z.NONE)
        ctx.trace.append(('rebind', rt, app, kw))
        return VObj(r, 'BoundRoute')
    E.add_contract(Contract('clastic.route.BoundRoute.bind', trusted=True, model=bind_model,
                            note='call-site summary: BoundRoute.bind(app, **kw) is BoundRoute(self, app, **kw) -- a new bound route '
                                 'determined by (route, app, kw) or an exception; BoundRoute.__init__ is verified on its own'))

    @E.spec('REBOUND')
    def REBOUND(I, ctx, rt, app, kw):
        kw = I.resolve(ctx, kw)
        d = M.dict_sym(I, ctx, kw)
        return VObj(BIND(rt.z, box(I.resolve(ctx, app), ctx), box_map(d[0], d[1])), 'BoundRoute')

    @E.spec('BIND_KW')
    def BIND_KW(I, ctx, kwargs0, prefix, rebind_render, inherit_slashes):
        """kwargs0 + {'prefix': prefix} with the two flags defaulted"""
        d = M.dict_sym(I, ctx, I.resolve(ctx, kwargs0))
        dom, arr = d[0], d[1]
        sv = z3.StringVal

        def default(dom, arr, k, v):
            vz = box(I.resolve(ctx, v), ctx)
            return z3.SetAdd(dom, sv(k)), z3.If(z3.IsMember(sv(k), dom), arr, z3.Store(arr, sv(k), vz))
        dom, arr = z3.SetAdd(dom, sv('prefix')), z3.Store(arr, sv('prefix'), box(I.resolve(ctx, prefix), ctx))
        dom, arr = default(dom, arr, 'rebind_render', rebind_render)
        dom, arr = default(dom, arr, 'inherit_slashes', inherit_slashes)
        return VMap(dom, arr, TStr, TObj())

    @E.spec('ALL_REBOUND')
    def ALL_REBOUND(I, ctx, lst, routes, n, app, kw):
        """lst[j] is REBOUND(routes[j], app, kw) for every j < n"""
        ql = I._as_seq(ctx, I.resolve(ctx, lst), TBRoute)
        qr = I._as_seq(ctx, I.resolve(ctx, routes), TBRoute)
        d = M.dict_sym(I, ctx, I.resolve(ctx, kw))
        kwz = box_map(d[0], d[1])
        az = box(I.resolve(ctx, app), ctx)
        j = z3.Int('q!rebound!j')
        nz = TInt.to_z(I.resolve(ctx, n))
        return VBool(z3.ForAll([j], z3.Implies(z3.And(j >= 0, j < nz), ql[0][j] == BIND(qr[0][j], az, kwz))))

    KW = 'BIND_KW(_kw0, self.prefix, self.rebind_render, self.inherit_slashes)'
    E.add_contract(Contract(
        'clastic.application.SubApplication.bind_all',
        params={'self': TInst('clastic.application.SubApplication',
                              {'prefix': TStr, 'app': TApp, 'rebind_render': TBool, 'inherit_slashes': TBool}),
                'app': TApp, 'kwargs': TDict(TStr, TObj())},
        ghost={'_kw0': 'kwargs'},
        # Application.routes holds BoundRoute objects (add() inserts what bind() returns); BoundRoute is not a Route subclass
        requires=['forall_int(0, len(self.app.routes), lambda j: not isinstance_of(self.app.routes[j], "clastic.route.NullRoute"))'],
        loops={('rt', 'self.app.routes'): LoopSpec(
            inv=['len(ret) == _i',
                 'ALL_REBOUND(ret, _seq, _i, app, %s)' % KW],
            modifies={'ret': TList(TBRoute)})},
        ensures=['len(result) == len(self.app.routes)',
                 'ALL_REBOUND(result, self.app.routes, len(result), app, %s)' % KW],
        may_raise_any=True, returns=TList(TBRoute), prop=['C10', 'C11']))
