"""Sidecar contracts for clastic/application.py."""
import z3
from pyvc import z as Z
from pyvc.values import *   # noqa
from pyvc.engine import Contract, OpaqueClass
from pyvc.loops import LoopSpec
from pyvc import models as M
from pyvc.classes import cls_of, issub
from pyvc.state import RaiseSig
from pyvc.interp import is_callable, truthy
from specs.sig import *   # noqa
from contracts.sinter import TFunc
from contracts.core import TMW
from contracts.route import TRoute, TBRoute, TApp, TEH, TAny, TResources

DEPENDS = ('sinter', 'core', 'route')

SeqO = Z.SeqSort(Z.Obj)


def any_exception(E, ctx, node=None):
    e = ctx.new_obj('exc', distinct=False)
    ctx.assume(issub(cls_of(e), E.classes.const('builtins.Exception')))
    raise RaiseSig(VObj(e, None), node)


def register(E):
    I = E.interp

    # ---- route factories as seen by Application.add -----------------------------------
    def bind_all_call(I, ctx, fv, *args, **kwargs):
        if ctx.nondet(2, 'bind_all raises') == 1:
            any_exception(E, ctx)
        ctx.trace.append(('bind_all', fv, list(args), dict(kwargs)))
        r = Z.fresh('bound_routes', SeqO)
        return ctx.alloc(HList(z=r, et=TBRoute))

    def bind_call(I, ctx, fv, *args, **kwargs):
        if ctx.nondet(2, 'bind raises') == 1:
            any_exception(E, ctx)
        ctx.trace.append(('bind', fv, list(args), dict(kwargs)))
        return VObj(ctx.new_obj('bound', distinct=False), 'BoundRoute')

    E.add_opaque(OpaqueClass('BindAllFn', methods={'__call__': bind_all_call}))
    E.add_opaque(OpaqueClass('BindFn', methods={'__call__': bind_call}, callable_=True, truthy=True))
    E.add_opaque(OpaqueClass('RF', closed=False, truthy=True, attrs={
        'bind_all': TObj('BindAllFn'), 'bind': TObj('BindFn', inv=lambda b: b != Z.NONE)}))

    def cast_model(I, ctx, in_arg):
        # may raise TypeError (not a route) or whatever Route()/SubApplication() raise
        if ctx.nondet(2, 'cast raises') == 1:
            any_exception(E, ctx)
        return VObj(ctx.new_obj('rf', distinct=False), 'RF')

    E.add_contract(Contract('clastic.application.cast_to_route_factory', trusted=True, model=cast_model,
                            note='summary used by Application.add: returns a route factory or raises; '
                                 'the function itself is under contract for C10'))

    app_fields = {'routes': TList(TBRoute), 'resources': TDict(TStr, TObj()), 'middlewares': TList(TMW),
                  'slash_mode': TStr, 'error_handler': TEH, 'render_factory': TAny, '_null_route': TBRoute,
                  'debug': TAny}
    E.app_fields = app_fields
    TSelfApp = TInst('clastic.application.Application', app_fields)

    # where list.insert puts the first new route
    def I0(I, ctx, index, n):
        index = I.resolve(ctx, index) if not isinstance(index, VOpt) else index
        nz = TInt.to_z(n)
        if isinstance(index, VOpt):
            iz = index.val.z
            clamp = z3.If(iz < 0, z3.If(nz + iz < 0, z3.IntVal(0), nz + iz), z3.If(iz > nz, nz, iz))
            return VInt(z3.If(index.isnone, nz, clamp))
        if isinstance(index, VNone):
            return VInt(nz)
        iz = index.z
        return VInt(z3.If(iz < 0, z3.If(nz + iz < 0, z3.IntVal(0), nz + iz), z3.If(iz > nz, nz, iz)))

    E.specns['INSERT_AT'] = __import__('pyvc.interp', fromlist=['VSpecFn']).VSpecFn(I0, 'INSERT_AT')

    E.add_contract(Contract(
        'clastic.application.Application.add',
        params={'self': TSelfApp, 'entry': TAny, 'index': TOpt(TInt),
                'kwargs': lambda E_, ctx, n: ctx.alloc(HDict(conc={}))},
        loops={('br', 'bound_routes'): LoopSpec(
            ghost={'SPLIT': 'split_at(self.routes, index)'},
            inv=['self.routes == SPLIT[0] + _done + SPLIT[1]',
                 'index == at_entry(index) + _i',
                 'at_entry(index) >= len(SPLIT[0])',
                 'len(SPLIT[1]) == 0 or at_entry(index) == len(SPLIT[0])'],
            modifies=['self.routes'])},
        ensures=[
            # the new routes are inserted contiguously, in order, at the requested position;
            # every other route keeps its relative order
            'self.routes == old(self.routes)[:INSERT_AT(old(index), len(old(self.routes)))] + list(bound_routes) + '
            'old(self.routes)[INSERT_AT(old(index), len(old(self.routes))):]',
        ],
        exc_ensures=['self.routes == old(self.routes)'],
        may_raise_any=True,
        prop=['C06', 'C11']))
