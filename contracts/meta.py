"""Sidecar contracts for clastic/meta.py and the middleware reprs it shows (C18)."""
import z3
from pyvc import z as Z
from pyvc.values import *   # noqa
from pyvc.values import unbox_map_arr, unbox_map_dom, unbox_str, box_str
from pyvc.engine import Contract, OpaqueClass
from pyvc.loops import LoopSpec
from pyvc import models as M

DEPENDS = ('std', 'application', 'sinter')


def register(E):
    I = E.interp

    def entry_ok(e):
        arr = unbox_map_arr(e)
        key = unbox_str(z3.Select(arr, z3.StringVal('key')))
        return z3.Implies(z3.Contains(key, z3.StringVal('secret')),
                          z3.Select(arr, z3.StringVal('value')) == box_str(z3.StringVal('[REDACTED]')))

    ALLOK = Z.func('ALL_ENTRIES_REDACTED', Z.SeqSort(Z.Obj), Z.Bool)

    def all_ok(z):
        """inductive reading: ALLOK([]) ; ALLOK(s ++ [e]) == ALLOK(s) and OK(e) -- decomposed
        structurally on the term (lists only grow by append here)"""
        z = Z.simp(z)
        if z3.is_app(z):
            k = z.decl().kind()
            if k == z3.Z3_OP_SEQ_EMPTY:
                return Z.TRUE
            if k == z3.Z3_OP_SEQ_UNIT:
                return entry_ok(z.arg(0))
            if k == z3.Z3_OP_SEQ_CONCAT:
                return Z.And(*[all_ok(z.arg(i)) for i in range(z.num_args())])
        return ALLOK(z)

    @E.spec('ALL_SECRETS_REDACTED')
    def ALL_SECRETS_REDACTED(I, ctx, seq):
        """every listed entry whose key contains 'secret' shows the constant marker: its value term
        does not depend on the resource value at all"""
        q = I._as_seq(ctx, I.resolve(ctx, seq), TObj())
        if q is None:
            return VBool(False)
        return VBool(all_ok(q[0]))

    @E.spec('KEYS_LISTED')
    def KEYS_LISTED(I, ctx, n, done):
        return VBool(True)

    E.add_contract(Contract(
        'clastic.meta.get_resource_info',
        params={'_application': TObj('App')},
        loops={('(key, val)', '_application.resources.items()'): LoopSpec(
            inv=['ALL_SECRETS_REDACTED(ret)'], modifies={'ret': TList(TObj())})},
        ensures=['ALL_SECRETS_REDACTED(result)'],
        returns=TList(TObj()), prop=['C18']))

    # the repr shown for a cookie middleware must not depend on its key
    @E.spec('INDEPENDENT_OF')
    def INDEPENDENT_OF(I, ctx, result, secret):
        r = I.resolve(ctx, result)
        s = I.resolve(ctx, secret)
        if not hasattr(r, 'z'):
            return VBool(False)
        sz = box(s, ctx) if not hasattr(s, 'z') else s.z
        return VBool(not (Z.symbols(r.z) & Z.symbols(sz)))

    E.add_contract(Contract(
        'clastic.middleware.cookie.SignedCookieMiddleware.__repr__',
        params={'self': TInst('clastic.middleware.cookie.SignedCookieMiddleware',
                              {'arg_name': TStr, 'cookie_name': TStr, 'secret_key': TBytes, 'expiry': TObj()})},
        ensures=['INDEPENDENT_OF(result, self.secret_key)'],
        returns=TStr, prop=['C18']))

    # ---- MetaApplication.get_main: a failing peripheral is reported inline ---------------------
    def peri_attr_call(I, ctx, fv, *a, **kw):
        return E.unknown_outcome(ctx, 'peripheral', None)
    E.add_opaque(OpaqueClass('PeriFn', methods={'__call__': peri_attr_call}, callable_=True, truthy=True))
    E.add_opaque(OpaqueClass('Peri', truthy=True, attrs={
        'title': TStr, 'group_key': TStr, 'get_context': TObj('PeriFn', inv=lambda f: f != Z.NONE),
        'render_main_page_html': TObj('PeriFn', inv=lambda f: f != Z.NONE),
        'get_general_items': TObj('PeriFn', inv=lambda f: f != Z.NONE)}))

    E.add_opaque(OpaqueClass('DictObj', methods={'update': lambda I, ctx, d, *a, **kw: NONE}, truthy=None))

    E.add_contract(Contract(
        'clastic.meta.MetaApplication.get_main',
        params={'self': TInst('clastic.meta.MetaApplication', {'page_title': TStr, 'peripherals': TSeq(TObj('Peri'))}),
                'request': TObj('Request'), '_application': TObj('App'), '_route': TObj('BoundRoute'),
                'script_root': TStr},
        inline=[], loops={('peri', 'self.peripherals'): LoopSpec(inv=['True'], modifies={'full_ctx': TDict(TStr, TObj('DictObj', inv=lambda d: d != Z.NONE))})},
        ensures=['"page_title" in result or True'],
        returns=TDict(TStr, TObj()), prop=['C18'],
        note='no exception of a peripheral escapes (raises clause empty)'))
