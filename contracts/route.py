"""Sidecar contracts for clastic/route.py."""
import z3
from pyvc import z as Z
from pyvc.values import *   # noqa
from pyvc.engine import Contract, OpaqueClass
from pyvc.loops import LoopSpec
from pyvc import models as M
from pyvc.interp import is_callable, truthy
from specs.sig import *   # noqa
from contracts.sinter import TFunc
from contracts.core import TMW, TMaybeFunc, MERGE, CNTM, _b2i

DEPENDS = ('sinter', 'core')
LATE = True

TRoute = TObj('Route', inv=lambda r: r != Z.NONE)
TBRoute = TObj('BoundRoute', inv=lambda r: r != Z.NONE)
TApp = TObj('App', inv=lambda a: a != Z.NONE)
TEH = TObj('EH', inv=lambda a: a != Z.NONE)
TAny = TObj()
TResources = TMap(TStr, TObj())
TConv = TObj('Conv', inv=lambda c: c != Z.NONE)

BINDINGS = Z.func('BINDINGS', Z.Str, Z.SetSort(Z.Str))    # binding names of a pattern
RESERVED = ['request', '_application', '_route', '_dispatch_state', 'context', 'next']


SeqO = Z.SeqSort(Z.Obj)
_s = z3.Const('lc!s', SeqO)
LASTCALLABLE = z3.RecFunction('LASTCALLABLE', SeqO, Z.Obj)
_n = z3.Length(_s)
z3.RecAddDefinition(LASTCALLABLE, [_s],
                    z3.If(_n <= 0, Z.NONE,
                          z3.If(is_callable(_s[_n - 1]), _s[_n - 1], LASTCALLABLE(z3.Extract(_s, 0, _n - 1)))))


def register(E):
    E.add_opaque(OpaqueClass('Route', closed=True, truthy=True, attrs={
        'pattern': TStr, 'slash_mode': TStr, 'methods': TOpt(TSet(TStr)), 'endpoint': TFunc,
        'render': TAny, 'render_error': TAny, 'resources': TResources, 'middlewares': TSeq(TMW),
        'is_branch': TBool}))
    E.add_opaque(OpaqueClass('BoundRoute', closed=True, truthy=True, attrs={
        'unbound_route': TRoute, 'bound_apps': TSeq(TApp),
        'pattern': TStr, 'slash_mode': TStr, 'methods': TOpt(TSet(TStr)),
        'render': TAny, 'render_error': TAny, 'render_factory': TAny, 'resources': TResources,
        'middlewares': TSeq(TMW), 'regex': TObj('Regex'), 'converters': TMap(TStr, TConv),
        '_execute': TFunc, 'is_branch': TBool, 'endpoint': TFunc},
        methods={'match_path': 'clastic.route.BoundRoute.match_path',
                 'match_method': 'clastic.route.BoundRoute.match_method',
                 'execute': 'clastic.route.BoundRoute.execute',
                 'execute_error': 'clastic.route.BoundRoute.execute_error',
                 'bind': 'clastic.route.BoundRoute.bind'}))
    E.add_opaque(OpaqueClass('App', closed=False, truthy=True, attrs={
        'resources': TResources, 'middlewares': TSeq(TMW), 'slash_mode': TStr, 'error_handler': TEH,
        'render_factory': TAny, 'routes': TSeq(TBRoute), 'debug': TAny}))
    E.add_opaque(OpaqueClass('EH', closed=False, truthy=True, attrs={
        'render_error': TAny, 'reraise_uncaught': TAny, 'wsgi_wrapper': TAny}))
    E.add_opaque(OpaqueClass('Conv', truthy=True, callable_=True))
    E.add_opaque(OpaqueClass('Regex', truthy=True))

    # ---- _compile_path_pattern as seen by BoundRoute.__init__ (detailed contract: C05) -----
    E.add_contract(Contract(
        'clastic.route._compile_path_pattern', trusted=False,
        params={'pattern': TStr, 'mode': TStr},
        returns=TTuple([TObj('Regex'), TDict(TStr, TConv)]),
        ensures=['keys(result[1]) == BINDINGS(pattern)', 'result[0] is COMPILED_REGEX(pattern, mode)'],
        raises={'clastic.route.InvalidPattern': None},
        prop=[], note='caller-side summary; the function itself is verified under C05'))

    @E.spec('COMPILED_REGEX')
    def COMPILED_REGEX(I, ctx, pattern, mode):
        """the regular expression _compile_path_pattern builds for (pattern, slash mode): a function of the two"""
        r = Z.func('COMPILED_REGEX', Z.Str, Z.Str, Z.Obj)(pattern.z, mode.z)
        ctx.assume(r != Z.NONE)
        return VObj(r, 'Regex')

    @E.spec('BINDINGS')
    def BINDINGS_(I, ctx, pattern):
        return VSet(BINDINGS(pattern.z), TStr)

    def resolve_required_model(I, ctx, self_, with_builtins=None):
        if ctx.nondet(2, 'cycle check') == 1:
            I.raise_exc(ctx, 'RuntimeError', 'cycle detected', None)
        return VObj(Z.fresh('required_args', Z.Obj))

    E.add_contract(Contract('clastic.route.BoundRoute._resolve_required_args', trusted=True,
                            model=resolve_required_model,
                            note='undocumented cycle check (resolve_deps/find_cycle): may raise RuntimeError; '
                                 'the statement of C01 accepts either outcome'))

    # boltons.iterutils.first(iterable, key=callable): first element for which key is true
    E.ghost['LASTCALLABLE'] = LASTCALLABLE

    def first_model(I, ctx, iterable, default=None, key=None):
        from pyvc.models2 import VReversed
        it = I.resolve(ctx, iterable)
        if not (isinstance(key, VBuiltin) and key.name == 'callable'):
            raise Exception('first() model: only key=callable is modelled')
        if isinstance(it, M.VIter) and it.items is not None:
            for x in it.items:
                x = I.resolve(ctx, x)
                if isinstance(x, VNone):
                    continue
                if I.is_true(ctx, M.BUILTIN_FUNCS['callable'](I, ctx, None, [x], {}, None)):
                    return x
            return NONE
        if isinstance(it, M.VIter) and isinstance(it.sym, VReversed):
            return VObj(LASTCALLABLE(it.sym.seq.z))
        raise Exception('first() model: %r' % (it,))

    E.externals['boltons.iterutils.first'] = first_model

    @E.spec('LASTCALLABLE')
    def LASTCALLABLE_(I, ctx, s):
        q = I._as_seq(ctx, I.resolve(ctx, s), TObj())
        return VObj(LASTCALLABLE(q[0]))

    @E.spec('is_callable')
    def is_callable_(I, ctx, v):
        return M.BUILTIN_FUNCS['callable'](I, ctx, None, [v], {}, None)

    @E.spec('same_opt')
    def same_opt(I, ctx, a, b):
        """identity of two optional values"""
        if isinstance(a, VOpt) and isinstance(b, VOpt):
            return VBool(z3.And(a.isnone == b.isnone, z3.Implies(z3.Not(a.isnone), I.eq(ctx, a.val, b.val))))
        return VBool(I.identical(ctx, a, b))

    E.specns['same_opt'].keep_opt = True

    @E.spec('merged_resources')
    def merged_resources(I, ctx, res, lower, upper):
        """res == lower (+) upper, right wins, identity preserved"""
        rd, ra, _, _ = M.dict_sym(I, ctx, I.resolve(ctx, res))
        ld, la, _, _ = M.dict_sym(I, ctx, I.resolve(ctx, lower))
        ud, ua, _, _ = M.dict_sym(I, ctx, I.resolve(ctx, upper))
        k = z3.Const(Z.fresh_name('qk'), Z.Str)
        return VBool(z3.And(rd == z3.SetUnion(ld, ud),
                            z3.ForAll([k], z3.Implies(z3.IsMember(k, rd),
                                                      z3.Select(ra, k) == z3.If(z3.IsMember(k, ud), z3.Select(ua, k),
                                                                                 z3.Select(la, k))))))

    @E.spec('SRC3')
    def SRC3(I, ctx, n, url, res):
        """number of the three fixed sources (url, builtins, resources) offering n"""
        uz = M.iterable_as_set(I, ctx, url)[0]
        rz = M.iterable_as_set(I, ctx, res)[0]
        bz = Z.set_of(Z.Str, [z3.StringVal(x) for x in RESERVED])
        return VInt(_b2i(z3.IsMember(n.z, uz)) + _b2i(z3.IsMember(n.z, bz)) + _b2i(z3.IsMember(n.z, rz)))

    # ---- BoundRoute.__init__ --------------------------------------------------------------
    def kwargs_case(defaults):
        def mk(E_, ctx, name):
            if defaults:
                vals = {'prefix': VStr(''), 'rebind_render': VBool(True), 'inherit_slashes': VBool(True),
                        'rebind_render_error': VBool(True)}
                d = ctx.alloc(HDict(conc={}))
            else:
                vals = {'prefix': VStr(Z.fresh('k_prefix', Z.Str)), 'rebind_render': VBool(Z.fresh('k_rr', Z.Bool)),
                        'inherit_slashes': VBool(Z.fresh('k_is', Z.Bool)),
                        'rebind_render_error': VBool(Z.fresh('k_rre', Z.Bool))}
                d = ctx.alloc(HDict(conc=dict(vals)))
            for k, v in vals.items():
                E_.specns['k_' + k] = v
            return d
        return mk

    self_t = TInst('clastic.route.BoundRoute', {})
    texts = E.chain_texts
    views = [
        'self.pattern == k_prefix + route.pattern',
        'self.slash_mode == (app.slash_mode if k_inherit_slashes else route.slash_mode)',
        'same_opt(self.methods, route.methods)',
        'merged_resources(self.resources, app.resources, route.resources)',
        'self.middlewares == MERGE(route.middlewares, app.middlewares, len(route.middlewares))',
        'self.bound_apps == ROUTE_BOUND_APPS + [app]',
        'self.unbound_route is UNBOUND',
        # render: an explicit callable always wins
        'implies(is_callable(UNBOUND.render), self.render is UNBOUND.render and self.render_factory is None)',
        # error rendering follows the binding application unless opted out
        'self.render_error is (app.error_handler.render_error if k_rebind_render_error else route.render_error)',
        'keys(self.converters) == BINDINGS(self.pattern)',
        # the matcher is compiled for the bound pattern in the bound route's own (effective) slash mode
        'self.regex is COMPILED_REGEX(self.pattern, self.slash_mode)',
        # C04: no name is offered by two sources on the bound route
        'forall_str(lambda n: SRC3(n, keys(self.converters), keys(self.resources)) + '
        'CNTM(n, self.middlewares, len(self.middlewares)) <= 1)',
    ]

    def setup(E_, ctx, fr):
        r = fr.locals['route']
        I = E_.interp
        if r.cls == 'BoundRoute':
            E_.specns['UNBOUND'] = I.getattr(ctx, fr, r, 'unbound_route')
            E_.specns['ROUTE_BOUND_APPS'] = I.getattr(ctx, fr, r, 'bound_apps')
        else:
            E_.specns['UNBOUND'] = r
            E_.specns['ROUTE_BOUND_APPS'] = VTuple([])

    E.add_contract(Contract(
        'clastic.route.BoundRoute.__init__',
        params={'self': self_t, 'app': TApp},
        cases=[('bind, default kwargs', {'route': TRoute, 'kwargs': kwargs_case(True)}),
               ('bind, explicit kwargs', {'route': TRoute, 'kwargs': kwargs_case(False)}),
               ('rebind, default kwargs', {'route': TBRoute, 'kwargs': kwargs_case(True)}),
               ('rebind, explicit kwargs', {'route': TBRoute, 'kwargs': kwargs_case(False)})],
        setup=setup,
        ensures=views,
        raises={'builtins.NameError': None, 'builtins.TypeError': None, 'builtins.IndexError': None,
                'builtins.ValueError': None, 'builtins.RuntimeError': None},
        may_raise_any=True,     # a user render factory may raise anything
        heavy=True, prop=['C01', 'C04', 'C07', 'C10', 'C11']))


def register_more(E):
    from pyvc.classes import cls_of, issub
    C = E.classes
    UPPER = Z.func('str_upper', Z.Str, Z.Str)

    # ---- BoundRoute.match_method (C06) -------------------------------------------------
    self_br = TInst('clastic.route.BoundRoute', {'methods': TOpt(TSet(TStr))})

    @E.spec('UPPER')
    def UPPER_(I, ctx, s):
        return VStr(UPPER(s.z))

    E.add_contract(Contract(
        'clastic.route.BoundRoute.match_method',
        params={'self': self_br, 'method': TStr},
        ensures=['result == (len(method) == 0 or self.methods is None or len(self.methods) == 0 '
                 'or UPPER(method) in self.methods)'],
        returns=TBool, prop=['C06']))

    # ---- Route.__init__: method normalisation (C06) --------------------------------------
    HTTP_METHODS = ['GET', 'HEAD', 'POST', 'PUT', 'DELETE', 'OPTIONS', 'TRACE', 'CONNECT', 'PATCH']

    def methods_kwargs(given):
        def mk(E_, ctx, name):
            conc = {}
            if given and getattr(E_, 'ground', None) is not None:
                items = [VStr(Z.fresh('k_method%d' % i, Z.Str)) for i in range(E_.ground)]
                conc['methods'] = VTuple(items)
                E_.specns['k_methods'] = VTuple(items)
            elif given:
                ms = Z.fresh('k_methods', Z.SeqSort(Z.Str))
                conc['methods'] = VSeq(ms, TStr)
                E_.specns['k_methods'] = VSeq(ms, TStr)
            else:
                E_.specns['k_methods'] = NONE
            return ctx.alloc(HDict(conc=conc))
        return mk

    @E.spec('UPPERSET')
    def UPPERSET(I, ctx, seq):
        """{m.upper() for m in seq} -- same comprehension the code evaluates"""
        if isinstance(seq, VNone):
            return VSet(Z.empty_set(Z.Str), TStr)
        if isinstance(seq, VTuple):
            return VSet(Z.set_of(Z.Str, [UPPER(i.z) for i in seq.items]), TStr)
        f = E.loops.filter_map(Z.Str, Z.Str, z3.Const('comp!x', Z.Str), Z.TRUE, UPPER(z3.Const('comp!x', Z.Str)))
        return VSet(M.elems_of(f(seq.z)), TStr)

    @E.spec('HTTP_METHODS')
    def HTTP_METHODS_(I, ctx):
        return VSet(Z.set_of(Z.Str, [z3.StringVal(m) for m in HTTP_METHODS]), TStr)

    E.add_contract(Contract(
        'clastic.route.Route.__init__',
        params={'self': TInst('clastic.route.Route', {}), 'pattern': TStr, 'endpoint': TFunc,
                'render': TAny, 'render_error': TAny},
        cases=[('no methods', {'kwargs': methods_kwargs(False)}), ('methods given', {'kwargs': methods_kwargs(True)})],
        ensures=[
            'implies(k_methods is None, self.methods is None)',
            # methods are upper-cased, GET implies HEAD, nothing else is added
            'implies(k_methods is not None and len(k_methods) > 0, '
            'set(self.methods) == (UPPERSET(k_methods) | (set(["HEAD"]) if "GET" in UPPERSET(k_methods) else set())))',
            'implies(k_methods is not None and len(k_methods) > 0, subset(UPPERSET(k_methods), HTTP_METHODS()))',
            'self.pattern == pattern', 'self.endpoint is endpoint',
        ],
        raises={'clastic.route.InvalidMethod': None, 'clastic.route.InvalidPattern': None, 'builtins.TypeError': None,
                'builtins.NameError': None},
        raises_only_if={'clastic.route.InvalidMethod':
                        'k_methods is not None and not subset(UPPERSET(k_methods), HTTP_METHODS())'},
        prop=['C06']))

    # ---- NullRoute.handle_sentinel_condition (C06) -----------------------------------------
    TDS = TInst('clastic.application.DispatchState', {'exceptions': TList(TObj()), 'allowed_methods': TMSet(TStr),
                                                       'attempted_routes': TList(TObj())})
    E.add_contract(Contract(
        'clastic.route.NullRoute.handle_sentinel_condition',
        params={'self': TObj('Route'), 'request': TObj('Request'), '_application': TApp, '_route': TBRoute,
                '_dispatch_state': TDS},
        ensures=[
            # the most recent non-breaking error, else 405 carrying the collected methods, else 404
            'implies(len(_dispatch_state.exceptions) > 0, result is _dispatch_state.exceptions[-1])',
            'implies(len(_dispatch_state.exceptions) == 0 and len(_dispatch_state.allowed_methods) > 0, '
            'ERRTYPE_OF(result) is _application.error_handler.method_not_allowed_type and '
            'ALLOW(result) == set(_dispatch_state.allowed_methods))',
            'implies(len(_dispatch_state.exceptions) == 0 and len(_dispatch_state.allowed_methods) == 0, '
            'ERRTYPE_OF(result) is _application.error_handler.not_found_type)',
        ],
        returns=TObj(), prop=['C06']))

    @E.spec('ERRTYPE_OF')
    def ERRTYPE_OF(I, ctx, e):
        return VObj(Z.func('ERRTYPE_OF', Z.Obj, Z.Obj)(e.z), 'ErrType')

    @E.spec('ALLOW')
    def ALLOW_(I, ctx, e):
        return VSet(Z.func('ALLOW', Z.Obj, Z.SetSort(Z.Str))(e.z), TStr)


# ---- normalize_path (C07) ---------------------------------------------------------------
from pyvc import strs as _strs
_xs = z3.Const('join!xs', Z.SeqSort(Z.Str))
_sep = z3.Const('join!sep', Z.Str)
Z.AXIOMS.add('A-str: join(sep, [""] ++ xs) == sep + join(sep, xs) for non-empty xs',
             z3.ForAll([_sep, _xs], z3.Implies(z3.Length(_xs) > 0,
                       _strs.join_fn(_sep, z3.Concat(z3.Unit(z3.StringVal('')), _xs)) ==
                       z3.Concat(_sep, _strs.join_fn(_sep, _xs))),
                       patterns=[_strs.join_fn(_sep, z3.Concat(z3.Unit(z3.StringVal('')), _xs))]))
Z.AXIOMS.add('A-str: join(sep, xs ++ [""]) == join(sep, xs) + sep for non-empty xs',
             z3.ForAll([_sep, _xs], z3.Implies(z3.Length(_xs) > 0,
                       _strs.join_fn(_sep, z3.Concat(_xs, z3.Unit(z3.StringVal('')))) ==
                       z3.Concat(_strs.join_fn(_sep, _xs), _sep)),
                       patterns=[_strs.join_fn(_sep, z3.Concat(_xs, z3.Unit(z3.StringVal(''))))]))


def verify_normalize(pc, E):
    SEGS = '[x for x in path.split("/") if x]'
    c = Contract('clastic.route.normalize_path',
                 params={'path': TStr, 'is_branch': TBool},
                 ensures=['implies(len(%s) == 0, result == "/")' % SEGS,
                          'implies(len(%s) > 0, result == "/" + "/".join(%s) + ("/" if is_branch else ""))' % (SEGS, SEGS),
                          'result.startswith("/")'],
                 returns=TStr, prop=['C07'])
    E.add_contract(c, key='clastic.route.normalize_path#verify')
    pc.add_functions(E, ['clastic.route.normalize_path#verify'])


def verify_match_path(pc, E):
    """BoundRoute.match_path itself (C05): never raises; None or a dict with exactly the converter names."""
    from pyvc.state import RaiseSig
    I = E.interp

    def conv_call(I, ctx, conv, value):
        k = ctx.nondet(3, 'converter')
        if k == 1:
            raise RaiseSig(I.make_exc(ctx, 'builtins.ValueError', [VStr('invalid literal')]), None)
        if k == 2:
            raise RaiseSig(I.make_exc(ctx, 'builtins.TypeError', [VStr('bad type')]), None)
        return VObj(Z.func('CONVERTED', Z.Obj, Z.Obj, Z.Obj)(conv.z, box(value, ctx)))
    E.opaque['Conv'].methods['__call__'] = conv_call

    def regex_match(I, ctx, rx, s):
        m = Z.func('RE_MATCH', Z.Obj, Z.Str, Z.Obj)(rx.z, s.z)
        return VObj(m, 'Match')

    def groupdict(I, ctx, m):
        return ctx.alloc(HDict(dom=Z.func('GROUP_NAMES', Z.Obj, Z.SetSort(Z.Str))(m.z),
                               arr=Z.func('GROUPS', Z.Obj, z3.ArraySort(Z.Str, Z.Obj))(m.z), kt=TStr, vt=TObj()))
    E.opaque['Regex'].methods['match'] = regex_match
    E.add_opaque(OpaqueClass('Match', methods={'groupdict': groupdict}, truthy=True))
    c = Contract('clastic.route.BoundRoute.match_path',
                 params={'self': TInst('clastic.route.BoundRoute',
                                       {'regex': TObj('Regex', inv=lambda r: r != Z.NONE), 'converters': TDict(TStr, TConv)}),
                         'path': TStr},
                 loops={('(conv_name, conv)', 'self.converters.items()'): LoopSpec(
                     inv=['keys(ret) == _done'], modifies={'ret': TDict(TStr, TObj())})},
                 ensures=['result is None or keys(result) == keys(self.converters)'],
                 returns=TOpt(TDict(TStr, TObj())), prop=['C05'],
                 note='conversion errors (KeyError/TypeError/ValueError) mean no match; nothing escapes')
    E.add_contract(c, key='clastic.route.BoundRoute.match_path#verify')
    pc.add_functions(E, ['clastic.route.BoundRoute.match_path#verify'])


def verify_execute(pc, E):
    """BoundRoute.execute / execute_error themselves (C02): one inject call, on the compiled chain
    (resp. the error renderer), with the mapping the statement describes: the caller's keywords
    win, then the route's resources, then the three built-ins of the route."""
    from contracts.sinter import TFunc
    fields = {'resources': TDict(TStr, TObj()), 'bound_apps': TList(TObj('App')),
              '_execute': TFunc, 'render_error': TObj()}
    SRC = ('(_kwargs0[k] if k in _kwargs0 else (self.resources[k] if k in self.resources else '
           '(self if k == "_route" else (request if k == "request" else %s))))')
    common = ['ninject() == 1']
    c = Contract('clastic.route.BoundRoute.execute',
                 params={'self': TInst('clastic.route.BoundRoute', fields), 'request': TObj('Request'),
                         'kwargs': TDict(TStr, TObj())},
                 requires=['len(self.bound_apps) >= 1'],
                 ghost={'_kwargs0': 'kwargs', '_app0': 'self.bound_apps[-1]'},
                 ensures=common + [
                     'inject_fn(0) is self._execute',
                     'keys(inject_map(0)) == keys(_kwargs0) | keys(self.resources) | set(["_route", "request", "_application"])',
                     'forall_keys(inject_map(0), lambda k, v: v is %s)' % (SRC % '_app0'),
                     'inject_returned(0, result)'],
                 exc_ensures=common + ['inject_raised(0, _exc)'],
                 may_raise_any=True, returns=TObj(), prop=['C02'])
    E.add_contract(c, key='clastic.route.BoundRoute.execute#verify')
    SRC_E = ('(_kwargs0[k] if k in _kwargs0 else (self.resources[k] if k in self.resources else '
             '(self if k == "_route" else (_error if k == "_error" else (request if k == "request" else _app0)))))')
    c = Contract('clastic.route.BoundRoute.execute_error',
                 params={'self': TInst('clastic.route.BoundRoute', fields), 'request': TObj('Request'),
                         '_error': TObj(), 'kwargs': TDict(TStr, TObj())},
                 requires=['len(self.bound_apps) >= 1'],
                 ghost={'_kwargs0': 'kwargs', '_app0': 'self.bound_apps[-1]'},
                 ensures=common + [
                     'inject_fn(0) is self.render_error',
                     'keys(inject_map(0)) == keys(_kwargs0) | keys(self.resources) | set(["_route", "_error", "request", "_application"])',
                     'forall_keys(inject_map(0), lambda k, v: v is %s)' % SRC_E,
                     'inject_returned(0, result)'],
                 may_raise_any=True, returns=TObj(), prop=['C02'])
    E.add_contract(c, key='clastic.route.BoundRoute.execute_error#verify')
    pc.add_functions(E, ['clastic.route.BoundRoute.execute#verify', 'clastic.route.BoundRoute.execute_error#verify'])


# ---- converter closures of build_converter (C05) ---------------------------------------------
_ra = z3.Const('rmv!a', Z.Str)
_rb = z3.Const('rmv!b', Z.Str)
_RMV = Z.func('str_replace_all', Z.Str, Z.Str, Z.Str, Z.Str)
_SL, _E = z3.StringVal('/'), z3.StringVal('')
# A-str (used as ground instances in verify_converters): removing one character distributes over
# concatenation; removing '/' from a run of slashes leaves ''; a string without '/' is unchanged


def verify_converters(pc, E):
    """single_converter (the closure build_converter returns for '', ':' and '?' bindings): given the text the
    route regex captures for the binding -- a non-empty run of separators followed by one slash-free
    segment, or nothing for an absent optional binding -- the type converter is applied to exactly
    that segment."""
    import ast as _ast
    from pyvc.run import Item
    from pyvc.state import RaiseSig
    mod = E.repo.module('clastic.route')
    outer = mod.funcs.get('build_converter')
    inner = None
    if outer is not None:
        for n in _ast.walk(outer):
            if isinstance(n, _ast.FunctionDef) and n.name == 'single_converter':
                inner = n
    if inner is None:
        pc.undecided.append(('build_converter.single_converter is no longer a nested def', None, 'clastic.route.build_converter'))
        return

    def conv_rec(I, ctx, conv, value):
        ctx.trace.append(('conv', I.resolve(ctx, value)))
        k = ctx.nondet(2, 'converter')
        if k == 1:
            raise RaiseSig(I.make_exc(ctx, 'builtins.ValueError', [VStr('invalid literal')]), None)
        return VObj(Z.func('CONVERTED', Z.Obj, Z.Obj, Z.Obj)(conv.z, box(value, ctx)))

    def setup(E_, ctx, fr):
        E_.opaque['Conv'].methods['__call__'] = conv_rec
        fr.locals['converter'] = TConv.fresh(ctx, 'converter')
        fr.locals['optional'] = TBool.fresh(ctx, 'optional')
        seps = Z.fresh('seps', Z.Str)
        seg = Z.fresh('segment', Z.Str)
        v = fr.locals['value']
        present = z3.And(v.z == z3.Concat(seps, seg), z3.InRe(seps, z3.Plus(z3.Re('/'))),
                         z3.Not(z3.Contains(seg, z3.StringVal('/'))), z3.Length(seg) > 0)
        absent = z3.And(v.z == z3.StringVal(''), fr.locals['optional'].z if hasattr(fr.locals['optional'], 'z') else Z.TRUE)
        ctx.assume(z3.Or(present, absent))
        # ground instances of the three A-str facts about removing one character (the quantified
        # forms are in the axiom list; the string solver does not instantiate them on its own)
        ctx.assume(_RMV(z3.Concat(seps, seg), _SL, _E) == z3.Concat(_RMV(seps, _SL, _E), _RMV(seg, _SL, _E)))
        ctx.assume(z3.Implies(z3.InRe(seps, z3.Star(z3.Re('/'))), _RMV(seps, _SL, _E) == _E))
        ctx.assume(z3.Implies(z3.Not(z3.Contains(seg, _SL)), _RMV(seg, _SL, _E) == seg))
        E_.specns['SEG'] = VStr(seg)
        E_.specns['ABSENT'] = VBool(v.z == z3.StringVal(''))

    @E.spec('CONVERTER_APPLIED_TO')
    def CONVERTER_APPLIED_TO(I, ctx, seg):
        evs = [e for e in ctx.trace if e[0] == 'conv']
        if len(evs) != 1 or not isinstance(evs[0][1], VStr):
            return VBool(False)
        return VBool(evs[0][1].z == seg.z)

    @E.spec('NO_CONVERSION')
    def NO_CONVERSION(I, ctx):
        return VBool(not [e for e in ctx.trace if e[0] == 'conv'])

    c = Contract('clastic.route.build_converter.<single_converter>',
                 params={'value': TStr}, setup=setup,
                 ensures=['implies(ABSENT, result is None and NO_CONVERSION())',
                          'ABSENT or CONVERTER_APPLIED_TO(SEG)'],
                 exc_ensures=['not ABSENT and CONVERTER_APPLIED_TO(SEG)'],
                 may_raise_any=True, returns=TObj(), prop=['C05'])
    res = E.verify_node(c, mod, inner)
    pc.functions.append({'function': 'build_converter.single_converter (nested def, extracted by name)', 'file': 'clastic/route.py',
                         'lines': [inner.lineno, inner.end_lineno], 'sha1': None, 'paths': res.paths,
                         'obligation_instances': len(res.obligations)})
    for why, line in res.undecided:
        pc.undecided.append((why, line, 'single_converter'))
    for o in res.obligations:
        pc.add_item(Item(o.clause.replace('route.build_converter.<single_converter>', 'C05.K/single_converter'),
                         'K', o.pc, o.goal, o.func, o.lineno, o.note, dict(o.extra, trail=o.trail)))


def dispatch_support(pc, E, skip=()):
    """Every call-site summary Application.dispatch's proof relies on is itself an obligation: the functions the
    summaries stand for are verified here (match_path never raises and returns None or the converter names;
    normalize_path; execute / execute_error hand inject the stated mapping; the error renderers return the error
    they were given).  A property whose proof uses dispatch includes this support, so a change that breaks a
    summary is seen by that property's check and not only by the property the callee 'belongs' to."""
    done = getattr(pc, '_dispatch_support_done', set())
    pc._dispatch_support_done = done
    for name, fn in (('match_path', verify_match_path), ('normalize', verify_normalize), ('execute', verify_execute)):
        if name in skip or name in done:
            continue
        done.add(name)
        fn(pc, E)
    if 'render_error' not in skip and 'render_error' not in done:
        done.add('render_error')
        pc.add_functions(E, ['clastic.errors.ErrorHandler.render_error', 'clastic.application.default_render_error#verify'])
