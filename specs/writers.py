"""Class-wide writer scan (C12, T obligations by evaluation on the real AST).

For the classes whose instances are shared by concurrent requests, every store into an
attribute of `self` (assignment, augmented assignment, deletion, item store through
self.attr[...], or a call of a mutating method on self.attr...) must be in a method that
runs at configuration time.  Module-level mutable objects may be mutated only at import
or bind time.  Aliasing (x = self.routes; x.append(..)) is not tracked: that is what
the symbolic frames on the request-path functions are for."""
import ast

MUTATORS = {'append', 'extend', 'insert', 'pop', 'remove', 'clear', 'update', 'setdefault', 'add', 'discard',
            'sort', 'reverse', 'popitem', '__setitem__', '__delitem__', 'appendleft', 'popleft', 'difference_update',
            'intersection_update', 'symmetric_difference_update'}


def _root_self_attr(node):
    """'attr' if node is self.attr, self.attr.x, self.attr[...] ... ; else None"""
    cur = node
    last = None
    while True:
        if isinstance(cur, ast.Attribute):
            last = cur
            cur = cur.value
        elif isinstance(cur, ast.Subscript):
            cur = cur.value
        elif isinstance(cur, ast.Call):
            return None
        else:
            break
    if isinstance(cur, ast.Name) and cur.id == 'self' and last is not None:
        # innermost attribute directly on self
        n = node
        while not (isinstance(n, ast.Attribute) and isinstance(n.value, ast.Name) and n.value.id == 'self'):
            n = n.value
        return n.attr
    return None


def _aliases(fn):
    """local names bound (anywhere in the function) to an attribute chain of self: {name: attr}.
    Flow-insensitive except that a name also assigned something else is dropped when EVERY other
    assignment precedes... kept simple: a name ever assigned `self.attr...` (no call in the chain) is an
    alias unless it is also assigned the result of a call/literal (then it may be a copy: not tracked)."""
    cand, other = {}, set()
    for node in ast.walk(fn):
        if isinstance(node, ast.Assign) and len(node.targets) == 1 and isinstance(node.targets[0], ast.Name):
            nm = node.targets[0].id
            a = _root_self_attr(node.value) if isinstance(node.value, (ast.Attribute, ast.Subscript)) else None
            if a is not None:
                cand[nm] = a
            else:
                other.add(nm)
    return dict((k, v) for k, v in cand.items() if k not in other)


def stores_in_function(fn):
    """[(attr, lineno, how)] for stores into attributes of self inside one function (nested defs included);
    one level of local aliasing (x = self.attr; x.update(..) / x[k] = v) is followed"""
    out = []
    alias = _aliases(fn)

    def alias_root(node):
        cur = node
        while isinstance(cur, (ast.Attribute, ast.Subscript)):
            cur = cur.value
        if isinstance(cur, ast.Name) and cur.id in alias:
            return alias[cur.id]
        return None
    for node in ast.walk(fn):
        targets = []
        if isinstance(node, ast.Assign):
            targets = node.targets
        elif isinstance(node, (ast.AugAssign, ast.AnnAssign)):
            targets = [node.target]
        elif isinstance(node, ast.Delete):
            targets = node.targets
        elif isinstance(node, (ast.For, ast.AsyncFor)):
            targets = [node.target]
        elif isinstance(node, ast.With):
            targets = [i.optional_vars for i in node.items if i.optional_vars is not None]
        flat = []
        for t in targets:
            flat.extend(t.elts if isinstance(t, (ast.Tuple, ast.List)) else [t])
        for t in flat:
            if isinstance(t, (ast.Attribute, ast.Subscript)):
                a = _root_self_attr(t)
                if a is not None:
                    out.append((a, node.lineno, 'store'))
                else:
                    a = alias_root(t)
                    if a is not None:
                        out.append((a, node.lineno, 'store through a local alias'))
        if isinstance(node, ast.Call) and isinstance(node.func, ast.Attribute) and node.func.attr in MUTATORS:
            a = _root_self_attr(node.func.value)
            if a is not None:
                out.append((a, node.lineno, 'call .%s()' % node.func.attr))
            else:
                a = alias_root(node.func.value) if not isinstance(node.func.value, ast.Name) else alias.get(node.func.value.id)
                if a is not None:
                    out.append((a, node.lineno, 'call .%s() through a local alias' % node.func.attr))
        if isinstance(node, ast.Call) and isinstance(node.func, ast.Name) and node.func.id in ('setattr', 'delattr') \
                and node.args and isinstance(node.args[0], ast.Name) and node.args[0].id == 'self':
            out.append(('<dynamic>', node.lineno, node.func.id))
    return out


def class_writers(tree, clsname):
    """{method: [(attr, lineno, how)]} for one class of a module AST"""
    res = {}
    for node in tree.body:
        if isinstance(node, ast.ClassDef) and node.name == clsname:
            for item in node.body:
                if isinstance(item, (ast.FunctionDef, ast.AsyncFunctionDef)):
                    st = stores_in_function(item)
                    if st:
                        res[item.name] = st
    return res


def class_level_mutables(tree, clsname):
    """[(name, lineno, how)]: objects created once in a class body (or as an attrs default) and therefore shared
    by all instances: `x = []` / `{}` / `set()` at class level, `attr.ib(default=[])`"""
    out = []

    def mutable(v):
        if isinstance(v, (ast.List, ast.Dict, ast.Set, ast.ListComp, ast.DictComp, ast.SetComp)):
            return True
        return isinstance(v, ast.Call) and isinstance(v.func, ast.Name) and v.func.id in ('list', 'dict', 'set', 'defaultdict', 'OrderedDict', 'deque')
    for node in tree.body:
        if isinstance(node, ast.ClassDef) and node.name == clsname:
            for item in node.body:
                if isinstance(item, (ast.Assign, ast.AnnAssign)):
                    v = item.value
                    tg = item.targets[0] if isinstance(item, ast.Assign) else item.target
                    nm = tg.id if isinstance(tg, ast.Name) else ast.unparse(tg)
                    if v is None:
                        continue
                    if mutable(v):
                        out.append((nm, item.lineno, 'class-level mutable object'))
                    if isinstance(v, ast.Call) and ast.unparse(v.func) in ('attr.ib', 'attr.attrib', 'attrib', 'ib', 'attr.field', 'field'):
                        for kw in v.keywords:
                            if kw.arg == 'default' and mutable(kw.value):
                                out.append((nm, item.lineno, 'attrs default is one shared mutable object'))
                if isinstance(item, ast.FunctionDef):
                    a = item.args
                    for d in list(a.defaults) + [d for d in a.kw_defaults if d is not None]:
                        if mutable(d):
                            out.append((item.name, item.lineno, 'mutable parameter default'))
    return out


def module_state_mutations(tree):
    """[(function, name, lineno, how)]: module-level names mutated from inside functions"""
    modnames = set()
    for node in tree.body:
        if isinstance(node, ast.Assign):
            for t in node.targets:
                if isinstance(t, ast.Name):
                    modnames.add(t.id)
    out = []

    def scan(fn, qual):
        declared_global = set()
        local_names = set(a.arg for a in fn.args.args + fn.args.kwonlyargs + fn.args.posonlyargs)
        if fn.args.vararg:
            local_names.add(fn.args.vararg.arg)
        if fn.args.kwarg:
            local_names.add(fn.args.kwarg.arg)
        for node in ast.walk(fn):
            if isinstance(node, ast.Global):
                declared_global.update(node.names)
            if isinstance(node, ast.Assign):
                for t in node.targets:
                    for e in (t.elts if isinstance(t, (ast.Tuple, ast.List)) else [t]):
                        if isinstance(e, ast.Name):
                            local_names.add(e.id)
        for node in ast.walk(fn):
            if isinstance(node, (ast.Assign, ast.AugAssign)):
                ts = node.targets if isinstance(node, ast.Assign) else [node.target]
                for t in ts:
                    if isinstance(t, ast.Name) and t.id in declared_global:
                        out.append((qual, t.id, node.lineno, 'global rebinding'))
                    if isinstance(t, (ast.Subscript, ast.Attribute)):
                        base = t
                        while isinstance(base, (ast.Subscript, ast.Attribute)):
                            base = base.value
                        if isinstance(base, ast.Name) and base.id in modnames and (base.id not in local_names or base.id in declared_global):
                            out.append((qual, base.id, node.lineno, 'store'))
            if isinstance(node, ast.Call) and isinstance(node.func, ast.Attribute) and node.func.attr in MUTATORS:
                base = node.func.value
                while isinstance(base, (ast.Subscript, ast.Attribute)):
                    base = base.value
                if isinstance(base, ast.Name) and base.id in modnames and (base.id not in local_names or base.id in declared_global):
                    out.append((qual, base.id, node.lineno, 'call .%s()' % node.func.attr))
            if isinstance(node, ast.Call) and isinstance(node.func, ast.Name) and node.func.id == 'next' and node.args \
                    and isinstance(node.args[0], ast.Name) and node.args[0].id in modnames:
                out.append((qual, node.args[0].id, node.lineno, 'next()'))
    for node in tree.body:
        if isinstance(node, (ast.FunctionDef, ast.AsyncFunctionDef)):
            scan(node, node.name)
        elif isinstance(node, ast.ClassDef):
            for item in node.body:
                if isinstance(item, (ast.FunctionDef, ast.AsyncFunctionDef)):
                    scan(item, '%s.%s' % (node.name, item.name))
    return out
