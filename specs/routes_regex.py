"""T obligations of C05 over regular languages (z3 RegLan).

* the lexical classes of the three types (read from the imported module) contain no '/'
  and only strings their converter accepts (regular over-approximation of int()/float()
  over the ASCII alphabet of the property);
* for every pattern *shape* up to N elements x trailing slash x slash mode, the regex the real
  _compile_path_pattern produced equals, as a language over all strings, a spec regex built
  from the statement (segments assigned in order; strict: exactly the pattern's slashes;
  redirect/rewrite: repeated separators and any trailing slashes)."""
import multiprocessing as mp
import time

import z3

from pyvc import regex as R
from pyvc import z as Z
from pyvc.run import Item

S = z3.StringSort()


def re_(s):
    return z3.Re(s)


def digits():
    return z3.Plus(z3.Range('0', '9'))


def ws():
    return z3.Star(z3.Union(*[z3.Re(c) for c in ' \t\n\r\f\v']))


def conv_int():
    """what int(s) accepts (ASCII): optional blanks, sign, digits with single underscores, blanks"""
    d = z3.Concat(digits(), z3.Star(z3.Concat(z3.Re('_'), digits())))
    return z3.Concat(ws(), z3.Option(z3.Union(z3.Re('+'), z3.Re('-'))), d, ws())


def conv_float():
    d = z3.Concat(digits(), z3.Star(z3.Concat(z3.Re('_'), digits())))
    mant = z3.Union(z3.Concat(d, z3.Option(z3.Concat(z3.Re('.'), z3.Option(d)))), z3.Concat(z3.Re('.'), d))
    exp = z3.Option(z3.Concat(z3.Union(z3.Re('e'), z3.Re('E')), z3.Option(z3.Union(z3.Re('+'), z3.Re('-'))), d))
    return z3.Concat(ws(), z3.Option(z3.Union(z3.Re('+'), z3.Re('-'))), mant, exp, ws())


def lex_items(lex):
    out = []
    s = z3.String('lex!s')
    for ty, conv in (('int', conv_int()), ('float', conv_float())):
        rx = R.to_z3(lex[ty])
        out.append(Item('C05.T/lexical-class-%s-converts' % ty, 'T', [z3.InRe(s, rx)], z3.InRe(s, conv),
                        note='every string the %s fragment %r admits is accepted by %s() (otherwise a segment the regex '
                             'assigned to the binding fails conversion and the route does not match although another '
                             'assignment is valid)' % (ty, lex[ty], ty), extra={'lex': ty, 'pattern': lex[ty]}))
        out[-1].backend = 'strings'
    # completeness: every literal of the type (Python's own literal grammar, optionally signed, no
    # underscores/blanks) is admitted -- otherwise a path the statement says matches does not
    d = digits()
    sign = z3.Option(z3.Union(z3.Re('+'), z3.Re('-')))
    lit_int = z3.Concat(sign, d)
    mant = z3.Union(z3.Concat(d, z3.Option(z3.Concat(z3.Re('.'), z3.Option(d)))), z3.Concat(z3.Re('.'), d))
    lit_float = z3.Concat(sign, mant, z3.Option(z3.Concat(z3.Union(z3.Re('e'), z3.Re('E')), sign, d)))
    for ty, lit in (('int', lit_int), ('float', lit_float)):
        rx = R.to_z3(lex[ty])
        out.append(Item('C05.T/lexical-class-%s-complete' % ty, 'T', [z3.InRe(s, lit)], z3.InRe(s, rx),
                        note='every %s literal ([sign] digits%s) is admitted by the %s fragment %r'
                             % (ty, ' [. digits] | . digits, optional exponent' if ty == 'float' else '', ty, lex[ty]),
                        extra={'lex': ty, 'pattern': lex[ty]}))
        out[-1].backend = 'strings'
    for ty in ('int', 'float', 'str'):
        rx = R.to_z3(lex[ty])
        out.append(Item('C05.T/lexical-class-%s-has-no-slash' % ty, 'T', [z3.InRe(s, rx)],
                        z3.Not(z3.Contains(s, z3.StringVal('/'))), note='a segment never contains "/"'))
        out[-1].backend = 'strings'
    return out


def spec_regex(elems, trailing, mode, lex):
    sep = z3.Re('/') if mode == 'strict' else z3.Plus(z3.Re('/'))
    parts = []
    for i, (kind, op, ty) in enumerate(elems):
        if kind == 'lit':
            parts.append(z3.Concat(sep, z3.Re('lit%d' % i)))
            continue
        one = z3.Concat(sep, R.to_z3(lex[ty or 'str']))
        if op in ('', ':', None):
            parts.append(one)
        elif op == '?':
            parts.append(z3.Option(one))
        elif op == '*':
            parts.append(z3.Star(one))
        elif op == '+':
            parts.append(z3.Plus(one))
    if mode == 'strict':
        if trailing:
            parts.append(z3.Re('/'))
    else:
        if not elems:
            parts.append(z3.Plus(z3.Re('/')) if False else z3.Re(''))
        parts.append(z3.Star(z3.Re('/')))
    if not parts:
        return z3.Re('')
    return parts[0] if len(parts) == 1 else z3.Concat(*parts)


def _check_chunk(args):
    chunk, lex, timeout = args
    res = []
    s = z3.String('shape!s')
    for it in chunk:
        if 'error' in it:
            res.append((it['pattern'], it['mode'], 'error', it['error'], 0.0))
            continue
        t0 = time.time()
        try:
            code = R.to_z3(it['regex'])
            spec = spec_regex([tuple(e) for e in it['elems']], it['trailing'], it['mode'], lex)
            if it['mode'] != 'strict' and not it['elems']:
                # the pattern '/' in a tolerant mode: any non-empty run of slashes... per the code '^/*$'
                spec = z3.Star(z3.Re('/'))
            sol = z3.Solver()
            sol.set('timeout', timeout)
            sol.add(z3.InRe(s, code) != z3.InRe(s, spec))
            r = sol.check()
            wit = None
            if r == z3.sat:
                wit = sol.model()[s]
                wit = wit.as_string() if wit is not None else None
            res.append((it['pattern'], it['mode'], str(r), wit, time.time() - t0))
        except Exception as e:
            res.append((it['pattern'], it['mode'], 'exception', repr(e), time.time() - t0))
    return res


def shape_items(dump, nproc=12, timeout=10000):
    items = dump['items']
    lex = dump['lex']
    k = max(1, len(items) // (nproc * 4))
    chunks = [(items[i:i + k], lex, timeout) for i in range(0, len(items), k)]
    ctx = mp.get_context('spawn')
    out = []
    with ctx.Pool(nproc) as pool:
        for res in pool.imap_unordered(_check_chunk, chunks):
            out.extend(res)
    return out
