"""Lemmas (kind L) connecting the fold contracts of C01 to the declarative
statement.  Inductions are split into base and step; nothing here is assumed
by the K obligations."""
import z3
from pyvc import z as Z
from pyvc.values import nset, NamesSort
from pyvc.run import Item
from .sig import *   # noqa
from .chain import ReqF, ProvF, OptF, SeqO, SeqSeqS

fs = z3.Const('L!fs', SeqO)
ps = z3.Const('L!ps', SeqSeqS)
inner = z3.Const('L!inner', Z.Str)
pre = z3.Const('L!pre', SetS)
n = z3.Int('L!n')
k = z3.Int('L!k')
j = z3.Int('L!j')
f = z3.Const('L!f', Z.Obj)


def callnames(fn, mode):
    """Names the generated code may pass to a chain function by keyword:
    what build_chain_str reads from the FunctionBuilder ('args' = fb.args,
    'argnames' = fb.get_arg_names()).  Which one the real code uses is
    established by the bounded stand-in bounded/chain_text.py."""
    return nset(ARGS(fn)) if mode == 'args' else ARGN(fn)


def Q(m):
    return z3.ForAll([j], z3.Implies(z3.And(j >= 0, j < m),
                                     z3.IsSubset(UNDEF(fs[j]), z3.SetUnion(pre, ProvF(ps, inner, j)))))


def lemmas(callmode):
    out = []
    wf = [z3.Length(fs) == z3.Length(ps)]
    # L1: Req(n) within pre  <=>  every function's undefaulted parameters are available at its position
    out.append(Item('C01.L1/base', 'L', wf, z3.IsSubset(ReqF(fs, ps, inner, 0), pre) == Q(0),
                    note='Req(0) is empty; the quantifier is vacuous'))
    out.append(Item('C01.L1/step', 'L', wf + [n >= 0, n < z3.Length(fs),
                                              z3.IsSubset(ReqF(fs, ps, inner, n), pre) == Q(n)],
                    z3.IsSubset(ReqF(fs, ps, inner, n + 1), pre) == Q(n + 1),
                    note='unresolved is empty iff every required parameter is provided before its position'))
    # L2a: what function k needs and its predecessors do not provide is part of Req(n), n > k
    need_k = z3.SetDifference(UNDEF(fs[k]), ProvF(ps, inner, k))
    out.append(Item('C01.L2a/base', 'L', wf + [k >= 0, k < z3.Length(fs)],
                    z3.IsSubset(need_k, ReqF(fs, ps, inner, k + 1))))
    out.append(Item('C01.L2a/step', 'L', wf + [k >= 0, k < n, n < z3.Length(fs),
                                               z3.IsSubset(need_k, ReqF(fs, ps, inner, n))],
                    z3.IsSubset(need_k, ReqF(fs, ps, inner, n + 1))))
    # L2b: every undefaulted parameter is among the names the generated call may pass
    out.append(Item('C01.L2b/required-names-are-passable', 'L', [sig_facts(f)],
                    z3.IsSubset(UNDEF(f), callnames(f, callmode)),
                    note='no missing argument: a parameter without default must be passable by the generated '
                         'keyword call (false when the call is built from fb.args and the parameter is keyword-only)',
                    extra={'lemma': 'L2b'}))
    # L2: no missing argument at level k of a chain compiled with args >= Req(n)
    args = z3.Const('L!args', SetS)
    scope_k = z3.SetUnion(args, ProvF(ps, inner, k))
    out.append(Item('C01.L2/no-missing-argument', 'L',
                    wf + [k >= 0, k < z3.Length(fs), sig_facts(fs[k]),
                          z3.IsSubset(ReqF(fs, ps, inner, z3.Length(fs)), args),
                          z3.IsSubset(need_k, ReqF(fs, ps, inner, z3.Length(fs))),      # L2a instance
                          z3.IsSubset(UNDEF(fs[k]), callnames(fs[k], callmode))],       # L2b instance
                    z3.IsSubset(UNDEF(fs[k]), z3.SetIntersect(callnames(fs[k], callmode), scope_k)),
                    note='level k passes callnames(f_k) & scope_k, which covers UNDEF(f_k)'))
    # L5: no unexpected argument
    out.append(Item('C01.L5/no-unexpected-argument[no positional-only]', 'L',
                    [sig_facts(f), POSONLY(f) == Z.empty_set(Z.Str)],
                    z3.IsSubset(callnames(f, callmode), z3.SetDifference(ARGN(f), POSONLY(f))),
                    note='every keyword the generated call passes is accepted by keyword'))
    out.append(Item('C01.L5/no-unexpected-argument[positional-only]', 'L',
                    [sig_facts(f), POSONLY(f) != Z.empty_set(Z.Str)],
                    z3.IsSubset(callnames(f, callmode), z3.SetDifference(ARGN(f), POSONLY(f))),
                    note='positional-only parameters are passed by keyword (known finding F2)',
                    extra={'lemma': 'L5pos'}))
    return out
