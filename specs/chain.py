"""Fold specifications of the argument-resolution chain (C01/C02).

Each fold is defined on the processed prefix of length i, exactly once,
globally (DESIGN.md 3: one SMT definition per spec function)."""
import z3
from pyvc import z as Z
from pyvc.values import *   # noqa
from pyvc import models as M
from .sig import *   # noqa

SeqO = Z.SeqSort(Z.Obj)
SeqSeqS = Z.SeqSort(NamesSort)
el = nset

_fs = z3.Const('fs!', SeqO)
_ps = z3.Const('ps!', SeqSeqS)
_in = z3.Const('in!', Z.Str)
_i = z3.Int('i!')

ProvF = z3.RecFunction('Prov', SeqSeqS, Z.Str, Z.Int, SetS)
z3.RecAddDefinition(ProvF, [_ps, _in, _i],
                    z3.If(_i <= 0, z3.SetAdd(Z.empty_set(Z.Str), _in),
                          z3.SetUnion(ProvF(_ps, _in, _i - 1), el(_ps[_i - 1]))))

OptF = z3.RecFunction('Opt', SeqO, Z.Int, SetS)
z3.RecAddDefinition(OptF, [_fs, _i],
                    z3.If(_i <= 0, Z.empty_set(Z.Str),
                          z3.SetUnion(OptF(_fs, _i - 1),
                                      z3.SetIntersect(ARGN(_fs[_i - 1]), DEF(_fs[_i - 1])))))

ReqF = z3.RecFunction('Req', SeqO, SeqSeqS, Z.Str, Z.Int, SetS)
z3.RecAddDefinition(ReqF, [_fs, _ps, _in, _i],
                    z3.If(_i <= 0, Z.empty_set(Z.Str),
                          z3.SetUnion(ReqF(_fs, _ps, _in, _i - 1),
                                      z3.SetDifference(UNDEF(_fs[_i - 1]), ProvF(_ps, _in, _i - 1)))))


def _seq(I, ctx, v, et):
    q = I._as_seq(ctx, I.resolve(ctx, v), et)
    if q is None:
        raise TypeError('spec: not a sequence %r' % (v,))
    return q[0]


def register(E):
    TS = TNames

    @E.spec('Prov')
    def Prov(I, ctx, provides, inner, i):
        return VSet(ProvF(_seq(I, ctx, provides, TS), inner.z, TInt.to_z(i)), TStr)

    @E.spec('Opt')
    def Opt(I, ctx, funcs, i):
        return VSet(OptF(_seq(I, ctx, funcs, TObj('Func')), TInt.to_z(i)), TStr)

    @E.spec('Req')
    def Req(I, ctx, funcs, provides, inner, i):
        return VSet(ReqF(_seq(I, ctx, funcs, TObj('Func')), _seq(I, ctx, provides, TS), inner.z, TInt.to_z(i)), TStr)
