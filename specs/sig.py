"""Signature model of a callable (assumption A-fb, DESIGN.md 5.2 / Appendix A).

All functions are uninterpreted over sort Obj; what boltons' FunctionBuilder
reports for a callable f:
  ARGS(f)    positional-or-keyword and positional-only names, in order (self dropped)
  KWONLY(f)  keyword-only names, in order
  ARGNSEQ(f) = what get_arg_names() returns = ARGS ++ KWONLY
  ARGN(f)    = set of ARGNSEQ(f)
  DEF(f)     = names with a default (domain of get_defaults_dict()), subset of ARGN(f)
  POSONLY(f) = positional-only names, subset of set(ARGS(f))
"""
import z3
from pyvc import z as Z
from pyvc.values import *   # noqa
from pyvc import models as M

SeqS = Z.SeqSort(Z.Str)
SetS = Z.SetSort(Z.Str)
ARGS = Z.func('ARGS', Z.Obj, NamesSort)        # fb.args
KWONLY = Z.func('KWONLY', Z.Obj, NamesSort)    # fb.kwonlyargs
ARGNSEQ = Z.func('ARGNSEQ', Z.Obj, NamesSort)  # fb.get_arg_names()
REQSEQ = Z.func('REQSEQ', Z.Obj, NamesSort)    # fb.get_arg_names(only_required=True)
ARGN = Z.func('ARGN', Z.Obj, SetS)
DEF = Z.func('DEF', Z.Obj, SetS)
POSONLY = Z.func('POSONLY', Z.Obj, SetS)
DEFVAL = Z.func('DEFVAL', Z.Obj, z3.ArraySort(Z.Str, Z.Obj))
VARKW = Z.func('VARKW', Z.Obj, Z.Bool)
VARARGS = Z.func('VARARGS', Z.Obj, Z.Bool)
FBOF = Z.func('FBOF', Z.Obj, Z.Obj)        # get_fb(f)
FUNCOF = Z.func('FUNCOF', Z.Obj, Z.Obj)    # inverse on the image


def UNDEF(f):
    return z3.SetDifference(ARGN(f), DEF(f))


_SIG_MEMO = {}


def sig_facts(f):
    """Facts assumed of every callable's reported signature (A-fb)."""
    k = f.get_id()
    r = _SIG_MEMO.get(k)
    if r is None:
        r = _SIG_MEMO[k] = (f, _sig_facts(f))      # keep f alive so ids are not reused
    return r[1]


def _sig_facts(f):
    return z3.And(z3.IsSubset(DEF(f), ARGN(f)),
                  nset(ARGNSEQ(f)) == ARGN(f),
                  nset(REQSEQ(f)) == UNDEF(f),
                  z3.SetUnion(nset(ARGS(f)), nset(KWONLY(f))) == ARGN(f),
                  z3.IsSubset(POSONLY(f), nset(ARGS(f))))
