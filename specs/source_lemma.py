"""Lemmas (kind L) of C02: the three contracts on the way of an argument --
Application.dispatch (what it hands to execute), BoundRoute.execute (what it hands to
inject), sinter.inject (what it hands to the function) -- compose to the statement:
every declared parameter receives the value of its one source, a default is used only
when no source offers the name, nothing undeclared is passed.

The hypotheses are the postconditions of those contracts, written over the same maps
(domain set + value array); the well-formedness hypothesis is C04's postcondition
(check_middlewares: every name has at most one source)."""
import z3
from pyvc import z as Z
from pyvc.run import Item

S = Z.Str
O = Z.Obj
SetS = Z.SetSort(S)
Arr = z3.ArraySort(S, O)


def _c(name, sort):
    return z3.Const('SL!' + name, sort)


def lemmas(reserved):
    Dp, Ap = _c('url_dom', SetS), _c('url_val', Arr)            # match_path's result for this route and path
    Dr, Ar = _c('appres_dom', SetS), _c('appres_val', Arr)      # dispatching application's resources
    Drr, Arr_ = _c('routeres_dom', SetS), _c('routeres_val', Arr)  # the bound route's resources
    req, app, app_b, route, ds = [_c(n, O) for n in ('request', 'app', 'route_app', 'route', 'dispatch_state')]
    N, Df, Dv = _c('argnames', SetS), _c('defaulted', SetS), _c('default_val', Arr)
    Dk, Ak = _c('kw_dom', SetS), _c('kw_val', Arr)              # dispatch -> execute
    Di, Ai = _c('inj_dom', SetS), _c('inj_val', Arr)            # execute -> inject
    Dc, Ac = _c('call_dom', SetS), _c('call_val', Arr)          # inject -> the function
    k = _c('k', S)
    n = _c('n', S)
    sv = z3.StringVal
    mem = z3.IsMember
    three = z3.SetAdd(z3.SetAdd(z3.SetAdd(Z.empty_set(S), sv('request')), sv('_application')), sv('_dispatch_state'))
    three_r = z3.SetAdd(z3.SetAdd(z3.SetAdd(Z.empty_set(S), sv('_route')), sv('request')), sv('_application'))
    RES = Z.empty_set(S)
    for r in reserved:
        RES = z3.SetAdd(RES, sv(r))
    # -- the contracts' postconditions -----------------------------------------------------------
    # "for every key k in the domain (under guard g): M[k] == f(k)" is stated quantifier-free as
    #   M == (lambda k: f(k) if g(k) else G[k])   for an unconstrained array G
    # (equivalent: G names the values the contract says nothing about)
    def defined(M, name, guard, val):
        G = _c('rest_' + name, Arr)
        return M == z3.Lambda([k], z3.If(guard, val, z3.Select(G, k)))
    dispatch_post = [
        Dk == z3.SetUnion(Dp, Dr, three),
        defined(Ak, 'kw', z3.And(mem(k, Dk), z3.Not(z3.And(mem(k, Dp), mem(k, Dr)))),
                z3.If(mem(k, Dp), z3.Select(Ap, k),
                      z3.If(k == sv('request'), req,
                            z3.If(k == sv('_application'), app,
                                  z3.If(k == sv('_dispatch_state'), ds, z3.Select(Ar, k))))))]
    execute_post = [
        Di == z3.SetUnion(Dk, Drr, three_r),
        defined(Ai, 'inj', mem(k, Di),
                z3.If(mem(k, Dk), z3.Select(Ak, k),
                      z3.If(mem(k, Drr), z3.Select(Arr_, k),
                            z3.If(k == sv('_route'), route, z3.If(k == sv('request'), req, app_b)))))]
    inject_post = [
        z3.IsSubset(Dc, N),
        Dc == z3.SetIntersect(z3.SetUnion(Di, Df), N),
        defined(Ac, 'call', mem(k, Dc), z3.If(mem(k, Di), z3.Select(Ai, k), z3.Select(Dv, k)))]
    # -- well-formedness: C04's postcondition (one source per name) -----------------------------
    wf = [z3.SetIntersect(Dp, RES) == Z.empty_set(S), z3.SetIntersect(Dp, Dr) == Z.empty_set(S),
          z3.SetIntersect(Dp, Drr) == Z.empty_set(S), z3.SetIntersect(Dr, RES) == Z.empty_set(S),
          z3.SetIntersect(Drr, RES) == Z.empty_set(S), z3.IsSubset(Df, N)]
    hyp = dispatch_post + execute_post + inject_post + wf + [mem(n, N)]
    got = z3.Select(Ac, n)
    out = []

    def L(name, goal, note):
        out.append(Item('C02.L/' + name, 'L', hyp, goal, note=note))
    L('url-value', z3.Implies(mem(n, Dp), z3.And(mem(n, Dc), got == z3.Select(Ap, n))),
      'a declared parameter named like a URL binding receives the converted segment')
    L('resource-identity', z3.Implies(mem(n, Dr), z3.And(mem(n, Dc), got == z3.Select(Ar, n))),
      'a declared parameter named like a resource of the dispatching application receives that very object')
    L('route-resource-identity', z3.Implies(z3.And(mem(n, Drr), z3.Not(mem(n, Dr))), z3.And(mem(n, Dc), got == z3.Select(Arr_, n))),
      'a resource only the bound route carries (an embedded application\'s) is passed by identity')
    L('builtin-request', z3.Implies(n == sv('request'), z3.And(mem(n, Dc), got == req)), 'request is this request')
    L('builtin-application', z3.Implies(n == sv('_application'), z3.And(mem(n, Dc), got == app)),
      '_application is the dispatching application')
    L('builtin-route', z3.Implies(n == sv('_route'), z3.And(mem(n, Dc), got == route)), '_route is the executing route')
    L('builtin-dispatch-state', z3.Implies(n == sv('_dispatch_state'), z3.And(mem(n, Dc), got == ds)),
      '_dispatch_state is this request\'s dispatch state')
    L('own-default-only-when-no-source', z3.Implies(z3.And(mem(n, Dc), got == z3.Select(Dv, n), z3.Select(Dv, n) != z3.Select(Ai, n)),
                                                    z3.Not(mem(n, Di))),
      'the own default is what arrives only if no source offers the name')
    L('default-used-when-no-source', z3.Implies(z3.And(mem(n, Df), z3.Not(mem(n, Di))), z3.And(mem(n, Dc), got == z3.Select(Dv, n))),
      'a defaulted parameter no source offers receives its default')
    out.append(Item('C02.L/nothing-undeclared', 'L', dispatch_post + execute_post + inject_post + wf,
                    z3.ForAll([k], z3.Implies(mem(k, Dc), mem(k, N))), note='no name outside the declared parameters is passed'))
    # vacuity guard: the hypotheses are satisfiable (an assertion that must fail)
    out.append(Item('C02.L/hypotheses-satisfiable[cover]', 'L', hyp, z3.BoolVal(False),
                    note='reachability check behind the lemma hypotheses (must be satisfiable)', extra={'cover': True}))
    return out
