"""T obligations on the process_request template (C02/C03): the text of
_REQ_INNER_TMPL is read from the imported module, instantiated with
placeholder arguments, parsed and symbolically executed by the same engine."""
import ast
import z3
from pyvc import z as Z
from pyvc.values import *   # noqa
from pyvc.engine import Contract

BR = 'werkzeug.wrappers.base_response.BaseResponse'


def items(pc, E, prefix='C03.T'):
    from pyvc.run import Item
    tmpl = E.refl['modules']['clastic.middleware.core']['consts'].get('_REQ_INNER_TMPL')
    if tmpl is None:
        pc.undecided.append(('_REQ_INNER_TMPL is no longer a module constant', None, 'middleware.core'))
        return
    text = tmpl['v'].format(all_args='a,b', endpoint_args='a=a', render_args='b=b, context=context')
    try:
        tree = ast.parse(text)
    except SyntaxError as e:
        pc.undecided.append(('instantiated _REQ_INNER_TMPL does not parse: %s' % e, None, 'middleware.core'))
        return
    fnode = [n for n in tree.body if isinstance(n, ast.FunctionDef)]
    if len(fnode) != 1 or fnode[0].name != 'process_request':
        pc.undecided.append(('instantiated _REQ_INNER_TMPL is not a single def process_request', None, 'middleware.core'))
        return
    fnode = fnode[0]
    mod = E.repo.module('clastic.middleware.core')

    def setup(E_, ctx, fr):
        ep = ctx.new_obj('endpoint')
        rn = ctx.new_obj('render')
        from pyvc.interp import is_callable
        ctx.assume(is_callable(ep))
        ctx.assume(is_callable(rn))
        # the exec environment built by _create_request_inner
        fr.locals['endpoint'] = VObj(ep)
        fr.locals['render'] = VObj(rn)
        fr.locals['BaseResponse'] = VClass(BR)

    post_ok = [
        'ncalls() >= 1 and call_fn(0) is endpoint and call_nargs(0) == 0',
        'keys(call_kw(0)) == set(["a"]) and call_kw(0)["a"] is a',
        'implies(isinstance_of(call_ret(0), "%s"), ncalls() == 1 and result is call_ret(0))' % BR,
        'implies(not isinstance_of(call_ret(0), "%s"), ncalls() == 2 and call_fn(1) is render and '
        'call_nargs(1) == 0 and result is call_ret(1))' % BR,
        'implies(not isinstance_of(call_ret(0), "%s"), keys(call_kw(1)) == set(["b", "context"]) and '
        'call_kw(1)["b"] is b and call_kw(1)["context"] is call_ret(0))' % BR,
    ]
    post_exc = [
        # whatever a layer raises is exactly what escapes (no try/except in the template)
        '(ncalls() == 1 and call_raised(0) and _exc is call_exc(0)) or '
        '(ncalls() == 2 and not isinstance_of(call_ret(0), "%s") and call_raised(1) and _exc is call_exc(1))' % BR,
    ]
    c = Contract('clastic.middleware.core.<process_request template>',
                 params={'a': TObj(), 'b': TObj()}, setup=setup,
                 ensures=post_ok, exc_ensures=post_exc, may_raise_any=True, returns=TObj())
    res = E.verify_node(c, mod, fnode)
    pc.functions.append({'function': 'process_request (instantiated _REQ_INNER_TMPL)', 'file': 'clastic/middleware/core.py',
                         'lines': None, 'sha1': None, 'paths': res.paths, 'obligation_instances': len(res.obligations)})
    for why, line in res.undecided:
        pc.undecided.append((why, line, 'process_request template'))
    for o in res.obligations:
        pc.add_item(Item(o.clause.replace('middleware.core.<process_request template>', prefix + '/process_request'),
                         'T', o.pc, o.goal, o.func, o.lineno, o.note, dict(o.extra, trail=o.trail)))
    # structure: no try statement, exactly the expected statements
    has_try = any(isinstance(n, ast.Try) for n in ast.walk(fnode))
    it = Item(prefix + '/process_request/no-try', 'T', [], z3.BoolVal(not has_try),
              note='the template contains no try/except, so exceptions propagate unchanged')
    it.by = 'evaluation'
    pc.add_item(it)
