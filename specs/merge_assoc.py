"""Lemmas (kind L) of C10: binding a route under an inner and then an outer application merges the
middleware lists exactly like binding it once under a flat application whose list is merge(inner, outer):

    MERGE(MERGE(r, i, |r|), o, |MERGE(r, i, |r|)|) == MERGE(r, MERGE(i, o, |i|), |r|)

MERGE / HASTY are the recursive spec functions merge_middlewares is verified against (C03).
Proof by induction on the prefix length k of r.  z3 does no induction and little sequence
reasoning on its own, so the proof is cut into small lemmas; every hypothesis of a later item is an
INSTANCE of an earlier item proved for arbitrary constants (or the induction hypothesis)."""
import z3
from pyvc import z as Z
from pyvc.run import Item
import contracts.core as core

SeqO = core.SeqO
MERGE, HASTY, TY = core.MERGE, core.HASTY, core.MW_TY
L = z3.Length
r, i, o, s, x = [z3.Const('MA!' + n_, SeqO) for n_ in 'r i o s x'.split()]
c, t = z3.Const('MA!c', Z.Obj), z3.Const('MA!t', Z.Obj)
k, n = z3.Int('MA!k'), z3.Int('MA!n')


def snoc(xx, cc, tt):
    return HASTY(z3.Concat(xx, z3.Unit(cc)), tt) == z3.Or(HASTY(xx, tt), TY(cc) == tt)


def prefix_step(ss, nn):
    return z3.Extract(ss, 0, nn + 1) == z3.Concat(z3.Extract(ss, 0, nn), z3.Unit(ss[nn]))


def lemmas():
    out = []

    def add(name, hyp, goal, note=''):
        out.append(Item('C10.L/merge-assoc/' + name, 'L', hyp, goal, note=note))
    # 1. HASTY over an appended element
    add('hasty-snoc', [], snoc(x, c, t), 'a type occurs in x ++ [c] iff it occurs in x or is c\'s')
    # 2. sequences
    add('prefix-step', [n >= 0, n < L(s)], prefix_step(s, n))
    sc = z3.Concat(s, z3.Unit(c))
    add('nth-of-snoc', [n >= 0, n < L(s)], sc[n] == s[n])
    add('last-of-snoc', [], z3.And(sc[L(s)] == c, L(sc) == L(s) + 1))
    add('full-prefix', [], z3.Extract(s, 0, L(s)) == s)
    # 3. MERGE reads only the first n elements of its first argument   (induction on n)
    P = lambda m: MERGE(sc, o, m) == MERGE(s, o, m)
    add('reads-a-prefix/base', [], P(z3.IntVal(0)))
    add('reads-a-prefix/step', [n >= 0, n < L(s), P(n), sc[n] == s[n]], P(n + 1), 'uses nth-of-snoc')
    # 4. types only grow: a type among the first n elements of s occurs in MERGE(s, o, n)   (induction on n)
    En, En1 = z3.Extract(s, 0, n), z3.Extract(s, 0, n + 1)
    U = HASTY(En1, t) == z3.Or(HASTY(En, t), TY(s[n]) == t)
    add('hasty-prefix-unfold', [n >= 0, n < L(s), prefix_step(s, n), snoc(En, s[n], t)], U, 'uses prefix-step, hasty-snoc')
    G = lambda m: z3.Implies(HASTY(z3.Extract(s, 0, m), t), HASTY(MERGE(s, o, m), t))
    prev, cur = MERGE(s, o, n), s[n]
    add('types-only-grow/base', [], G(z3.IntVal(0)))
    add('types-only-grow/step', [n >= 0, n < L(s), G(n), U, snoc(prev, cur, t), snoc(prev, cur, TY(cur))], G(n + 1),
        'uses hasty-prefix-unfold, hasty-snoc (twice)')
    add('types-only-grow/whole', [G(L(s)), z3.Extract(s, 0, L(s)) == s],
        z3.Implies(HASTY(s, t), HASTY(MERGE(s, o, L(s)), t)), 'instance n = |s| with full-prefix')
    # 5. the theorem   (induction on k)
    F = MERGE(i, o, L(i))
    A = lambda m: MERGE(r, i, m)
    LHS = lambda m: MERGE(A(m), o, L(A(m)))
    RHS = lambda m: MERGE(r, F, m)
    add('base', [], LHS(z3.IntVal(0)) == RHS(z3.IntVal(0)))
    Ak, cr = A(k), r[k]
    Ak1 = z3.Concat(Ak, z3.Unit(cr))
    add('step', [k >= 0, k < L(r), LHS(k) == RHS(k),
                 MERGE(Ak1, o, L(Ak)) == MERGE(Ak, o, L(Ak)),                                   # reads-a-prefix at n = |A_k|
                 z3.Implies(HASTY(Ak, TY(cr)), HASTY(MERGE(Ak, o, L(Ak)), TY(cr))),              # types-only-grow/whole
                 z3.And(Ak1[L(Ak)] == cr, L(Ak1) == L(Ak) + 1)],                                # last-of-snoc
        LHS(k + 1) == RHS(k + 1), 'uses reads-a-prefix, types-only-grow/whole, last-of-snoc; k = |r| gives the statement')
    # vacuity guard behind the step hypotheses
    out.append(Item('C10.L/merge-assoc/step-hypotheses[cover]', 'L',
                    [k >= 0, k < L(r), LHS(k) == RHS(k), L(r) == 1, L(i) == 0, L(o) == 0], z3.BoolVal(False), extra={'cover': True},
                    note='the induction hypothesis is satisfiable'))
    return out
