#!/usr/bin/env python3
"""Regenerates MANIFEST.json from the table below (kept valid at all times)."""
import json, os
HERE = os.path.dirname(os.path.dirname(os.path.abspath(__file__)))
props = [json.loads(l) for l in open(os.path.join(HERE, 'properties.jsonl'))]

CLAIMED = {
    'C01': dict(
        text='Contract-based deductive verification of the real functions: the set algebra of the bind-time checker '
             '(chain_argspec, make_chain, make_middleware_chain, inject) is proved against fold specifications for '
             'every stack length by loop invariants; induction lemmas connect the folds to the declarative statement '
             '(accept iff every required parameter is available at its position; no missing / no unexpected '
             'argument). The exec boundary (generated text) and signature reflection are bounded stand-ins, labelled '
             'bounded and not counted.',
        note='Trusted: CPython semantics as encoded by pyvc, z3; assumed contracts A-fb (FunctionBuilder), A-exec '
             '(compile/exec of generated text) policed by an exhaustive enumeration to a stated bound; the cycle check '
             'is outside the contracts (either outcome accepted by the statement). Known finding F2 (positional-only '
             'parameters) is case-split and reported as KNOWN-FINDING.',
        technique='contract-based deductive verification: VC generation from the real Python AST (pyvc) + z3, '
                  'induction lemmas; bounded enumeration only at the exec boundary',
        design_ref='DESIGN.md 7 C01'),
    'C03': dict(
        text='Deductive verification of merge_middlewares against a recursive merge specification (loop invariant, all '
             'list lengths), of Middleware.__eq__/__ne__, and of the list order handed to the chain compiler by '
             'make_middleware_chain; the process_request template is read from the imported module, instantiated and '
             'symbolically executed by the same engine (call trace: endpoint, then render only for non-Responses; '
             'exceptions escape unchanged); induction lemmas give outer-first and unique-once.',
        note='The step from the generated nested-def text to run-time nesting is Python closure semantics (A-exec), '
             'policed by a bounded enumeration of the real build_chain_str output parsed with ast; behaviour of user '
             'middleware code is not decided.',
        technique='contract-based deductive verification (pyvc VC generation over the real AST + z3), template '
                  'obligations by symbolic execution, induction lemmas',
        design_ref='DESIGN.md 7 C03'),
    'C04': dict(
        text='Deductive verification of check_middlewares (nested loops over every provides tuple, counting invariant '
             'per name: NameError only if some name is offered by two sources, normal return only if none is), '
             'check_middleware (first parameter must be next) and of the next/context clauses of make_middleware_chain; '
             'RESERVED_ARGS checked by evaluation on the imported module.',
        note='provides tuples are treated as duplicate-free name sets (the code is stricter for duplicates inside one '
             'tuple); a truthy request/endpoint/render attribute is assumed callable; undecided clauses fall back to a '
             'bounded native refutation search which can only produce counterexamples.',
        technique='contract-based deductive verification (pyvc + z3), quantified counting invariants',
        design_ref='DESIGN.md 7 C04'),
    'C06': dict(
        text='Deductive verification of Application.dispatch against fold specifications of the dispatch state (loop '
             'invariant + loop postcondition, every table length): routes before the answering one did not answer, the '
             'answering one matches and admits the method, a plain Response is returned as is, and when no route answers '
             'the result renders the most recent non-breaking error, else a 405 whose Allow set is the union of the '
             'methods of path-matching routes, else 404; plus contracts on match_method, Route.__init__ (upper-casing, '
             'GET implies HEAD, unknown methods rejected), NullRoute.handle_sentinel_condition, '
             'MethodNotAllowed.__init__ (Allow header) and Application.add (order).',
        note='The outcome of executing a route is an uninterpreted function of the route within one request; the '
             'built-in catch-all route is summarised by the verified contract of handle_sentinel_condition composed '
             'with the injection contracts (C01/C02); pattern matching itself is C05; Werkzeug request attributes assumed.',
        technique='contract-based deductive verification (pyvc + z3): loop invariant/postcondition over recursive '
                  'fold specs; native replay of counter-models',
        design_ref='DESIGN.md 7 C06'),
    'C07': dict(
        text='Deductive verification of normalize_path against its segment specification (split/join axioms) and of '
             'the redirect clause of dispatch: a redirect is issued exactly by a matching, method-admitting branch route '
             'in redirect mode whose path is not canonical, and its Location is root + quoted canonical path + the query '
             'only when present (postcondition taken from the statement).',
        note='A-str (split/join), A-wz-url (url_quote round trip, redirect() sets Location) assumed; idempotence / '
             'one-hop are covered by the functional form of the canonical path plus a bounded native search used only '
             'for counterexamples.',
        technique='contract-based deductive verification (pyvc + z3)', design_ref='DESIGN.md 7 C07'),
    'C08': dict(
        text='Deductive verification of the exceptional control flow of Application.dispatch: on every path (any value or '
             'any Exception from application code at every call) the result is a BaseResponse, and an exception leaves '
             'dispatch only if it is a RerouteWSGI or the error handler re-raises; error-renderer failure falls back to '
             'the default rendering.',
        note='error-type constructors and ExceptionInfo assumed total; user render_error functions return Responses; '
             'per-request state on self is excluded by the frame obligations of C12.',
        technique='contract-based deductive verification (pyvc + z3), exhaustive path enumeration of try/except',
        design_ref='DESIGN.md 7 C08'),
    'C11': dict(
        text='Deductive verification of Application.add: the new routes are inserted contiguously and in order at the '
             'position list.insert would use for the first one, every other route keeps its relative order (loop '
             'invariant in decomposition form), and any failure before the first insertion leaves the table unchanged '
             '(exceptional postcondition).',
        note='binding itself (cast_to_route_factory / bind / bind_all) is summarised as returning fresh bound routes or '
             'raising; frames of BoundRoute.__init__ and module-state scan are listed under coverage.notes when present.',
        technique='contract-based deductive verification (pyvc + z3)', design_ref='DESIGN.md 7 C11'),
    'C19': dict(
        text='Data structure against an abstract view: every public operation of Reservoir (add, resize, total_count) is '
             'verified to preserve the representation invariant (stored values <= capacity, <= total, only values that '
             'were added, exact total) for all capacities and all histories (induction over operations), never raising; '
             'StatsMiddleware.request is verified to record exactly one hit on every exit (return or any exception), '
             'under the repr of the response status / HTTPException code / exception class name, and to pass the '
             'response or exception through unchanged, for both kinds of next() results (Response, HTTPException) with '
             'attribute tables reflected from the installed classes.',
        note='floats and time are opaque; random.random() in [0,1) assumed; the defaultdict-of-defaultdict store is '
             'summarised as a map route -> status -> reservoir; reset / get_stats_dict wrap boltons Stats and are not '
             'under contract.',
        technique='contract-based deductive verification (pyvc + z3): representation invariant, try/except/finally '
                  'path enumeration', design_ref='DESIGN.md 7 C19'),
    'C15': dict(
        text='One contract per request function of every built-in middleware (gzip, HTTP cache, stats, profiler without '
             'trigger, signed cookie, GET/POST parameter extractors, script root), verified for both kinds of next() '
             'results (Werkzeug Response; HTTPException as returned by the catch-all route) with attribute tables '
             'reflected from the installed classes: the function returns exactly the object next() returned, lets any '
             'exception through unchanged, never writes status; gzip additionally: an encoded body gunzips to the '
             'original data, Content-Length is the length sent, Vary gets Accept-Encoding, nothing is encoded when the '
             'client does not accept gzip.',
        note='Gzip round trip, Werkzeug descriptors (vary, cache_control, add_etag, make_conditional without conditional '
             'headers) and SecureCookie.save_cookie are assumed contracts; ContextProcessor (nested closure) is covered '
             'by the native replay harness only.',
        technique='contract-based deductive verification (pyvc + z3): attribute-safety and pass-through obligations '
                  'against reflected class tables', design_ref='DESIGN.md 7 C15'),
    'C17': dict(
        text='Deductive verification of BasicRender.render_response per kind of endpoint result (str, bytes, int, bool, '
             'None, non-sized object, sized non-text object): always a 200 Response, never an exception, with the '
             'mimetype the statement gives (JSON-looking text -> application/json, HTML document -> text/html, other '
             'text -> text/plain, non-sized -> text/plain, sized -> JSON unless HTML is asked for); _guess_json against '
             'the statement (non-empty, first/last bytes {} or []); ClasticJSONEncoder.default raises TypeError only '
             'outside dev mode. NameError-freedom is a generic safety obligation (every global name is resolved in the '
             'reflected module namespace).',
        note='json/boltons-table internals assumed (A-json, A-tbl); the JSON and tabular renderers invoked for sized '
             'values are summarised as returning a Response; user serialisation hooks are assumed total.',
        technique='contract-based deductive verification (pyvc + z3) with typed kind cases',
        design_ref='DESIGN.md 7 C17'),
    'C14': dict(
        text='Deductive verification of find_file (raises ValueError or returns None / the join of the first search '
             'directory holding the normalised path, which is relative and free of ".." components, hence inside that '
             'directory: loop invariant over the search paths), of build_file_response under the fault model "every '
             'filesystem call may raise OSError/ValueError" (each crash point is a path: only a non-breaking '
             'HTTPException escapes, no opened file is left open, Content-Length is getsize, the 304 branch only sets 304) '
             'and of StaticApplication.get_file_response (only non-breaking 403/404 escape).',
        note='posixpath.normpath / join / isfile are assumed contracts (A-np) stated as axioms; symlinks excluded; date '
             'round trip of Last-Modified is Werkzeug\'s; native replay harness with fault injection at every call.',
        technique='contract-based deductive verification (pyvc + z3) with exhaustive fault-point paths',
        design_ref='DESIGN.md 7 C14'),
    'C16': dict(
        text='Deductive verification of JSONCookie.unserialize (postcondition from the statement: for every cookie '
             'string, never an exception, and an empty cookie unless the signature is valid), quote/unquote (round trip '
             'over the json/base64 axioms; malformed payloads raise UnquoteError only) and '
             'SignedCookieMiddleware.request (the provided object is the loaded cookie, it is saved exactly once on the '
             'returned response, the response is otherwise untouched, for all three expiry settings).',
        note='unforgeability (A-mac) is a cryptographic assumption; the dependency SecureCookie.unserialize is an '
             'assumed contract (A-sc) whose existential facts (it raises on malformed input) are executed natively as '
             'witnesses on every run; the multi-request history clause is argued by induction over the round trip, '
             'stated not mechanised.',
        technique='contract-based deductive verification (pyvc + z3); assumed dependency contract with executed witnesses',
        design_ref='DESIGN.md 7 C16'),
    'C09': dict(
        text='Deductive verification of HTTPException.__init__ (status is the given or class code), adapt (format '
             'table, Content-Type agrees with the negotiated type, plain text otherwise), to_escaped_dict / to_html / '
             'to_xml as a taint-style obligation over the formatted string term: every substituted value carries the '
             'ghost predicate ESCAPED, which only html.escape establishes (a removed escape call fails it); the status '
             'table, JSON keys, XML well-formedness and Content-Type agreement of all 31 exported classes are checked by '
             'evaluation on the imported module.',
        note='A-esc (html.escape), json encoder, Werkzeug Accept negotiation assumed; the contextual debug pages rely '
             'on ashes auto-escaping (assumed, A-ashes); control characters in XML are outside the claim.',
        technique='contract-based deductive verification (pyvc + z3), taint predicate over string terms; table by evaluation',
        design_ref='DESIGN.md 7 C09'),
    'C20': dict(
        text='Deductive verification of create_app for every kind of error text (str, bytes, None, any object) and '
             'monitored file list: never raises (the parser sits in a bare except), hands the text itself and the file '
             'list to the application as resources and registers both the root and the catch-all route; get_flaw_info is '
             'total and its context carries tb_str unchanged; T obligations on the source: the endpoint parameters are '
             'exactly resource names (instance of C01/C04) and the template has no raw filter.',
        note='ashes auto-escaping and rendering assumed (A-ashes); the Application/StaticApplication constructors are '
             'used as instances of the C01/C04/C14 contracts; a native page check over a fixed catalogue is a bounded '
             'stand-in; the reloader process is out of reach.',
        technique='contract-based deductive verification (pyvc + z3) + source-level T obligations',
        design_ref='DESIGN.md 7 C20'),
    'C18': dict(
        text='Deductive verification of get_resource_info (inductive list predicate: every entry whose key contains '
             '"secret" carries the constant marker, i.e. its value term is independent of the resource value, for every '
             'resource map), of SignedCookieMiddleware.__repr__ (the result term shares no symbol with secret_key: '
             'non-interference), and of MetaApplication.get_main (no exception of a peripheral escapes, for every list of '
             'peripherals).',
        note='ashes escaping and JSON rendering assumed; render_main_page_html and the per-route info functions are '
             'covered by a native page check (bounded stand-in) only; user middleware reprs are outside the statement.',
        technique='contract-based deductive verification (pyvc + z3): term-dependence (non-interference) and '
                  'exception-containment obligations', design_ref='DESIGN.md 7 C18'),
    'C05': dict(
        text='T obligations over regular languages (z3 RegLan; Python regexes translated mechanically through '
             're._parser): each type\'s lexical class admits only strings its converter accepts and no "/"; for every '
             'pattern shape of up to N elements (N=2 quick, 3 thorough) x trailing slash x slash mode the regex produced '
             'by the real _compile_path_pattern equals, as a language over ALL paths, a spec regex built from the '
             'statement; K: BoundRoute.match_path never raises and returns None or exactly the converter names; the '
             'converter closures are compared natively with a declarative matcher (bounded: every type x operator x slash '
             'mode x trailing slash over segments incl. falsy conversions).',
        note='A-re (Python re semantics for the translated constructs); patterns are enumerated by shape (bounded in '
             'configurations, complete in paths); known finding F3 (empty pieces in multi bindings) is case-split; O2 '
             '(strict pattern with all bindings absent vs "/") is a documented spec decision.',
        technique='contract-based: RegLan lemmas on constants extracted from the real module + per-shape language '
                  'equivalence proofs (z3), K contract on match_path', design_ref='DESIGN.md 7 C05'),
    'C02': dict(
        text='K: sinter.chain_argspec (required / optional / provided name sets per level, loop invariants), '
             'sinter.inject (exactly one call of f, by keyword only; keys = (offered or defaulted) and declared; each '
             'value is the injectable when offered, else the own default), BoundRoute.execute / execute_error (one inject '
             'call on the compiled chain / error renderer with caller keywords over route resources over the built-ins), '
             'Application.dispatch via at-call obligations on every execute / execute_error / uncaught_to_response / '
             'default_render_error call (keys and values of the mapping: URL bindings of THIS route for THIS path, this '
             'request, this application, this dispatch state, the application\'s resource objects by identity); '
             'L: the three postconditions compose to the statement (10 lemmas + a cover obligation); T: the instantiated '
             'process_request template passes a=a to endpoint, b=b and context=<endpoint result> to render. '
             'Bounded stand-in (labelled bounded): every keyword of the real generated chain text is name=name.',
        note='WF (C04) is a hypothesis of the lemmas; Python lexical scoping of the generated nested defs is assumed '
             '(A-exec); middleware-provided values are covered by the text stand-in + scoping, not by a K contract.',
        technique='contract-based: pyvc VCs over the real AST discharged by z3 (K, at-call K, L, T); bounded enumeration '
                  'for the generated text', design_ref='DESIGN.md 7 C02'),
    'C13': dict(
        text='K: Application._dispatch_wsgi (exactly one WSGI callable is invoked, once -- the BaseResponse dispatch '
             'returned or the RerouteWSGI target -- with the caller\'s own environ and start_response objects, its '
             'result/exception relayed as is, the request built from this environ, nothing stored into environ); '
             'check_valid_wsgi (TypeError iff not callable or first two parameter names are not environ, start_response); '
             '_safe_wrap_wsgi (no wrapper: inner itself, nothing called; wrapper: called once with inner, validated result '
             'returned); _get_all_middlewares (type-duplicate-free, first application-level middleware outermost; loop '
             'invariants over a reversed symbolic sequence); static.build_file_response (opened file owned by the response '
             'or closed on every exceptional exit). Bounded stand-in (labelled bounded): real Applications under '
             'wsgiref.validate for 13 paths x 4 methods x 3 Accept x 3 middleware sets, 6 wrapper-stack configurations, '
             'RerouteWSGI as endpoint and raised.',
        note='start_response-once / status line / header types / HEAD body / close() are Werkzeug behaviour (A-wz-resp, '
             'assumed; exercised by the bounded suite). Application.__init__ (the fold of _safe_wrap_wsgi over the list) is '
             'not under contract. F8 fixed (no routes at construction); F8b known (sub-application added after construction).',
        technique='contract-based: pyvc VCs over the real AST discharged by z3 (K) + bounded native WSGI validator suite',
        design_ref='DESIGN.md 7 C13'),
    'C10': dict(
        text='K: BoundRoute.__init__ against the abstract view (pattern == prefix + pattern; slash mode inherited unless opted out; '
             'resources == app (+) route with the route winning at bind time; middlewares == MERGE(route, app); bound_apps extended; '
             'explicit callable render wins; render_error follows the binding application unless opted out; converters of the '
             'prefixed pattern; one source per name), for first binding and re-binding; SubApplication.bind_all (every inner route '
             're-bound in order with the prefix and the two flags, eagerly); merge_middlewares (C03 contract); BoundRoute.execute '
             '(request-time precedence). L: merge associativity MERGE(MERGE(r,i),o) == MERGE(r, MERGE(i,o)) by a 13-step induction '
             'chain; prefix composition; resources of all levels with the serving application winning. Bounded stand-in (labelled '
             'bounded): random application trees (depth <= 3) against an independently flattened declaration.',
        note='equal views => equal behaviour rests on the reads frame of dispatch (assumption); the nesting-depth induction is a '
             'meta-argument over a contract verified for arbitrary already-bound routes.',
        technique='contract-based: pyvc VCs over the real AST discharged by z3 (K, L) + bounded native flat-equivalence harness',
        design_ref='DESIGN.md 7 C10'),
    'C12': dict(
        text='K (confinement frames, checked on every exit and at every loop cut): on the request path -- Application.dispatch, '
             '_dispatch_wsgi, BoundRoute.execute / execute_error / match_path / match_method, sinter.inject, normalize_path, '
             'NullRoute.handle_sentinel_condition, DispatchState.add_exception / update_methods -- every store goes into an object '
             'allocated during the call, the per-request request object, or the response/error object being produced; never into '
             'the Application, its route list, a bound route, the error handler, a mutable parameter default or any other object '
             'that existed before the call. K: the request id stored by _dispatch_wsgi is drawn from the one module-level counter. '
             'T (evaluation on the real AST): class-wide writer scan (attributes of Application / BoundRoute / Route / ErrorHandler '
             '/ Middleware are stored only by configuration-time methods), module-level mutable state, the id counter is a '
             'module-level itertools.count().',
        note='No schedule is explored: this is a schedule-independent sufficient condition plus a stated (not mechanised) '
             'serialisability argument; A-gil for next() on the counter; interference through user code is not decided. A frame '
             'violation has no failing schedule: VIOLATION lines end with no-failing-input-found.',
        technique='contract-based: frame (assigns) obligations generated by pyvc on the real AST, discharged by z3; syntactic '
                  'writer scan as T obligations', design_ref='DESIGN.md 7 C12'),
}

REASONS = {}

checks = []
na = []
for p in props:
    pid = p['id']
    c = CLAIMED.get(pid)
    if c is None:
        na.append({'property_id': pid, 'reason': REASONS.get(pid, 'check not built yet (see DESIGN.md section 7 for the planned contracts)')})
        continue
    checks.append({
        'property_id': pid,
        'quick_cmd': './check %s --tier quick' % pid,
        'thorough_cmd': './check %s --tier thorough' % pid,
        'evidence_file': 'evidence/%s.json' % pid,
        'replay_cmd_template': './check %s --replay {path}' % pid,
        'engine': 'pyvc',
        'level_claimed': {'category': 'proof', 'text': c['text'], 'design_ref': c['design_ref']},
        'level_note': c['note'] + ' Bounded native stand-ins that run with this check (labelled bounded, never counted as proved) '
                      'and every assumed contract are listed in the evidence file (coverage.bounded_standins, assumptions); the build '
                      'report is DESIGN.md section 12.',
        'technique': c['technique'],
    })
m = {
    'version': 1,
    'setup_cmd': './setup.sh',
    'hooks': {'guard': 'CLASTIC_VERIF',
              'enable': 'no hooks: contracts are sidecar files under /verif/contracts; nothing in /repo is instrumented',
              'baseline_off_cmd': 'cd /repo && /venv/bin/python -m pytest -ra -q -p no:cacheprovider --timeout=900 --continue-on-collection-errors',
              'source_commits': [], 'add_only': True},
    'engines': [{'name': 'pyvc', 'path': 'pyvc/', 'serves_properties': [c['property_id'] for c in checks],
                 'kind_free_text': 'contract-based VC generator over the real Python source (ast -> symbolic executor with sidecar contracts -> z3, cvc5/z3-4.8 second opinion); native replay of counter-models under /venv/bin/python'}],
    'checks': checks,
    'notes': 'exit codes: 0 held, 1 violation (VIOLATION line), 2 undecided (never a VIOLATION line), 3 checker defect. '
             'Repairs of genuine defects are fix: commits in /repo recorded in known_findings.json.',
    'not_applicable': na,
}
json.dump(m, open(os.path.join(HERE, 'MANIFEST.json'), 'w'), indent=1)
print('claimed', [c['property_id'] for c in checks])
