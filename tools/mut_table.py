#!/usr/bin/env python3
"""Markdown table of the seeded changes and what the target check answered (input: eval_seeded.sh log lines)."""
import json, os, re, sys
rows = {}
for line in open(sys.argv[1]):
    m = re.match(r'(C\d\d-(?:r[234])?m\d) check=(C\d\d) (exit=\d)? ?:: ?(.*)', line.strip())
    if not m:
        continue
    mid, chk, ex, rest = m.groups()
    rows[(mid, chk)] = (ex or 'exit=?', rest)
print('| change | what it breaks (summary by the seeding agent) | check | verdict | reported as |')
print('|---|---|---|---|---|')
for (mid, chk), (ex, rest) in sorted(rows.items()):
    meta = {}
    try:
        meta = json.load(open(os.path.join('/verif/seeded', mid, 'meta.json')))
    except Exception:
        pass
    summ = (meta.get('summary') or '').replace('|', '/').replace('\n', ' ')[:150]
    how = ''
    if 'VIOLATION' in rest:
        reps = re.findall(r'replay=\S+/(\S+?)\.json( no-failing-input-found)?', rest)
        how = '; '.join('%s%s' % (r[0], ' (no input)' if r[1] else ' (replayed input)') for r in reps[:2])
    elif ex == 'exit=2':
        how = 'undecided: ' + rest.split('undecided:')[1][:90].strip() if 'undecided:' in rest else 'undecided'
    elif ex == 'exit=3':
        how = 'checker defect'
    verdict = {'exit=1': 'VIOLATION', 'exit=0': 'missed', 'exit=2': 'undecided', 'exit=3': 'error'}.get(ex, ex)
    print('| %s | %s | %s | %s | %s |' % (mid, summ, chk, verdict, how.replace('|', '/')))
