#!/bin/sh
# regenerate baseline_obligations.json for every claimed property (unchanged tree only!)
cd /verif
for p in $(python3 -c "import json;print(' '.join(x['property_id'] for x in json.load(open('MANIFEST.json'))['checks']))" 2>/dev/null); do
  ./check $p --rebaseline --no-canaries 2>&1 | grep "tier=" | cut -c1-160
done
