#!/bin/bash
# run the target property's quick check against every seeded change (on a scratch worktree, via PYVC_REPO)
# usage: eval_seeded.sh [pattern]   -> lines "<id> exit=<code> <summary>"
cd /verif
WT=/tmp/wt/eval${SHARD:-}
git -C /repo worktree remove --force $WT >/dev/null 2>&1
git -C /repo worktree add --detach $WT HEAD >/dev/null 2>&1
for d in /verif/seeded/${1:-*}; do
  id=$(basename $d); pid=${id%%-*}
  git -C $WT checkout -q -- . ; git -C $WT clean -fdq
  git -C $WT apply $d/patch.diff || { echo "$id APPLY-FAILED"; continue; }
  for p in ${2:-$pid}; do
    out=$(PYVC_REPO=$WT timeout 1500 ./check $p --no-canaries 2>&1 | grep -v "^KNOWN\|WARNING\|Warning")
    code=$(echo "$out" | grep -o "exit=[0-9]" | tail -1)
    echo "$id check=$p $code :: $(echo "$out" | grep "VIOLATION\|undecided:\|error:" | head -2 | cut -c1-200 | tr '\n' '|')"
  done
done
git -C /repo worktree remove --force $WT
