#!/usr/bin/env python3
"""Run a property check against a scratch copy of /repo with one textual replacement applied.
usage: try_mutant.py PID FILE OLD NEW [extra check args...]   (OLD/NEW are Python string literals or raw text)"""
import os, shutil, subprocess, sys, tempfile, ast
pid, rel, old, new = sys.argv[1:5]
def lit(s):
    try:
        v = ast.literal_eval(s)
        return v if isinstance(v, str) else s
    except Exception:
        return s
old, new = lit(old), lit(new)
tmp = tempfile.mkdtemp(prefix='mut-')
try:
    shutil.copytree('/repo/clastic', os.path.join(tmp, 'clastic'), ignore=shutil.ignore_patterns('__pycache__'))
    p = os.path.join(tmp, rel)
    s = open(p).read()
    assert old in s, 'pattern absent'
    open(p, 'w').write(s.replace(old, new, 1))
    env = dict(os.environ, PYVC_REPO=tmp)
    r = subprocess.run(['./check', pid, '--no-canaries'] + sys.argv[5:], env=env, cwd='/verif')
    print('exit', r.returncode)
finally:
    shutil.rmtree(tmp, ignore_errors=True)
