#!/bin/sh
# run every claimed quick (or $1=thorough) check, one summary line each
cd /verif
tier=${1:-quick}
for p in $(python3 -c "import json;print(' '.join(x['property_id'] for x in json.load(open('MANIFEST.json'))['checks']))" 2>/dev/null); do
  timeout 3000 ./check $p --tier $tier 2>&1 | grep -v "^KNOWN\|Warning\|warn\|WARNING" | grep "tier=\|undecided\|error\|VIOLATION" | head -8
done
